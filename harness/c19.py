"""C19 — neural bandits keep an exact inverse of their regularised Gram matrix.

K: real NeuralUCB / NeuralTS agents are driven through seeded histories (decisions with masks, learn,
mutations through `Mutations`, direct mutation calls, direct `_reinit_bandit_grads` resizes, clones,
checkpoint round-trips). The gradient feature of every arm is recomputed independently with
`torch.autograd.grad` on the live output layer; the feature of the chosen arm drives the Coq model
(exact Q arithmetic), whose matrix is compared with `agent.sigma_inv` (float32) within a stated tolerance
evaluated in Q; Coq also checks the per-case inverse certificate  (lam*I + sum v v^T) * S_k = I  exactly.
"""
from __future__ import annotations

import os
import sys
import warnings

import numpy as np
import torch

import vlib
from vlib import Violation, coq_Q

from gymnasium import spaces
from agilerl.algorithms.neural_ucb_bandit import NeuralUCB
from agilerl.algorithms.neural_ts_bandit import NeuralTS
from agilerl.algorithms.core.registry import HyperparameterConfig, RLParameter
from agilerl.hpo.mutation import Mutations
from agilerl.hpo.tournament import TournamentSelection
from agilerl.components.replay_buffer import ReplayBuffer
from agilerl.training.train_bandits import train_bandits

warnings.filterwarnings("ignore")

NMAX = 8           # largest output-layer parameter count whose matrices are compared entry by entry inside Coq
TOL = 1.0 / 16384   # entrywise: abs(sigma_inv - S_k) <= TOL / lam (entries of S_k are bounded by 1/lam); measured float32 drift after <= 30 rank-one updates is about 1.3e-7 / lam
OTOL = 2e-5        # oracle: lam * max abs(sigma_inv - inv(lam I + sum g g^T)) in float64; measured <= 5e-7 after 300 updates
ALGOS = {"ucb": NeuralUCB, "ts": NeuralTS}
MUT_KINDS = ("none", "arch", "param", "act", "rl_hp")


# ------------------------------------------------------------------------------------------------
# helpers around the real agent
# ------------------------------------------------------------------------------------------------
def live_layer(agent):
    return agent.actor.get_output_dense()


def layer_desc(layer):
    """[(key index, numel)] of the trainable parameters in named_parameters order; 0 = weight, 1 = bias, 2+ = other"""
    out = []
    for name, p in layer.named_parameters():
        if p.requires_grad:
            k = {"weight": 0, "bias": 1}.get(name)
            if k is None:
                k = 2 + (sum(map(ord, name)) % 1000)
            out.append([k, int(p.numel())])
    return out


def features(agent, ctx):
    """Independent recomputation of the per-arm gradient features (autograd on the live output layer,
    divided by sqrt(out_features)); returns float32 array (arms, n)."""
    layer = live_layer(agent)
    params = [p for p in layer.parameters() if p.requires_grad]
    obs = agent.preprocess_observation(ctx)      # the library's own observation conversion (property C15's subject)
    mu = agent.actor(obs)
    rows = []
    for k in range(mu.shape[0]):
        gs = torch.autograd.grad(mu[k].sum(), params, retain_graph=True, allow_unused=True)
        flat = torch.cat([(g if g is not None else torch.zeros_like(p)).detach().flatten()
                          for g, p in zip(gs, params)])
        rows.append((flat / np.sqrt(layer.weight.size(0))).to(torch.float32))
    return torch.stack(rows).numpy()


def net_out(agent, ctx):
    with torch.no_grad():
        return agent.actor(agent.preprocess_observation(ctx)).detach().cpu().double().numpy().reshape(-1)


IMG = (2, 6, 6)
DICT_KEYS = {"a": 3, "b": 2}


def obs_space_of(case):
    kind = case.get("space", "vector")
    if kind == "image":
        return spaces.Box(low=0, high=255, shape=IMG, dtype=np.uint8)
    if kind == "dict":
        return spaces.Dict({k: spaces.Box(low=-10, high=10, shape=(n,), dtype=np.float32) for k, n in DICT_KEYS.items()})
    return spaces.Box(low=-10, high=10, shape=(case["cdim"],), dtype=np.float32)


def arg_copy(x):
    if isinstance(x, dict):
        return {k: arg_copy(v) for k, v in x.items()}
    if torch.is_tensor(x):
        return x.detach().clone()
    if isinstance(x, np.ndarray):
        return x.copy()
    return x


def arg_same(a, b):
    """did the callee leave the caller's argument exactly as it was (values, dtype, shape, key order)?"""
    if isinstance(a, dict):
        return isinstance(b, dict) and list(a) == list(b) and all(arg_same(a[k], b[k]) for k in a)
    if torch.is_tensor(a):
        return torch.is_tensor(b) and a.dtype == b.dtype and a.shape == b.shape and bool(torch.equal(a, b))
    if isinstance(a, np.ndarray):
        return isinstance(b, np.ndarray) and a.dtype == b.dtype and a.shape == b.shape and bool(np.array_equal(a, b))
    return a is b or a == b


def make_ctx(case, rs, rows=None, for_learn=False):
    """one context (one row per arm) of the case's observation space; for_learn: a float batch as train_bandits stores it"""
    n = case["arms"] if rows is None else rows
    kind = case.get("space", "vector")
    if kind == "image":
        x = rs.randint(0, 256, size=(n,) + IMG).astype(np.uint8)
        return torch.as_tensor(x.astype(np.float32) / 255.0) if for_learn else x
    if kind == "dict":
        d = {k: (rs.randn(n, m) * 1.5).astype(np.float32) for k, m in DICT_KEYS.items()}
        if case.get("dict_reversed"):           # caller-provided key order differs from the space's
            d = {k: d[k] for k in reversed(list(d))}
        return {k: torch.as_tensor(v) for k, v in d.items()} if for_learn else d
    x = (rs.randn(n, case["cdim"]) * 1.5).astype(np.float32)
    if not for_learn:
        cd = case.get("ctx")
        if cd == "float64":          # values float32 cannot represent exactly
            x = rs.randn(n, case["cdim"]) * 1.5 + 1e-9
        elif cd == "int64":          # integer contexts
            x = rs.randint(-3, 4, size=(n, case["cdim"])).astype(np.int64)
        elif cd == "bounds":         # every entry at a bound of the Box
            x = (10.0 * rs.choice([-1.0, 1.0], size=(n, case["cdim"]))).astype(np.float32)
        elif cd == "noncontig":      # a non-contiguous view handed in by the caller
            x = np.asfortranarray(x)
    return torch.as_tensor(x) if for_learn else x


ARCH_METHODS = ["head_net.add_node", "head_net.remove_node", "head_net.add_layer", "head_net.remove_layer",
                "add_latent_node", "remove_latent_node", "encoder.add_node", "encoder.remove_node",
                "encoder.add_layer", "encoder.remove_layer", "encoder.add_channel", "encoder.remove_channel",
                "encoder.change_kernel", "encoder.add_latent_node", "encoder.remove_latent_node",
                "encoder.add_block", "encoder.remove_block"]


class ScriptedArchMethod:
    """Mutations.architecture_mutate samples the mutation method with get_architecture_mut_method(...); the harness
    scripts that draw so that every architecture mutation method of every encoder kind is exercised."""

    def __init__(self, name):
        import agilerl.hpo.mutation as mm
        self.mm, self.name = mm, name

    def __enter__(self):
        self.orig = self.mm.get_architecture_mut_method
        self.mm.get_architecture_mut_method = lambda *a, **k: self.name
        return self

    def __exit__(self, *exc):
        self.mm.get_architecture_mut_method = self.orig


def new_coords(old, new):
    """indices (in the new layout) of the output-layer parameters that did not exist in the old layer"""
    o = dict(map(tuple, old))
    out, i = [], 0
    for k, n in new:
        if k in o:
            if n > o[k]:
                out += list(range(i + o[k], i + n))
        else:
            out += list(range(i, i + n))
        i += n
    return out


def op_kind(op, rec, lam):
    """how an op of a history acts on the confidence matrix, judged from what was observed:
    'hook'   — a mutation after which sigma_inv IS the freshly initialised eye/lambda (the init_params hook ran);
    'direct' — a mutation that left sigma_inv alone (allowed by the property as long as the size still matches);
    others by name. Re-initialising at a mutation is what the current tree does after every Mutations.mutation call, but
    the property does not demand it, so the check does not either."""
    k = op[0]
    if k == "act_bad" or (k == "archm" and rec.get("skipped")):
        return "learn"
    if k in ("mut", "archm") or (k == "direct" and op[1] == "arch"):
        sg = rec.get("sigma")
        if sg is None:
            return "hook"
        n = len(sg)
        d = 1.0 / float(lam)
        fresh = all(x is not None and abs(x - (d if i == j else 0.0)) <= 1e-6 * d
                    for i, row in enumerate(sg) for j, x in enumerate(row)) and rec["shape"] == [n, n]
        return "hook" if fresh else "direct"
    return k


def snap(agent, with_sigma):
    lay = live_layer(agent)
    s = agent.sigma_inv
    d = {"numel": int(agent.numel), "bound": bool(agent.exp_layer is lay),
         "shape": [int(x) for x in s.shape], "live": layer_desc(lay),
         "sigma": None, "dtype": str(s.dtype), "lamb": float(agent.lamb), "gamma": float(agent.gamma)}
    if with_sigma and s.dim() == 2 and s.shape[0] <= NMAX and s.shape[1] <= NMAX:
        d["sigma"] = [[(float(x) if np.isfinite(x) else None) for x in row] for row in s.detach().cpu().double().numpy()]
    return d


class ScriptedHP:
    """Mutations.rl_hyperparam_mutation draws the hyperparameter with hp_config.sample(); the harness scripts that draw
    (randomness is an input) so that `lamb` — a legal HyperparameterConfig entry — is the one that gets mutated."""

    def __init__(self, name):
        self.name = name

    def __enter__(self):
        self.orig = HyperparameterConfig.sample
        name = self.name
        HyperparameterConfig.sample = lambda cfg: (name, cfg[name])
        return self

    def __exit__(self, *exc):
        HyperparameterConfig.sample = self.orig


class ScriptedNodes:
    """EvolvableMLP.add_node/remove_node draw the number of nodes from np.random.choice([16, 32, 64]);
    the harness scripts that draw (randomness is an input) so that output layers stay small."""

    def __init__(self, k):
        self.k = k
        self.orig = np.random.choice

    def __enter__(self):
        orig, k = self.orig, self.k

        def choice(a, *args, **kw):
            try:
                if list(a) == [16, 32, 64]:
                    return np.array([k])
            except TypeError:
                pass
            return orig(a, *args, **kw)
        np.random.choice = choice
        return self

    def __exit__(self, *exc):
        np.random.choice = self.orig


class CaptureBonus:
    """Observes the exploration bonus get_action really used, from outside: NeuralTS passes it to torch.normal as
    `std`; NeuralUCB adds it to the network output, which is re-evaluated by the caller (`mu`) — the sum reaches
    np.argmax. If a refactoring removes these calls nothing is captured and the bonus clause is skipped."""

    def __init__(self):
        self.std = None
        self.values = None

    def __enter__(self):
        self.o_normal, self.o_argmax = torch.normal, np.argmax
        me = self

        def normal(*a, **kw):
            if me.std is None and "std" in kw and torch.is_tensor(kw["std"]):
                me.std = kw["std"].detach().clone()
            return me.o_normal(*a, **kw)

        def argmax(a, *args, **kw):
            if me.values is None:
                try:
                    me.values = np.array(np.ma.getdata(a), dtype=np.float64).reshape(-1)
                except Exception:
                    pass
            return me.o_argmax(a, *args, **kw)
        torch.normal, np.argmax = normal, argmax
        return self

    def __exit__(self, *exc):
        torch.normal, np.argmax = self.o_normal, self.o_argmax

    def values_list(self):
        if self.values is None or not np.all(np.isfinite(self.values)):
            return None
        return [float(x) for x in self.values]

    def bonus(self, algo):
        if algo == "ts" and self.std is not None:
            return [(float(x) if np.isfinite(x) else None) for x in self.std.double().reshape(-1).numpy()]
        return None


class TinyBanditEnv:
    """reset() -> context (arms, cdim); step(k) -> (next context, reward) — the interface train_bandits uses"""

    def __init__(self, arms, cdim, rs):
        self.arms, self.cdim, self.rs = arms, cdim, rs

    def _ctx(self):
        return (self.rs.randn(self.arms, self.cdim) * 1.5).astype(np.float32)

    def reset(self):
        return self._ctx()

    def step(self, k):
        return self._ctx(), float(self.rs.rand() < 0.5)


class LoopRecorder:
    """Class-level wrappers around init_params / get_action / learn that record, per agent object, the history the
    real training loop (train_bandits + tournament + Mutations) drives it through."""

    def __init__(self, cls, algo, every):
        self.cls, self.algo, self.every = cls, algo, every
        self.events = {}

    def rec_of(self, agent):
        return self.events.setdefault(id(agent), {"agent": agent, "init": None, "ops": [], "trace": [],
                                                  "crash": None, "workarounds": [], "parents": []})

    def __enter__(self):
        cls, me = self.cls, self
        self.o_init, self.o_act, self.o_learn = cls.init_params, cls.get_action, cls.learn

        def init_params(agent):
            me.o_init(agent)
            e = me.rec_of(agent)
            if e["init"] is None:
                e["init"] = snap(agent, True)
            else:
                e["ops"].append(["mut", "hook", 0])
                r = {"op": "mut"}
                r.update(snap(agent, True))
                e["trace"].append(r)

        def get_action(agent, obs, action_mask=None):
            e = me.rec_of(agent)
            ctx = np.asarray(obs, dtype=np.float32)
            G = features(agent, ctx)
            with torch.no_grad():
                mu0 = agent.actor(torch.as_tensor(ctx)).detach().cpu().double().numpy().reshape(-1)
            S_before = agent.sigma_inv.detach().clone()
            gamma_used = float(agent.gamma)          # the gamma the agent holds when it decides
            obs_before = arg_copy(obs)
            with CaptureBonus() as cap:
                a = me.o_act(agent, obs, action_mask=action_mask)
            args_modified = [] if arg_same(obs_before, obs) else ["obs"]
            r = {"op": "act", "action": int(a), "G": [[float(x) for x in row] for row in G], "gamma_used": gamma_used,
                 "args_modified": args_modified}
            if S_before.shape == (G.shape[1], G.shape[1]):
                g32 = torch.as_tensor(G)
                rad = torch.matmul(torch.matmul(g32[:, None, :], S_before), g32[:, :, None])[:, 0, 0]
                r["radicand"] = [(float(x) if np.isfinite(x) else None) for x in rad]
            r["bonus"] = cap.bonus(me.algo)
            r["values"] = cap.values_list()
            if me.algo == "ucb" and cap.values is not None and len(cap.values) == len(mu0):
                r["bonus"] = [(float(x) if np.isfinite(x) else None) for x in (cap.values - mu0)]
            nact = sum(1 for o in e["ops"] if o[0] == "act")
            r.update(snap(agent, nact % me.every == 0))
            r["mask"] = None if action_mask is None else [int(x) for x in action_mask]
            e["ops"].append(["act", r["mask"]])
            e["trace"].append(r)
            return a

        def learn(agent, experiences):
            loss = me.o_learn(agent, experiences)
            e = me.rec_of(agent)
            r = {"op": "learn", "loss": float(loss)}
            r.update(snap(agent, False))
            e["ops"].append(["learn"])
            e["trace"].append(r)
            return loss
        def clone(agent, *a, **kw):
            c = me.o_clone(agent, *a, **kw)
            # the clone's history is its parent's history followed by a Clone op (copy_attributes hands it the parent's
            # sigma_inv); the constructor / hook calls made while cloning are internal to that op
            ep = me.rec_of(agent)
            r = {"op": "clone", "alias": bool(c.sigma_inv.data_ptr() == agent.sigma_inv.data_ptr())}
            r.update(snap(c, True))
            me.events[id(c)] = {"agent": c, "init": ep["init"], "ops": list(ep["ops"]) + [["clone"]],
                                "trace": list(ep["trace"]) + [r], "crash": None, "workarounds": [], "parents": []}
            return c
        self.o_clone = cls.clone
        cls.init_params, cls.get_action, cls.learn, cls.clone = init_params, get_action, learn, clone
        return self

    def __exit__(self, *exc):
        self.cls.init_params, self.cls.get_action, self.cls.learn = self.o_init, self.o_act, self.o_learn
        self.cls.clone = self.o_clone


def make_mutations(kind, seed):
    p = {k: 0.0 for k in MUT_KINDS}
    p[kind] = 1.0
    return Mutations(no_mutation=p["none"], architecture=p["arch"], new_layer_prob=0.3, parameters=p["param"],
                     activation=p["act"], rl_hp=p["rl_hp"], mutation_sd=0.1, mutate_elite=True, rand_seed=seed,
                     device="cpu")


def build_agent(case):
    cls = ALGOS[case["algo"]]
    kind = case.get("space", "vector")
    obs_space = obs_space_of(case)
    act_space = spaces.Discrete(case["arms"])
    head = {"hidden_size": list(case["head"]), "min_mlp_nodes": 1, "max_mlp_nodes": NMAX - 1,
            "min_hidden_layers": 1, "max_hidden_layers": 3}
    if case.get("head_act"):
        head["activation"] = case["head_act"]
    if case.get("head_layer_norm") is not None:
        head["layer_norm"] = bool(case["head_layer_norm"])
    if kind == "image":
        net_config = {"encoder_config": {"channel_size": [3], "kernel_size": [3], "stride_size": [1]}, "head_config": head}
    elif kind == "dict":
        net_config = {"head_config": head}
    elif kind == "simba":
        net_config = {"simba": True, "encoder_config": {"hidden_size": 8, "num_blocks": 1}, "head_config": head}
    elif kind == "default":
        net_config = None                       # the library's defaults: output layer with 17 parameters
    else:
        net_config = {"encoder_config": {"hidden_size": list(case["enc"]), "min_mlp_nodes": 2, "max_mlp_nodes": 12},
                      "head_config": head}
        if case.get("partial"):
            net_config = {"head_config": head}      # partial configuration: default encoder
    hp = HyperparameterConfig(lr=RLParameter(min=1e-4, max=1e-2), batch_size=RLParameter(min=4, max=32, dtype=int),
                              learn_step=RLParameter(min=1, max=8, dtype=int), lamb=RLParameter(min=0.1, max=4.0),
                              gamma=RLParameter(min=0.25, max=4.0))
    lam, gamma = case["lam"], case["gamma"]
    if case.get("int_params"):                  # the constructor also accepts ints for lamb / gamma
        lam, gamma = int(lam), int(gamma)
    kw = dict(hp_config=hp, gamma=gamma, lamb=lam, batch_size=8, lr=float(case.get("lr", 1e-3)))
    if kind == "custom":                        # caller-provided network (make_safe_deepcopies path)
        from agilerl.networks.value_networks import ValueNetwork
        net = ValueNetwork(observation_space=obs_space, encoder_config={"hidden_size": list(case["enc"])}, head_config=head)
        return cls(obs_space, act_space, actor_network=net, **kw)
    return cls(obs_space, act_space, net_config=net_config, **kw)


# ------------------------------------------------------------------------------------------------
class C19(vlib.Driver):
    pid = "C19"
    preamble = "From Coq Require Import QArith.\nFrom AgileV Require Import C19.Model C19.Check.\nOpen Scope nat_scope."
    rule = ("history = (algorithm, dims, lambda, gamma, op list over {decision with mask, learn, Mutations.mutation of each kind, "
            "direct parameter/activation/architecture mutation, direct _reinit_bandit_grads resize, clone, checkpoint "
            "load / load_checkpoint}); distinct = distinct (configuration, op list); non-trivial = at least 3 rank-one "
            "updates of the confidence matrix. Unit stream: _reinit_bandit_grads on integer-tagged matrices (exact).")
    trusted_base = ["hand-written model coq/theories/C19/Model.v (generic matrix code, executed over Q with Qred)",
                    "correspondence harness harness/c19.py (independent autograd recomputation of the arm features, "
                    "scripted np.random.choice for node counts, float32 -> Q exact conversion)",
                    "mathcomp 1.15 (ssreflect, algebra) for the Sherman-Morrison / Gram-inverse theorems"]
    assumptions = ["float32 drift of sigma_inv is bounded only empirically: entries within 2^-14 / lambda of the exact inverse "
                   "after <= 30 updates (K tolerance, evaluated in Q)",
                   "which arm is chosen (argmax / Thompson sample) is an input of the model, not modelled",
                   "torch autograd gives the gradient of the network output w.r.t. the output layer (recomputed independently)",
                   "numpy delete/insert semantics in _reinit_bandit_grads (validated by K on tagged matrices)"]
    shard = 6

    # ---------- generation
    def generate(self, tier, rng):
        cases = []
        nhist = 48 if tier == "quick" else 240
        for i in range(nhist):
            algo = "ucb" if i % 2 == 0 else "ts"
            arms = rng.randint(2, 4)
            cdim = rng.randint(2, 6)
            lam = rng.choice([0.5, 1.0, 2.0, 0.5, 2.0, 0.3, 3.0])
            gamma = rng.choice([1.0, 0.5, 2.0])
            head = [rng.randint(1, 5)] if rng.random() < 0.8 else [rng.randint(2, 4), rng.randint(1, 4)]
            enc = [rng.randint(2, 5)]
            nops = rng.randint(3, 14) if tier == "quick" else rng.randint(3, 30)
            if i % 6 == 0:
                nops = rng.randint(18, 30)
            ops = []
            for _ in range(nops):
                r = rng.random()
                if r < 0.62 or not ops:
                    if rng.random() < 0.5:
                        mask = None
                    else:
                        mask = [rng.randint(0, 1) for _ in range(arms)]
                        if not any(mask):
                            mask[rng.randrange(arms)] = 1
                    ops.append(["act", mask])
                elif r < 0.72:
                    ops.append(["learn"])
                elif r < 0.80:
                    ops.append(["mut", rng.choice(MUT_KINDS), rng.randint(1, 2)])
                elif r < 0.85:
                    ops.append(["direct", rng.choice(["param", "act", "arch"]), rng.randint(1, 2)])
                elif r < 0.89:
                    ops.append(["resize", rng.choice(["add", "add", "remove"]), 1])
                elif r < 0.945:
                    ops.append(["clone"])
                else:
                    ops.append(["reload", rng.choice(["load", "load_checkpoint"])])
            cases.append({"kind": "hist", "algo": algo, "arms": arms, "cdim": cdim, "lam": lam, "gamma": gamma,
                          "enc": enc, "head": head, "partial": rng.random() < 0.15, "seed": rng.randrange(10 ** 6),
                          "ops": ops, "every": 4})
        # ---- boundary-complete structured cases (generator audit) ----------------------------------------------
        def base(**kw):
            d = {"kind": "hist", "algo": "ucb", "arms": 3, "cdim": 3, "lam": 2.0, "gamma": 1.0, "enc": [3], "head": [3],
                 "partial": False, "seed": rng.randrange(10 ** 6), "every": 2}
            d.update(kw)
            return d
        methods = {
            "vector": ["head_net.add_node", "head_net.remove_node", "head_net.add_layer", "head_net.remove_layer",
                       "add_latent_node", "remove_latent_node", "encoder.add_node", "encoder.remove_node"],
            "image": ["head_net.add_node", "head_net.remove_node", "head_net.add_layer", "head_net.remove_layer",
                      "add_latent_node", "remove_latent_node", "encoder.add_channel", "encoder.remove_channel",
                      "encoder.change_kernel"],
            "dict": ["head_net.add_node", "head_net.remove_node", "head_net.add_layer", "head_net.remove_layer",
                     "add_latent_node", "remove_latent_node", "encoder.add_latent_node", "encoder.remove_latent_node"],
            "simba": ["head_net.add_node", "head_net.remove_node", "head_net.add_layer", "head_net.remove_layer",
                      "add_latent_node", "remove_latent_node", "encoder.add_node", "encoder.remove_node"],
            "custom": ["head_net.add_node", "encoder.add_node"],
        }
        # every architecture mutation method of every encoder kind, before/after decisions, then clone -> mutate -> clone -> reload
        j = 0
        for space, ms in methods.items():
            for meth in ms:
                j += 1
                if tier == "quick" and space in ("simba", "dict") and j % 2 == 0:
                    continue            # quick tier: every second method for these two kinds (thorough: all)
                m1 = [1, 0, 1]
                cases.append(base(algo="ucb" if j % 2 else "ts", space=space, lam=rng.choice([0.5, 2.0]), dict_reversed=(j % 4 < 2),
                                  ops=[["act", None], ["act", m1], ["archm", meth, 1], ["act", None], ["act", m1], ["clone"],
                                       ["archm", meth, 1], ["clone"], ["act", None],
                                       ["reload", "load" if j % 2 else "load_checkpoint"], ["act", None]]))
        # hard limits of add/remove node/layer on the head (the output layer's input width): at, one below, one above the bound
        for head, meth, k in [([NMAX - 1], "head_net.add_node", 1), ([NMAX - 2], "head_net.add_node", 1), ([NMAX - 3], "head_net.add_node", 2),
                              ([2], "head_net.remove_node", 1), ([3], "head_net.remove_node", 1), ([1], "head_net.remove_node", 1),
                              ([2, 2, 2], "head_net.add_layer", 1), ([2], "head_net.remove_layer", 1), ([3, 2], "head_net.remove_layer", 1)]:
            cases.append(base(algo=rng.choice(["ucb", "ts"]), head=head,
                              ops=[["act", None], ["act", None], ["archm", meth, k], ["act", None], ["mut", "none", 1], ["act", None],
                                   ["archm", meth, k], ["reload", "load"], ["act", None]]))
        # chains: clone -> mutate -> clone, save right after a mutation (no learn / decision in between), reload of a clone
        cases.append(base(algo="ucb", ops=[["act", None], ["clone"], ["mut", "arch", 1], ["clone"], ["reload", "load"], ["clone"], ["act", None],
                                           ["mut", "param", 1], ["reload", "load_checkpoint"], ["act", None], ["direct", "act", 1],
                                           ["reload", "load"], ["act", None]]))
        cases.append(base(algo="ts", head=[2, 3], ops=[["mut", "arch", 2], ["reload", "load_checkpoint"], ["act", None], ["act", None], ["clone"],
                                                       ["direct", "arch", 1], ["clone"], ["reload", "load"], ["act", None], ["learn"],
                                                       ["mut", "rl_hp", 1], ["reload", "load"], ["act", None]]))
        cases.append(base(algo="ucb", head=[4], ops=[["resize", "add", 1], ["reload", "load"], ["act", None], ["clone"], ["resize", "remove", 1],
                                                     ["clone"], ["act", None], ["direct", "param", 1], ["clone"], ["act", None]]))
        # the library's default network (output layer with 17 parameters) and an unscripted-size growth: too large for exact K,
        # sizes compared in Coq, everything else by the oracle
        cases.append(base(algo="ucb", space="default", cdim=4, ops=[["act", None]] * 3 + [["mut", "arch", 16], ["act", None], ["clone"], ["act", None],
                                                                     ["reload", "load"], ["act", None]]))
        cases.append(base(algo="ts", head=[3], ops=[["act", None], ["direct", "arch", 32], ["act", None], ["act", None]]))
        # integer lambda / gamma, no layer norm / other activation in the head
        cases.append(base(algo="ucb", int_params=True, lam=2.0, gamma=1.0, head_layer_norm=False, ops=[["act", None]] * 5 + [["mut", "act", 1], ["act", None]]))
        cases.append(base(algo="ts", int_params=True, lam=3.0, gamma=2.0, head_act="Tanh", ops=[["act", [0, 1, 1]]] * 4 + [["clone"], ["act", None]]))
        # long runs: float32 drift over many rank-one updates (small matrices, observed every 10th step)
        for _ in range(1 if tier == "quick" else 4):
            n_upd = 60 if tier == "quick" else 300
            cases.append(base(algo=rng.choice(["ucb", "ts"]), head=[2], lam=rng.choice([0.5, 2.0]), every=10, ops=[["act", None]] * n_upd))
        # round 3: `lamb` is a legal HyperparameterConfig entry — RL-hyperparameter mutations that draw it (scripted draw), through
        # Mutations.mutation, before / after / between decisions, then clone / reload; the matrix must be the inverse for the
        # agent's CURRENT lambda
        for algo_ in ("ucb", "ts"):
            L_ = ["mut", "rl_hp_lamb", 0]
            cases.append(base(algo=algo_, lam=rng.choice([0.5, 1.0, 2.0]),
                              ops=[["act", None], ["act", [1, 0, 1]], L_, ["act", None], ["act", [0, 1, 1]], L_, L_, ["act", None],
                                   ["clone"], ["act", None], ["reload", "load"], ["act", None]]))
            cases.append(base(algo=algo_, lam=rng.choice([0.3, 3.0]), head=[rng.randint(1, 4)],
                              ops=[L_, ["act", None], ["learn"], L_, ["learn"], ["act", None], ["mut", "param", 1], L_,
                                   ["reload", "load_checkpoint"], ["act", None], ["mut", "none", 1], ["act", None]]))
        for algo_ in ("ucb", "ts"):      # gamma (bonus scale) is a legal entry too: the bonus must use the agent's current gamma
            Gm_ = ["mut", "rl_hp_gamma", 0]
            cases.append(base(algo=algo_, gamma=rng.choice([0.5, 1.0, 2.0]), every=1,
                              ops=[["act", None], Gm_, ["act", None], ["act", [1, 1, 0]], Gm_, ["mut", "rl_hp_lamb", 0], ["act", None], ["clone"],
                                   ["act", None]]))
        # round 3: the IDENTICAL context matrix in consecutive decisions, with no / one / several learn steps (and a direct parameter
        # mutation) in between: the features must be those of the CURRENT network (recomputed independently by autograd)
        for algo_ in ("ucb", "ts"):
            S_ = ["act", None, "same"]
            cases.append(base(algo=algo_, lr=1e-2, lam=rng.choice([0.5, 2.0]), every=1,
                              ops=[["act", None], S_, ["learn"], S_, ["learn"], ["learn"], ["learn"], S_, S_, ["direct", "param", 1], S_,
                                   ["act", None], ["learn"], ["act", [1, 1, 0], "same"], ["clone"], S_, ["learn"], ["reload", "load"], S_,
                                   ["mut", "param", 1], S_, ["learn"], ["reload", "load_checkpoint"], S_]))
            cases.append(base(algo=algo_, lr=1e-2, space="image" if algo_ == "ucb" else "dict", head=[2], every=1,
                              ops=[["act", None], ["learn"], S_, ["learn"], S_]))
        # round 3b: a raising call caught by the caller, then the same agent keeps deciding; arguments must not be modified
        B1_, B2_, B3_ = ["act_bad", "mask_len"], ["act_bad", "ctx_shape"], ["act_bad", "mask_str"]
        for algo_, space_ in (("ucb", "vector"), ("ts", "vector"), ("ucb", "dict"), ("ts", "image")):
            cases.append(base(algo=algo_, space=space_, every=1, lam=rng.choice([0.5, 2.0]),
                              ops=[B1_, ["act", None], B1_, ["act", [1, 0, 1]], B2_, ["act", None], ["learn"], B3_, ["act", None], ["clone"], B1_,
                                   ["act", None], ["mut", "param", 1], B2_, ["act", None], ["reload", "load"], B1_, ["act", None]]))
        # round 3b: dtypes and shapes of what the caller hands in, extreme but legal magnitudes
        for ctx_, md_, arms_, lam_, gam_ in (("float64", "bool", 3, 2.0, 1.0), ("int64", "float", 4, 0.5, 2.0), ("bounds", "int8", 3, 1.0, 4.0),
                                             ("noncontig", None, 5, 2.0, 0.25), (None, "bool", 1, 1.0, 1.0), ("float64", None, 6, 0.001, 1.0),
                                             ("bounds", "float", 2, 1000.0, 1.0), ("int64", None, 2, 0.01, 4.0)):
            m_ = [1] * arms_
            if arms_ > 1:
                m_[0] = 0
            cases.append(base(algo="ucb" if arms_ % 2 else "ts", arms=arms_, cdim=rng.randint(2, 5), lam=lam_, gamma=gam_, ctx=ctx_, mask_dtype=md_,
                              head=[rng.randint(1, 4)], every=1,
                              ops=[["act", None], ["act", m_], ["act", m_, "same"], ["learn"], ["act", None], ["clone"], ["act", m_],
                                   ["mut", "none", 1], ["act", None], ["act", m_]]))
        # the real training loop (train_bandits) with and without tournament selection + mutation
        nloop = 6 if tier == "quick" else 20
        for i in range(nloop):
            cases.append({"kind": "loop", "algo": "ucb" if i % 2 == 0 else "ts", "arms": rng.randint(2, 4), "cdim": rng.randint(2, 5),
                          "lam": rng.choice([0.5, 1.0, 2.0]), "gamma": 1.0, "enc": [rng.randint(2, 4)], "head": [rng.randint(1, 4)],
                          "partial": False, "seed": rng.randrange(10 ** 6), "hpo": i % 3 != 0, "pop": 2, "twice": i % 2 == 1,
                          "episode": rng.randint(3, 6), "gens": rng.randint(2, 3), "every": 3})
        # numpy delete / insert semantics, exhaustive on small arrays
        for op_ in ("delete", "insert"):
            for n_ in ((1, 2, 3) if tier == "quick" else (1, 2, 3, 4, 5)):
                cases.append({"kind": "numpy", "op": op_, "n": n_, "seed": 0, "algo": "ucb", "lam": 1.0})
        # _reinit_bandit_grads between hand-made layers: all (weights, bias?) -> (weights, bias?) pairs
        wmax = 3 if tier == "quick" else 4
        for wo in range(1, wmax + 1):
            for wn in range(1, wmax + 1):
                for bo in (0, 1):
                    for bn in (0, 1):
                        if bo and bn and tier == "quick" and (wo + wn) % 2:
                            continue
                        cases.append({"kind": "resize", "algo": "ucb" if (wo + wn) % 2 else "ts", "arms": 2, "cdim": 2,
                                      "lam": rng.choice([0.5, 2.0, 4.0]), "gamma": 1.0, "enc": [2], "head": [2], "seed": wo * 10 + wn,
                                      "synthetic": {"old": [wo, bo], "new": [wn, bn]}})
        # unit stream: the index surgery of _reinit_bandit_grads, exact on tagged matrices
        nres = 16 if tier == "quick" else 60
        for i in range(nres):
            h = rng.randint(1, 5)
            how = rng.choice(["add", "remove"]) if h > 1 else "add"
            k = rng.randint(1, 3) if how == "add" else rng.randint(1, h - 1)
            cases.append({"kind": "resize", "algo": rng.choice(["ucb", "ts"]), "arms": 2, "cdim": 2,
                          "lam": rng.choice([0.5, 1.0, 2.0, 4.0]), "gamma": 1.0, "enc": [2], "head": [h],
                          "how": how, "k": k, "seed": i})
        return cases

    # ---------- implementation
    def run_impl(self, case):
        torch.manual_seed(case["seed"])
        np.random.seed(case["seed"] % (2 ** 31))
        with warnings.catch_warnings():
            warnings.simplefilter("ignore")
            if case["kind"] == "loop":
                return self.run_loop(case)
            if case["kind"] == "numpy":
                return self.run_numpy(case)
            return self.run_hist(case) if case["kind"] == "hist" else self.run_resize(case)

    def _resize_actor(self, agent, how, k):
        """mutate the last hidden layer of the head by k nodes (changes the output layer's weight size)"""
        meth = "head_net.add_node" if how == "add" else "head_net.remove_node"
        getattr(agent.actor, meth)(hidden_layer=99, numb_new_nodes=k)

    def run_numpy(self, case):
        import itertools
        n, out = case["n"], []
        base = np.arange(1, n + 1)
        for k in range(0, 4):
            rng_idx = range(n) if case["op"] == "delete" else range(n + 1)
            for idx in itertools.product(rng_idx, repeat=k):
                idx = list(idx)
                if case["op"] == "delete":
                    res = np.delete(base, np.array(idx, dtype=int), 0)
                else:
                    res = np.insert(base, np.array(idx, dtype=int), 0, 0)
                out.append([idx, [int(x) for x in res]])
        return {"results": out}

    def run_resize_synthetic(self, case):
        """_reinit_bandit_grads between hand-made Linear layers with / without bias: exercises the branches 'parameter
        disappears', 'parameter is new' and removal + insertion in one call (never produced by real networks)"""
        (wo, bo), (wn, bn) = case["synthetic"]["old"], case["synthetic"]["new"]
        agent = build_agent(case)
        old = torch.nn.Linear(wo, 1, bias=bool(bo))
        new = torch.nn.Linear(wn, 1, bias=bool(bn))
        n = wo + (1 if bo else 0)
        S = [[float(10 * min(i, j) + max(i, j) + 1) for j in range(n)] for i in range(n)]
        agent.sigma_inv = torch.tensor(S, dtype=torch.float32)
        agent.actor.get_output_dense = lambda: new      # instance attribute: the helper asks the actor for its output layer
        m = make_mutations("none", case["seed"])
        m._reinit_bandit_grads(agent, agent.actor, old)
        M = agent.sigma_inv.detach().cpu().double().numpy()
        return {"old": layer_desc(old), "new": layer_desc(new), "S": S, "M": [[float(x) for x in r] for r in np.atleast_2d(M)],
                "numel": int(agent.numel), "bound": bool(agent.exp_layer is new), "synthetic": True}

    def run_resize(self, case):
        if case.get("synthetic"):
            return self.run_resize_synthetic(case)
        agent = build_agent(case)
        n = int(agent.numel)
        S = [[float(10 * min(i, j) + max(i, j) + 1) for j in range(n)] for i in range(n)]
        agent.sigma_inv = torch.tensor(S, dtype=torch.float32)
        old = live_layer(agent)
        old_desc = layer_desc(old)
        self._resize_actor(agent, case["how"], case["k"])
        m = make_mutations("none", case["seed"])
        m._reinit_bandit_grads(agent, agent.actor, old)
        new_desc = layer_desc(live_layer(agent))
        M = agent.sigma_inv.detach().cpu().double().numpy()
        return {"old": old_desc, "new": new_desc, "S": S, "M": [[float(x) for x in r] for r in M],
                "numel": int(agent.numel), "bound": bool(agent.exp_layer is live_layer(agent))}

    def run_loop(self, case):
        import contextlib
        import io
        cls = ALGOS[case["algo"]]
        rs = np.random.RandomState(case["seed"])
        env = TinyBanditEnv(case["arms"], case["cdim"], rs)
        with LoopRecorder(cls, case["algo"], case.get("every", 3)) as rec:
            pop = []
            for i in range(case["pop"]):
                a = build_agent(case)
                a.index = i
                a.learn_step = 1
                pop.append(a)
            memory = ReplayBuffer(max_size=64)
            tournament = mutation = None
            if case["hpo"]:
                tournament = TournamentSelection(tournament_size=2, elitism=True, population_size=case["pop"], eval_loop=1)
                mutation = Mutations(no_mutation=0.1, architecture=0.3, new_layer_prob=0.3, parameters=0.2, activation=0.2,
                                     rl_hp=0.2, mutation_sd=0.1, rand_seed=case["seed"], device="cpu")
            crash = None
            try:
                with ScriptedNodes(1), contextlib.redirect_stdout(io.StringIO()), contextlib.redirect_stderr(io.StringIO()):
                    for rep in range(2 if case.get("twice") else 1):
                        # (twice: the training function is called again on the population it returned, same buffer / helpers)
                        pop, _ = train_bandits(env, "verif-bandit", case["algo"], pop, memory,
                                               max_steps=case["episode"] * case["gens"] * (rep + 1),
                                               episode_steps=case["episode"], evo_steps=case["episode"], eval_steps=2, eval_loop=1,
                                               tournament=tournament, mutation=mutation, wb=False, verbose=False)
            except Exception as e:
                crash = f"{type(e).__name__}: {e}"[:300]
        agents = []
        alive = {id(a) for a in pop}
        for aid, e in rec.events.items():        # every agent object the loop ever created, in creation order
            if e["init"] is None or not e["ops"]:
                continue
            if aid in alive and e["trace"]:
                e["trace"][-1].update(snap(e["agent"], True))     # final state of a surviving agent is always compared
            d = {k: v for k, v in e.items() if k != "agent"}
            d["survivor"] = aid in alive
            agents.append(d)
        return {"agents": agents, "crash": crash, "created": len(rec.events),
                "survivors_recorded": sum(1 for a in pop if id(a) in rec.events)}

    def run_hist(self, case):
        agent = build_agent(case)
        rs = np.random.RandomState(case["seed"])
        every = case.get("every", 1)
        out = {"init": snap(agent, True), "trace": [], "crash": None, "workarounds": [], "parents": []}
        parents = []      # (agent, sigma copy at cloning time, op index)
        ckpt_dir = vlib.BUILD / ("C19" + vlib.ALT_TAG) / "ckpt"
        ckpt_dir.mkdir(parents=True, exist_ok=True)
        nops = len(case["ops"])
        last_ctx = None
        muts = {}

        def mutations_for(kind, seed):
            # one Mutations object per kind is REUSED for all ops of the history (helper state persisting across calls)
            if not case.get("shared_mut", True):
                return make_mutations(kind, seed)
            if kind not in muts:
                muts[kind] = make_mutations(kind, case["seed"])
            return muts[kind]
        for oi, op in enumerate(case["ops"]):
            rec = {"op": op[0]}
            try:
                if op[0] == "act":
                    if len(op) > 2 and op[2] == "same" and last_ctx is not None:
                        ctx = last_ctx             # the IDENTICAL context matrix as in the previous decision
                        rec["same_ctx"] = True
                    else:
                        ctx = make_ctx(case, rs)
                    last_ctx = ctx
                    mask = None if op[1] is None else np.array(op[1])
                    if mask is not None and case.get("mask_dtype"):
                        mask = mask.astype({"bool": bool, "float": np.float32, "int8": np.int8}[case["mask_dtype"]])
                    ctx_before, mask_before = arg_copy(ctx), arg_copy(mask)
                    G = features(agent, ctx)
                    mu0 = net_out(agent, ctx)
                    S_before = agent.sigma_inv.detach().clone()
                    rec["gamma_used"] = float(agent.gamma)          # the gamma the agent holds when it decides
                    with CaptureBonus() as cap:
                        a = int(agent.get_action(ctx, action_mask=mask))
                    rec["action"] = a
                    rec["args_modified"] = [n for n, x, y in (("obs", ctx_before, ctx), ("action_mask", mask_before, mask))
                                            if not arg_same(x, y)]
                    rec["bonus"] = cap.bonus(case["algo"])
                    rec["values"] = cap.values_list()
                    rec["mask"] = op[1]
                    if case["algo"] == "ucb" and cap.values is not None and len(cap.values) == len(mu0):
                        rec["bonus"] = [(float(x) if np.isfinite(x) else None) for x in (cap.values - mu0)]
                    rec["G"] = [[float(x) for x in row] for row in G]
                    if S_before.shape == (G.shape[1], G.shape[1]):
                        g32 = torch.as_tensor(G)
                        rad = torch.matmul(torch.matmul(g32[:, None, :], S_before), g32[:, :, None])[:, 0, 0]
                        rec["radicand"] = [(float(x) if np.isfinite(x) else None) for x in rad]
                elif op[0] == "act_bad":
                    # a call that must raise, caught by the caller, after which the SAME agent is used again
                    ctx = make_ctx(case, rs)
                    before = agent.sigma_inv.detach().clone()
                    nb = (int(agent.numel), float(agent.lamb))
                    try:
                        how = op[1]
                        if how == "ctx_shape" and case.get("space") == "image":
                            how = "mask_len"           # (a CNN accepts other image sizes / channel counts after preprocessing)
                        if how == "mask_len":          # raises after the per-arm gradients were taken, before the update
                            agent.get_action(ctx, action_mask=np.ones(case["arms"] + 1, dtype=int))
                        elif how == "ctx_shape":       # raises in the forward pass
                            bad = ({k: v[:, :1] for k, v in ctx.items()} if isinstance(ctx, dict)
                                   else ctx[:, :1])     # one feature / one channel instead of the space's
                            agent.get_action(bad)
                        else:                          # a mask that is not an array at all
                            agent.get_action(ctx, action_mask="101")
                        rec["raised"] = None
                    except Exception as e:
                        rec["raised"] = type(e).__name__
                    rec["state_unchanged"] = bool(before.shape == agent.sigma_inv.shape and torch.equal(before, agent.sigma_inv)
                                                  and nb == (int(agent.numel), float(agent.lamb)))
                elif op[0] == "learn":
                    B = 8
                    exp = {"obs": make_ctx(case, rs, rows=B, for_learn=True),
                           "reward": torch.as_tensor(rs.randint(0, 2, size=(B, 1)).astype(np.float32))}
                    exp_before = arg_copy(exp)
                    rec["loss"] = float(agent.learn(exp))
                    rec["args_modified"] = [] if arg_same(exp_before, exp) else ["experiences"]
                elif op[0] == "mut" and op[1] in ("rl_hp_lamb", "rl_hp_gamma"):
                    m = mutations_for("rl_hp", case["seed"] + oi)
                    with ScriptedHP(op[1][len("rl_hp_"):]):
                        agent = m.mutation([agent])[0]
                    rec["mut"] = str(agent.mut)
                elif op[0] == "mut":
                    m = mutations_for(op[1], case["seed"] + oi)
                    with ScriptedNodes(op[2]):
                        agent = m.mutation([agent])[0]
                    rec["mut"] = str(agent.mut)
                elif op[0] == "direct":
                    m = mutations_for("none", case["seed"] + oi)
                    with ScriptedNodes(op[2]):
                        if op[1] == "param":
                            agent = m.parameter_mutation(agent)
                        elif op[1] == "act":
                            agent = m.activation_mutation(agent)
                        else:
                            agent = m.architecture_mutate(agent)
                    rec["mut"] = str(agent.mut)
                elif op[0] == "archm":
                    if op[1] not in agent.actor.mutation_methods:
                        rec["skipped"] = True          # this encoder kind has no such method
                    else:
                        m = mutations_for("none", case["seed"] + oi)
                        with ScriptedNodes(op[2]), ScriptedArchMethod(op[1]):
                            agent = m.architecture_mutate(agent)
                        rec["mut"] = str(agent.mut)
                elif op[0] == "resize":
                    old = live_layer(agent)
                    rec["old"] = layer_desc(old)
                    how = op[1]
                    h = int(old.weight.shape[1])
                    if how == "remove" and h - op[2] < 2:
                        how = "add"
                    if how == "add" and h + op[2] > NMAX - 1:
                        how = "remove"
                    rec["how"] = how
                    self._resize_actor(agent, how, op[2])
                    m = mutations_for("none", case["seed"] + oi)
                    m._reinit_bandit_grads(agent, agent.actor, old)
                    m.reinit_opt(agent)        # as architecture_mutate does after the resize
                elif op[0] == "clone":
                    parent = agent
                    agent = parent.clone()
                    parents.append((parent, parent.sigma_inv.detach().clone(), oi))
                    rec["alias"] = bool(agent.sigma_inv.data_ptr() == parent.sigma_inv.data_ptr())
                elif op[0] == "reload":
                    path = str(ckpt_dir / f"c19_{os.getpid()}.pt")
                    before = agent.sigma_inv.detach().clone()
                    agent.save_checkpoint(path)
                    if op[1] == "load":
                        agent = type(agent).load(path)
                    else:
                        fresh = build_agent(case)
                        fresh.load_checkpoint(path)
                        agent = fresh
                    os.remove(path)
                    rec["same_value"] = bool(before.shape == agent.sigma_inv.shape and torch.equal(before, agent.sigma_inv))
            except Exception as e:   # the implementation broke on a legal history: recorded, judged by the oracle
                out["crash"] = {"op_index": oi, "op": op, "error": f"{type(e).__name__}: {e}"[:300]}
                break
            observed = (op[0] != "act") or (oi % every == 0) or (oi == nops - 1) or \
                       (oi + 1 < nops and case["ops"][oi + 1][0] != "act")
            rec.update(snap(agent, observed))
            out["trace"].append(rec)
            if not rec["bound"]:
                # the history can only continue if exp_layer refers to the live layer: re-bind (flagged as a violation)
                out["workarounds"].append(oi)
                agent.exp_layer = live_layer(agent)
        for parent, sig0, oi in parents:
            same = parent.sigma_inv.shape == sig0.shape and bool(
                ((parent.sigma_inv == sig0) | (torch.isnan(parent.sigma_inv) & torch.isnan(sig0))).all())
            out["parents"].append({"op_index": oi, "unchanged": same})
        return out

    # ---------- model term
    @staticmethod
    def q_layer(desc):
        return "[" + "; ".join(f"({k}, {n})" for k, n in desc) + "]"

    @staticmethod
    def q_mat(M):
        return "[" + "; ".join("[" + "; ".join(coq_Q(x) for x in row) + "]" for row in M) + "]"

    def q_obs(self, rec, arms=None, gamma=1.0):
        sig = "None" if rec["sigma"] is None else f"(Some {self.q_mat(rec['sigma'])})"
        shape = rec["shape"] if len(rec["shape"]) == 2 else [4999, 4999]
        g, b = "[]", "[]"
        if arms and rec["sigma"] is not None:
            g = self.q_mat(arms)
            bonus = rec.get("bonus")
            if bonus is not None and len(bonus) == len(arms) and all(x is not None for x in bonus):
                b = "[" + "; ".join(coq_Q(x / gamma) for x in bonus) + "]"
        ch = "None"
        vals = rec.get("values")
        if rec.get("op") == "act" and vals is not None and "action" in rec:
            mask = rec.get("mask")
            legal = [True] * len(vals) if mask is None else [bool(x) for x in mask]
            ch = ("(Some ([" + "; ".join(coq_Q(x) for x in vals) + "], [" + "; ".join(vlib.coq_bool(x) for x in legal)
                  + f"], {int(rec['action'])}))")
        return (f"{{| o_numel := {rec['numel']}; o_bound := {vlib.coq_bool(rec['bound'])}; o_rows := {shape[0]}; "
                f"o_cols := {shape[1]}; o_sigma := {sig}; o_arms := {g}; o_bonus := {b}; o_choice := {ch} |}}")

    def coq_term(self, case, obs):
        if case["kind"] == "loop":
            ts = [self.coq_term(dict(case, kind="hist", ops=o["ops"]), o) for o in obs["agents"]]
            t = "true"
            for x in ts:
                t = f"andb ({x}) ({t})"
            return t
        if case["kind"] == "numpy":
            cs = "; ".join("([" + "; ".join(map(str, i)) + "], [" + "; ".join(map(str, r)) + "])" for i, r in obs["results"])
            return f"check_np_{case['op']} {case['n']} [{cs}]"
        if case["kind"] == "resize":
            dval = 1.0 / case["lam"]
            # which variant of the diagonal fill does this tree exhibit? (judged by the oracle, not by K)
            nc = [i for i in new_coords(obs["old"], obs["new"]) if i < len(obs["M"])]
            same_keys = {k for k, _ in obs["old"]} == {k for k, _ in obs["new"]}
            shifted = all(obs["M"][i][i] != 0 for i in nc) if same_keys else True
            return (f"check_resize {vlib.coq_bool(shifted)} {self.q_layer(obs['old'])} {self.q_layer(obs['new'])} {coq_Q(dval)} "
                    f"{self.q_mat(obs['S'])} {self.q_mat(obs['M'])}")
        ops, obl = [], []
        if any(x is None for rec in [obs["init"]] + obs["trace"] if rec["sigma"] for row in rec["sigma"] for x in row) or \
           any(not np.isfinite(x) for rec in obs["trace"] for row in rec.get("G", []) for x in row):
            return "false"      # NaN / inf in sigma_inv or in a feature: no rational model value can agree
        lam_cur, prev = float(case["lam"]), obs["init"]
        for op, rec in zip(case["ops"], obs["trace"]):
            g_before = float(prev.get("gamma", case["gamma"]))      # the gamma the agent held when this op started
            lam_new = float(rec.get("lamb", lam_cur))
            if lam_new != lam_cur:
                # agent.lamb changed during this op (an RL-hyperparameter mutation drew `lamb`): a SetLam step of the model,
                # observed through what cannot have changed yet (sizes, binding of the previous observation)
                ops.append(f"SetLam {coq_Q(lam_new)}")
                obl.append(self.q_obs(dict(prev, sigma=None, op="setlam")))
                lam_cur = lam_new
            prev = rec
            if rec["numel"] > NMAX or max(rec["shape"]) > 64:
                # too large for exact arithmetic in Coq: compare sizes up to here only (oracle covers the rest)
                if op_kind(op, rec, lam_cur) == "hook":
                    ops.append(f"MutHook {self.q_layer(rec['live'])}")
                    obl.append(self.q_obs(dict(rec, sigma=None)))
                break
            kind = op_kind(op, rec, lam_cur)
            if op[0] == "act":
                a = rec["action"]
                if not (0 <= a < len(rec["G"])):
                    break
                ops.append("Act [" + "; ".join(coq_Q(x) for x in rec["G"][a]) + "]")
                obl.append(self.q_obs(rec, rec["G"], float(rec.get("gamma_used", g_before))))
                continue
            if kind == "learn":
                ops.append("Learn")
            elif kind == "hook":
                ops.append(f"MutHook {self.q_layer(rec['live'])}")
            elif kind == "direct":
                ops.append(f"MutDirect {self.q_layer(rec['live'])}")
            elif op[0] == "resize":
                ops.append(f"Resize {self.q_layer(rec['live'])}")
            elif op[0] == "clone":
                ops.append("Clone")
            elif op[0] == "reload":
                ops.append("Reload")
            obl.append(self.q_obs(rec))
            if not rec["bound"]:
                # the harness re-bound exp_layer itself so that the history could go on (run_hist, "workarounds"):
                # that assignment is exactly what MutDirect models
                ops.append(f"MutDirect {self.q_layer(rec['live'])}")
                obl.append(self.q_obs(dict(rec, bound=True, sigma=None)))
        i0 = obs["init"]
        # which variant of the checkpoint reload does this tree exhibit? (judged by the oracle, not by K)
        rr = all(rec["bound"] for op, rec in zip(case["ops"], obs["trace"]) if op[0] == "reload")
        return (f"check_hist {vlib.coq_bool(rr)} {coq_Q(case['lam'])} {coq_Q(TOL)} {self.q_layer(i0['live'])} {self.q_obs(i0)} "
                f"[{'; '.join(ops)}] [{'; '.join(obl)}]")

    # ---------- oracle: the property stated directly on the implementation's behaviour
    def oracle(self, case, obs):
        algo = case["algo"]
        lam = float(case["lam"])
        out = []

        def V(clause, detail, site=""):
            out.append(Violation(clause, f"{algo}:{clause}{(':' + site) if site else ''}", detail))

        if case["kind"] == "loop":
            for i, o in enumerate(obs["agents"]):
                for v in self.oracle(dict(case, kind="hist", ops=o["ops"]), o):
                    v.signature += ":train_bandits"
                    v.detail = f"train_bandits, surviving agent {i}: " + v.detail
                    out.append(v)
            if obs["crash"] and not out:
                V("crash", f"train_bandits raised {obs['crash']}", "train_bandits")
            if obs.get("survivors_recorded", 1) == 0 and not obs["crash"]:
                V("crash", "train_bandits returned agents the recorder never saw", "train_bandits-unrecorded")
            return out
        if case["kind"] == "numpy":
            return out
        if case["kind"] == "resize":
            n_new = sum(n for _, n in obs["new"])
            M = np.array(obs["M"])
            if M.shape != (n_new, n_new) or obs["numel"] != n_new:
                V("size", f"after _reinit_bandit_grads sigma_inv has shape {M.shape}, numel={obs['numel']}, output layer has {n_new} parameters", "resize")
                return out
            if not np.array_equal(M, M.T):
                V("symmetric", "resized matrix is not symmetric", "resize")
            n_old = sum(n for _, n in obs["old"])
            newidx = new_coords(obs["old"], obs["new"])
            same_keys = {k for k, _ in obs["old"]} == {k for k, _ in obs["new"]}
            if newidx and same_keys:
                # the coordinates that did not exist before carry the initial value 1/lambda on the diagonal
                diag = [M[i, i] for i in newidx]
                if any(abs(d - 1.0 / lam) > 1e-6 for d in diag):
                    V("resize-new-diagonal",
                      f"output layer {obs['old']} -> {obs['new']} (lambda={lam}): diagonal entries of the new coordinates {newidx} are {diag}, "
                      f"expected {1.0 / lam} each (a zero diagonal entry makes the confidence matrix singular)",
                      "wrong-value" if all(d != 0 for d in diag) else "missing")
            # hand-made layers whose parameter SET changes (no network of the library builds them — extra_static fails closed
            # if that ever stops being true) are outside the property: compared with the model by K only
            return out

        def check_size(rec, where):
            n_live = sum(n for _, n in rec["live"])
            if rec["shape"] != [n_live, n_live] or rec["numel"] != n_live:
                V("size", f"{where}: sigma_inv.shape={rec['shape']}, numel={rec['numel']}, but the output layer has {n_live} trainable parameters", where.split()[0])
                return False
            return True

        def check_matrix(rec, A, where, fresh):
            """sigma (if recorded) against the float64 Gram matrix A (None = unknown after a resize)"""
            if rec["sigma"] is None:
                return
            if any(x is None for row in rec["sigma"] for x in row):
                V("finite", f"{where}: sigma_inv contains NaN / inf entries")
                return
            S = np.array(rec["sigma"], dtype=np.float64)
            lam = L[0]
            scale = 1.0 / lam
            if np.max(np.abs(S - S.T)) > 1e-4 * scale:
                V("symmetric", f"{where}: max |S - S^T| = {np.max(np.abs(S - S.T)):.3g}")
            ev = np.linalg.eigvalsh((S + S.T) / 2)
            if ev.min() <= 0:
                V("posdef", f"{where}: smallest eigenvalue of sigma_inv = {ev.min():.6g}")
            if A is not None and len(A) != len(S):
                V("inverse", f"{where}: sigma_inv is {len(S)}x{len(S)} but the matrix initialised last and updated since is "
                  f"{len(A)}x{len(A)}: it was replaced without an initialisation", "replaced")
            elif A is not None:
                err = float(np.max(np.abs(S - np.linalg.inv(A)))) * lam      # entries of the inverse are bounded by 1/lambda
                self._max_err = max(getattr(self, "_max_err", 0.0), float(err))
                if err > OTOL:
                    V("inverse", f"{where}: lambda * max |sigma_inv - inv(lambda I + sum g g^T)| = {err:.4g} (lambda={lam}, "
                      f"{'freshly initialised' if fresh else 'after updates'}; sigma_inv[0][0]={S[0, 0]:.6g}"
                      + ("; agent.lamb was changed by an RL-hyperparameter mutation and the matrix was not re-initialised since" if L[1] else "") + ")",
                      "lambda-changed" if L[1] else ("init" if fresh else "update"))

        init = obs["init"]
        ok = check_size(init, "construction")
        if not init["bound"]:
            V("exp-layer-stale", "after construction exp_layer is not the network's output layer", "construction")
        n = init["shape"][0]
        L = [float(init.get("lamb", lam)), False]    # the agent's current lambda; was it changed without an initialisation since?
        G = np.zeros((n, n))                          # sum of g g^T since the last initialisation (None: unknown after a resize)

        def Acur():
            return None if G is None else L[0] * np.eye(len(G)) + G
        if ok:
            check_matrix(init, Acur(), "construction", True)
        updates = 0
        for oi, (op, rec) in enumerate(zip(case["ops"], obs["trace"])):
            where = f"{op[0]} (op {oi})"
            lam_new = float(rec.get("lamb", L[0]))
            if lam_new != L[0]:
                L[0], L[1] = lam_new, True
            lam = L[0]
            gam = float((obs["trace"][oi - 1] if oi > 0 else init).get("gamma", case["gamma"]))   # gamma when this op started
            if any(v.clause != "exp-layer-stale" for v in out):
                break
            if not check_size(rec, where):
                break
            if not rec["bound"]:
                V("exp-layer-stale",
                  f"{where}: agent.exp_layer is not actor.get_output_dense() (a stale copy): get_action would read "
                  "gradients of a layer that is not part of the network", op[1] if op[0] == "reload" else op[0])
            if rec.get("args_modified"):
                V("args-modified", f"{where}: the call changed its caller's argument(s) {rec['args_modified']} in place", op[0])
            if op[0] == "act_bad" and not rec.get("state_unchanged", True):
                V("failed-call-changed-state", f"{where}: get_action raised {rec.get('raised')} ({op[1]}) but sigma_inv / numel / lamb were "
                  "changed by the failed call; the agent is used again afterwards", op[1])
            if op[0] == "act":
                a = rec["action"]
                if op[1] is not None and not (0 <= a < len(op[1]) and op[1][a] == 1):
                    V("mask", f"{where}: chosen arm {a} is masked out by {op[1]}")
                if "radicand" in rec:
                    bad = [r for r in rec["radicand"] if r is None or not (r >= -1e-6 / lam)]
                    if bad:
                        V("bonus", f"{where}: radicand g S g^T of the exploration bonus is negative / NaN: {rec['radicand']}")
                if rec.get("bonus") is not None and "radicand" in rec and len(rec["bonus"]) == len(rec["radicand"]):
                    for k, (b, r) in enumerate(zip(rec["bonus"], rec["radicand"])):
                        want = float(rec.get("gamma_used", gam)) * np.sqrt(max(r, 0.0)) if r is not None else None
                        if b is None or b < -1e-5 or (want is not None and abs(b - want) > 1e-3 * (1 + want)):
                            V("bonus", f"{where}: exploration bonus of arm {k} is {b}, expected gamma*sqrt(g S g^T) = {want} >= 0")
                            break
                g = np.array(rec["G"][a], dtype=np.float64) if 0 <= a < len(rec["G"]) else None
                if G is not None and g is not None and len(g) == len(G):
                    G = G + np.outer(g, g)
                updates += 1
                check_matrix(rec, Acur(), where, False)
            elif op_kind(op, rec, lam) == "hook":
                # the registered hook re-initialised the matrix (with the agent's current lambda)
                G = np.zeros((rec["shape"][0], rec["shape"][0]))
                L[1] = False
                check_matrix(rec, Acur(), where, True)
            elif op[0] == "resize":
                G = None
                check_matrix(rec, None, where, False)
                w_old = dict(map(tuple, rec["old"])).get(0, 0)
                w_new = dict(map(tuple, rec["live"])).get(0, 0)
                if rec["sigma"] is not None and w_new > w_old:
                    diag = [rec["sigma"][i][i] for i in range(w_old, w_new)]
                    if all(d is not None for d in diag) and any(abs(d - 1.0 / lam) > 1e-6 / lam for d in diag):
                        V("resize-new-diagonal", f"{where}: output layer grown from {w_old} to {w_new} weights (lambda={lam}): "
                          f"new diagonal entries {diag}, expected {1.0 / lam}",
                          "wrong-value" if all(d != 0 for d in diag) else "missing")
            else:
                check_matrix(rec, Acur(), where, False)
                if op[0] == "clone" and rec.get("alias"):
                    V("clone-alias", f"{where}: the clone's sigma_inv shares storage with the parent's")
                if op[0] == "reload" and not rec.get("same_value", True):
                    V("reload-value", f"{where}: sigma_inv differs after the checkpoint round-trip", op[1])
        for p in obs["parents"]:
            if not p["unchanged"]:
                V("clone-alias", f"parent's sigma_inv changed after its clone (made at op {p['op_index']}) took decisions")
        if obs["crash"] is not None and not any(v.clause != "exp-layer-stale" for v in out):
            c = obs["crash"]
            V("crash", f"op {c['op_index']} {c['op']} raised {c['error']}", c["op"][0])
        return out

    # ---------- source-tied checks
    def extra_static(self):
        """The theorems about _reinit_bandit_grads (resize_linear_size, resize_grow_spec, ...) cover output layers that are
        nn.Linear(w, 1) with a trainable weight and bias. Check on every run that this is what get_output_dense() is, for every
        encoder kind the harness builds."""
        out = []
        for kind in ("vector", "image", "dict", "simba", "custom", "default"):
            case = {"algo": "ucb", "arms": 2, "cdim": 3, "lam": 1.0, "gamma": 1.0, "enc": [3], "head": [2], "space": kind}
            lay = live_layer(build_agent(case))
            names = [n for n, p in lay.named_parameters() if p.requires_grad]
            if not (isinstance(lay, torch.nn.Linear) and lay.out_features == 1 and names == ["weight", "bias"]):
                out.append(Violation("static", f"static:output-layer-not-linear-with-bias:{kind}",
                                     f"get_output_dense() of a {kind} network is {lay} with trainable parameters {names}: outside the "
                                     "layer shape covered by the resize theorems", None, None, found_input=False))
        return out

    def teardown(self):
        if getattr(self, "_max_err", None) is not None:
            self.notes = [f"largest float32 deviation observed in this run: lambda * max |sigma_inv - inv(lambda I + sum g g^T)| = {self._max_err:.3g} "
                          f"(oracle tolerance {OTOL}, K tolerance {TOL}/lambda entrywise)"]

    # ---------- evidence helpers
    def key(self, case):
        return super().key(case)

    def nontrivial(self, case, obs):
        if case["kind"] in ("resize", "numpy"):
            return True
        if case["kind"] == "loop":
            return any(sum(1 for r in o["trace"] if r["op"] == "act") >= 3 for o in obs["agents"])
        return sum(1 for r in obs["trace"] if r["op"] == "act") >= 3

    def classify(self, case, obs):
        labs = [f"kind={case['kind']}", f"algo={case['algo']}", f"lam={case['lam']}"]
        if case["kind"] == "numpy":
            return [f"numpy={case['op']}:n={case['n']}", f"numpy-index-lists={len(obs['results'])}"]
        if case["kind"] == "resize" and case.get("synthetic"):
            (wo, bo), (wn, bn) = case["synthetic"]["old"], case["synthetic"]["new"]
            labs += ["resize=synthetic", "synthetic-bias=" + ("kept" if bo and bn else "dropped" if bo else "added" if bn else "none"),
                     "synthetic-weight=" + ("grow" if wn > wo else "shrink" if wn < wo else "same")]
            return labs
        if case["kind"] == "resize":
            labs.append(f"resize={case['how']}{case['k']}")
            return labs
        if case["kind"] == "loop":
            labs.append("loop=" + ("hpo" if case["hpo"] else "plain"))
            for o in obs["agents"]:
                for op in o["ops"]:
                    labs.append("loop-op=" + op[0])
            return labs
        labs.append(f"numel0={obs['init']['numel']}")
        labs.append(f"space={case.get('space', 'vector')}")
        lam_prev, learns_since = obs["init"].get("lamb"), None
        for op, rec in zip(case["ops"], obs["trace"]):
            if rec.get("lamb") != lam_prev:
                labs.append("lambda-changed-by=" + op[0] + ":" + str(op[1] if len(op) > 1 else ""))
                lam_prev = rec.get("lamb")
            if op[0] == "act":
                if rec.get("same_ctx"):
                    labs.append("same-context-after-learns=" + str(min(learns_since or 0, 3)))
                learns_since = 0
            elif op[0] == "learn" and learns_since is not None:
                learns_since += 1
        for op, rec in zip(case["ops"], obs["trace"]):
            if op[0] in ("mut", "archm", "direct"):
                labs.append("mutation-effect=" + op_kind(op, rec, case["lam"]) + ("-resized" if rec.get("mut") and False else ""))
                if rec.get("skipped"):
                    labs.append("archm-skipped=" + op[1])
        nact = 0
        for op, rec in zip(case["ops"], obs["trace"]):
            labs.append("op=" + op[0] + (":" + str(op[1]) if op[0] in ("mut", "direct", "reload", "archm") else "")
                        + (":masked" if op[0] == "act" and op[1] is not None else ""))
            nact += op[0] == "act"
            if rec["numel"] > NMAX:
                labs.append("branch=too-large-for-exact-K")
        labs.append("updates=" + ("0-2" if nact < 3 else "3-9" if nact < 10 else "10+"))
        dims = {r["numel"] for r in obs["trace"]} | {obs["init"]["numel"]}
        if len(dims) > 1:
            labs.append("branch=output-layer-size-changed")
        if obs["crash"]:
            labs.append("crash")
        return labs

    def neighbours(self, case, rng):
        if case["kind"] != "hist":
            return
        idx = list(range(len(case["ops"])))
        rng.shuffle(idx)
        for i in idx[:5]:          # a handful of one-op-dropped neighbours (each costs a real run)
            c = dict(case)
            c["ops"] = case["ops"][:i] + case["ops"][i + 1:]
            if c["ops"]:
                yield c


if __name__ == "__main__":
    sys.exit(vlib.run_check(C19()))
