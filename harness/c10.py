"""C10 — n-step returns never cross an episode boundary and stay aligned with 1-step data."""
from __future__ import annotations

import itertools
import sys
from fractions import Fraction

import numpy as np
import torch

import vlib
from vlib import Violation, coq_Q

from agilerl.components.data import Transition
from agilerl.components.replay_buffer import MultiStepReplayBuffer, ReplayBuffer

BAD = 4999          # decoded tag of an internally inconsistent row
ACT, NXT = 1000, 2000
TOL = Fraction(1, 2 ** 13)       # absolute tolerance for gamma = 0.99 (float32 accumulation), evaluated in Q
GAMMAS = {"0": 0.0, "1/2": 0.5, "1": 1.0, "0.99": 0.99}


def tag(t, e, E):
    return t * E + e + 1


def untag(x, E):
    return (x - 1) // E, (x - 1) % E


# ------------------------------------------------------------------ tagged raw transitions
def make_transition(t, step, E, style):
    """raw transition of stream position t exactly as train_off_policy builds it.
    step = [[reward, done] per env]"""
    ids = np.array([tag(t, e, E) for e in range(E)], dtype=np.float32)
    obs = np.stack([ids, ids + 0.5], axis=1)
    nxt = np.stack([ids + NXT, ids + NXT + 0.5], axis=1)
    act = (ids + ACT).astype(np.int64)
    rew = np.array([s[0] for s in step], dtype=np.float64)
    done = np.array([bool(s[1]) for s in step])
    if style == "single":          # is_vectorised = False: scalars, then unsqueeze(0)
        assert E == 1
        tr = Transition(obs=obs[0], action=act[0], reward=float(rew[0]), next_obs=nxt[0], done=bool(done[0]))
        tr = tr.unsqueeze(0)
    else:
        tr = Transition(obs=obs, action=act, reward=rew, next_obs=nxt, done=done)
    td = tr.to_tensordict()
    td.batch_size = [E]
    return td


def dec_obs(x, base):
    """rows [tag+base, tag+base+.5] -> tag (0 for an all-zero row, BAD if inconsistent)"""
    x = np.asarray(x, dtype=np.float64).reshape(len(x), -1)
    out = []
    for r in x:
        if not np.any(r):
            out.append(0)
        elif r.shape[0] == 2 and r[1] == r[0] + 0.5 and float(r[0]).is_integer() and base < r[0] < base + 1000:
            out.append(int(r[0]) - base)
        else:
            out.append(BAD)
    return out


def dec_scalar(x, base):
    x = np.asarray(x, dtype=np.float64).reshape(len(x), -1)
    out = []
    for r in x:
        if r.shape[0] != 1:
            out.append(BAD)
        elif r[0] == 0:
            out.append(0)
        elif float(r[0]).is_integer() and base < r[0] < base + 1000:
            out.append(int(r[0]) - base)
        else:
            out.append(BAD)
    return out


def decode_rows(td):
    """TensorDict with leading dim m -> list of rows [ob, ac, reward(float, exact), nx, done] or None (never written)"""
    m = td.shape[0]
    ob = dec_obs(td["obs"], 0)
    nx = dec_obs(td["next_obs"], NXT)
    ac = dec_scalar(td["action"], ACT)
    rw = np.asarray(td["reward"], dtype=np.float64).reshape(m, -1)
    dn = np.asarray(td["done"], dtype=np.float64).reshape(m, -1)
    rows = []
    for i in range(m):
        r = float(rw[i, 0]) if rw.shape[1] == 1 else float("nan")
        d = float(dn[i, 0]) if dn.shape[1] == 1 else 2.0
        if ob[i] == 0 and ac[i] == 0 and nx[i] == 0 and r == 0.0 and d == 0.0:
            rows.append(None)
        else:
            rows.append([ob[i], ac[i], r, nx[i], d])
    return rows


def cq_cell(row):
    ob, ac, r, nx, d = row
    if r != r or d not in (0.0, 1.0):      # malformed: can never equal a model cell
        return f"(C {BAD} {BAD} 0 {BAD} false)"
    return f"(C {ob} {ac} {coq_Q(r)} {nx} {'true' if d == 1.0 else 'false'})"


def cq_rows(rows):
    if rows is None:
        return "None"
    return "(Some [" + "; ".join("None" if r is None else f"Some {cq_cell(r)}" for r in rows) + "])"


# ------------------------------------------------------------------ the driver
class C10(vlib.Driver):
    pid = "C10"
    coq_dirs = ("C09",)
    preamble = ("From Coq Require Import QArith.\n"
                "From AgileV Require Import Base.Prelude C09.Model C10.Model C10.Check.\nOpen Scope nat_scope.")
    rule = ("streams of raw (vectorised) transitions with tagged observation/action/next-observation, dyadic rewards and "
            "done flags fed to a real MultiStepReplayBuffer paired with a real ReplayBuffer exactly as train_off_policy does; "
            "one environment: every placement of done flags, exhaustively, up to the stated length; 1-3 environments: seeded. "
            "Distinct = distinct (n, gamma, capacity, envs, reward/done stream). Non-trivial = at least one done flag inside a "
            "stored window of length >= 2, or a wrap-around of the buffers.")
    trusted_base = ["hand-written model coq/theories/C10/Model.v on top of the C09 ring-buffer model",
                    "correspondence harness harness/c10.py (tag encoding/decoding of transitions, exact float->Q conversion)"]
    assumptions = ["TensorDict clone / slice assignment semantics (validated by K only)",
                   "float32 accumulation is exact for the dyadic streams (re-checked with Fractions by the oracle); "
                   "gamma = 0.99 is compared with absolute tolerance 2^-13 evaluated in Q",
                   "num_envs <= capacity and n >= 1 (guards of the theorems)",
                   "one n-step deque shared across agents / env.reset() in the training loop is outside the property"]
    shard = 120

    # ---------- generation
    def generate(self, tier, rng):
        cases = []
        self.exhaustive = True
        maxlen = 6 if tier == "quick" else 8
        ns = [1, 2, 3, 4] if tier == "quick" else [1, 2, 3, 4, 5]
        # one environment, every placement of done flags
        for L in range(1, maxlen + 1):
            for n in ns:
                if n > L:
                    continue
                for gi, g in enumerate(["0", "1/2", "1", "0.99"]):
                    if tier == "quick" and g in ("0", "0.99") and L > 5:
                        continue
                    for dones in itertools.product([0, 1], repeat=L):
                        cap = 2 + (sum(dones) + L + n + gi) % 3          # 2..4: both buffers wrap on most streams
                        stream = [[[float(1 + (t % 4)) if g != "0.99" else float(1 + (t % 4)) / 2, d]] for t, d in enumerate(dones)]
                        cases.append({"kind": "direct", "n": n, "gamma": g, "cap": cap, "E": 1,
                                      "style": "single" if (L + n) % 2 else "vector", "stream": stream, "every": 1})
        if tier == "thorough":      # the full length-8 sweep of the design for n = 3, gamma = 1/2 is part of the above
            pass
        # vectorised, seeded
        nseed = 150 if tier == "quick" else 1500
        for i in range(nseed):
            E = rng.choice([1, 2, 2, 3, 3])
            n = rng.choice([1, 2, 3, 3, 4, 5])
            cap = rng.randint(max(2, E), 8)
            L = rng.randint(n, 12) if tier == "quick" else rng.randint(n, 24)
            g = rng.choice(["0", "1/2", "1/2", "1", "0.99"])
            p = rng.choice([0.1, 0.25, 0.5])
            stream = [[[rng.randint(-16, 16) / 4.0, 1 if rng.random() < p else 0] for _ in range(E)] for _ in range(L)]
            cases.append({"kind": "direct", "n": n, "gamma": g, "cap": cap, "E": E, "style": "vector",
                          "stream": stream, "every": 1 if L <= 12 else 3})
        return cases

    # ---------- implementation
    def run_impl(self, case):
        n, cap, E = case["n"], case["cap"], case["E"]
        nbuf = MultiStepReplayBuffer(max_size=cap, n_step=n, gamma=GAMMAS[case["gamma"]])
        mem = ReplayBuffer(max_size=cap)
        every = case.get("every", 1)
        trace = []
        L = len(case["stream"])
        for t, step in enumerate(case["stream"]):
            td = make_transition(t, step, E, case["style"])
            # --- the pairing of train_off_policy
            one = nbuf.add(td)
            if one is not None:
                mem.add(one)
            # ---
            rec = {"ret": decode_rows(one) if one is not None else None, "nlen": len(nbuf), "mlen": len(mem)}
            if t % every == 0 or t == L - 1:
                rec["nrows"] = decode_rows(nbuf.storage) if nbuf.storage is not None else [None] * cap
                rec["mrows"] = decode_rows(mem.storage) if mem.storage is not None else [None] * cap
            else:
                rec["nrows"] = rec["mrows"] = None
            trace.append(rec)
        # sample_from_indices returns the stored rows at the given indices (same indices for both buffers)
        smp = None
        if len(mem) >= 1 and len(nbuf) == len(mem):
            idx = torch.tensor(list(range(len(mem)))[::-1])
            smp = {"idx": idx.tolist(), "n": decode_rows(nbuf.sample_from_indices(idx)), "m": decode_rows(mem.storage[idx])}
        return {"trace": trace, "sample": smp}

    # ---------- model term
    def coq_term(self, case, obs):
        E = case["E"]
        xs = []
        for t, step in enumerate(case["stream"]):
            cells = [f"(C {tag(t, e, E)} {tag(t, e, E)} {coq_Q(float(s[0]))} {tag(t, e, E)} {'true' if s[1] else 'false'})"
                     for e, s in enumerate(step)]
            xs.append("[" + "; ".join(cells) + "]")
        ol = []
        for rec in obs["trace"]:
            ret = "None" if rec["ret"] is None else \
                "(Some [" + "; ".join(cq_cell(r) if r is not None else f"(C {BAD} 0 0 0 false)" for r in rec["ret"]) + "])"
            ol.append(f"(O {ret} {rec['nlen']} {rec['mlen']} {cq_rows(rec['nrows'])} {cq_rows(rec['mrows'])})")
        tol = coq_Q(TOL) if case["gamma"] == "0.99" else "0%Q"
        return (f"check_run {case['n']} {case['cap']} {coq_Q(GAMMAS[case['gamma']])} {tol} "
                f"[{'; '.join(xs)}] [{'; '.join(ol)}]")

    # ---------- oracle: the property stated directly on the implementation's behaviour
    def oracle(self, case, obs):
        n, cap, E = case["n"], case["cap"], case["E"]
        stream = case["stream"]
        g = Fraction(GAMMAS[case["gamma"]])
        exact = case["gamma"] != "0.99"
        site = f"n={'1' if n == 1 else '>1'}:envs={'1' if E == 1 else '>1'}"
        done = lambda t, e: bool(stream[t][e][1])
        rew = lambda t, e: Fraction(float(stream[t][e][0]))

        def close(a, b):
            return a == b if exact else abs(a - b) <= TOL

        def check_row(row, where, now):
            """row of the n-step buffer; now = number of raw transitions seen so far"""
            ob, ac, r, nx, d = row
            if ob in (0, BAD) or ob > now * E:
                return Violation("start", f"nstep:start:{site}", f"{where}: observation tag {ob} is not an observed one")
            k, e = untag(ob, E)
            if ac != ob:
                return Violation("start", f"nstep:start:{site}", f"{where}: obs of (step {k}, env {e}) stored with action tag {ac}")
            if nx in (0, BAD) or nx > now * E or untag(nx, E)[1] != e:
                return Violation("next", f"nstep:next-obs:{site}", f"{where}: window {k} env {e}: next_obs tag {nx} is not a next observation of env {e}")
            last = untag(nx, E)[0]
            m = last - k + 1
            if not (1 <= m <= n):
                return Violation("next", f"nstep:next-obs:{site}", f"{where}: window {k} env {e}: next_obs taken from step {last} (n={n})")
            # nothing after a terminal step of this environment may be mixed in
            for j in range(k, k + m - 1):
                if done(j, e):
                    return Violation("leak", f"nstep:leak:{'first' if j == k else 'inner'}-terminal:{site}",
                                     f"{where}: window {k} env {e} (n={n}) runs to step {last} although env {e} terminated at step {j}")
            if m < n and not any(done(last, e2) for e2 in range(E)):
                return Violation("cut", f"nstep:cut-short:{site}",
                                 f"{where}: window {k} env {e} stops after {m} < n={n} steps although no environment ended at step {last}")
            want = sum((g ** i) * rew(k + i, e) for i in range(m))
            if not close(Fraction(r), want):
                # which weights would explain it? (only to make the signature specific)
                return Violation("reward", f"nstep:reward:{site}",
                                 f"{where}: window {k} env {e}: n-step reward {r} but sum_(i<{m}) gamma^i r = {float(want)} "
                                 f"(rewards {[float(rew(k + i, e)) for i in range(m)]}, gamma={case['gamma']})")
            if bool(d) != done(last, e) or d not in (0.0, 1.0):
                return Violation("done", f"nstep:done:{site}", f"{where}: window {k} env {e}: done={d} but step {last} has done={done(last, e)}")
            return None

        for t, rec in enumerate(obs["trace"]):
            now = t + 1
            cnt = max(0, now + 1 - n)                      # windows completed so far
            # returned 1-step transition
            if (rec["ret"] is None) != (now < n):
                return [Violation("returned", f"nstep:returned:{site}", f"step {t}: add returned {'None' if rec['ret'] is None else 'a transition'} with {now} transitions seen, n={n}")]
            if rec["ret"] is not None:
                k = now - n
                want = [[tag(k, e, E), tag(k, e, E), float(stream[k][e][0]), tag(k, e, E), 1.0 if done(k, e) else 0.0] for e in range(E)]
                if rec["ret"] != want:
                    return [Violation("returned", f"nstep:returned:{site}", f"step {t}: add returned {rec['ret']}, the raw transition {k} is {want}")]
            want_len = min(cap, cnt * E)
            if rec["nlen"] != want_len or rec["mlen"] != want_len:
                return [Violation("len", f"nstep:len:{site}", f"step {t}: len(n_step_memory)={rec['nlen']} len(memory)={rec['mlen']} expected {want_len}")]
            if rec["nrows"] is None:
                continue
            nrows, mrows = rec["nrows"], rec["mrows"]
            live_n = [r for r in nrows if r is not None]
            if len(live_n) != want_len or len([r for r in mrows if r is not None]) != want_len:
                return [Violation("contents", f"nstep:contents:{site}", f"step {t}: {len(live_n)} written n-step rows, expected {want_len}")]
            for i, row in enumerate(nrows):
                if row is None:
                    continue
                v = check_row(row, f"step {t}, n_step_memory.storage[{i}]", now)
                if v:
                    return [v]
                # aligned with the 1-step buffer
                mr = mrows[i]
                if mr is None or mr[0] != row[0] or mr[1] != row[1]:
                    return [Violation("aligned", f"nstep:aligned:{site}",
                                      f"step {t}: storage[{i}] of the n-step buffer describes (obs {row[0]}, action {row[1]}) but the 1-step buffer holds {mr}")]
                k, e = untag(mr[0], E)
                if mr != [tag(k, e, E), tag(k, e, E), float(stream[k][e][0]), tag(k, e, E), 1.0 if done(k, e) else 0.0]:
                    return [Violation("aligned", f"nstep:one-step-data:{site}", f"step {t}: memory.storage[{i}] = {mr} is not raw transition {k} of env {e}")]
            # the stored windows are the most recent ones
            have = sorted(r[0] for r in live_n)
            if have != list(range(cnt * E - want_len + 1, cnt * E + 1)):
                return [Violation("contents", f"nstep:contents:{site}", f"step {t}: stored windows {have}, expected the last {want_len} of {cnt * E}")]
        s = obs.get("sample")
        if s is not None:
            last = obs["trace"][-1]
            if last["nrows"] is not None:
                for j, i in enumerate(s["idx"]):
                    if s["n"][j] != last["nrows"][i] or s["m"][j] != last["mrows"][i]:
                        return [Violation("sample", f"nstep:sample-from-indices:{site}",
                                          f"sample_from_indices({s['idx']})[{j}] = {s['n'][j]} but storage[{i}] = {last['nrows'][i]}")]
        return []

    # ---------- evidence bookkeeping
    def _features(self, case):
        n, E, cap = case["n"], case["E"], case["cap"]
        st = case["stream"]
        L = len(st)
        anyd = [any(s[1] for s in step) for step in st]
        f = set()
        for k in range(0, L - n + 1):
            w = anyd[k:k + n]
            if not any(w):
                f.add("window:no-done")
                continue
            j = w.index(True)
            if n >= 2:
                f.add("window:done-first" if j == 0 else ("window:done-last" if j == n - 1 else "window:done-middle"))
                if sum(w) >= 2:
                    f.add("window:several-dones")
                if j < n - 1 and E > 1 and not all(s[1] for s in st[k + j]):
                    f.add("window:cut-by-other-env")
        if any(a and b for a, b in zip(anyd, anyd[1:])):
            f.add("consecutive-dones")
        if max(0, L + 1 - n) * E > cap:
            f.add("wrap-around")
        return f

    def nontrivial(self, case, obs):
        f = self._features(case)
        return bool(f & {"window:done-first", "window:done-middle", "window:done-last", "wrap-around"})

    def classify(self, case, obs):
        labs = [f"n={case['n']}", f"gamma={case['gamma']}", f"envs={case['E']}", f"cap={case['cap']}",
                f"style={case['style']}", f"len={len(case['stream']) if len(case['stream']) <= 8 else '>8'}"]
        return labs + sorted(self._features(case))

    def neighbours(self, case, rng):
        # same stream with one step dropped / one done flag flipped
        st = case["stream"]
        for i in range(len(st)):
            if len(st) - 1 >= case["n"]:
                c = dict(case); c["stream"] = st[:i] + st[i + 1:]
                yield c
        for i in range(len(st)):
            for e in range(case["E"]):
                c = dict(case)
                c["stream"] = [[[s[0], (1 - s[1]) if (t == i and e2 == e) else s[1]] for e2, s in enumerate(step)] for t, step in enumerate(st)]
                yield c


if __name__ == "__main__":
    sys.exit(vlib.run_check(C10()))
