"""C10 — n-step returns never cross an episode boundary and stay aligned with 1-step data.

Two kinds of cases:
  direct : a real MultiStepReplayBuffer paired with a real ReplayBuffer, driven with tagged raw
           transitions exactly as train_off_policy does (add -> returned transition -> memory.add).
  train  : the real train_off_policy loop with a scripted vectorised environment and a real
           RainbowDQN whose learn() is replaced by a recorder: the buffers are filled and sampled by
           the training loop itself.
"""
from __future__ import annotations

import itertools
import sys
from fractions import Fraction

import numpy as np
import torch

import vlib
from vlib import Violation, coq_Q

from agilerl.components.data import Transition
from agilerl.components.replay_buffer import MultiStepReplayBuffer, ReplayBuffer

BAD = 4999          # decoded tag of an internally inconsistent row
TOL = Fraction(1, 2 ** 13)       # absolute tolerance for gamma = 0.99 (float32 accumulation), evaluated in Q
GAMMAS = {"0": 0.0, "1/2": 0.5, "1": 1.0, "0.99": 0.99}
# tag bases of the action / next-observation fields: distinct in direct mode so that a value that ends up in
# the wrong field cannot decode; in train mode next_obs(t) is obs(t+1) and the action is the agent's own
BASES = {"direct": (1000, 2000), "train": (0, 0)}


def tol_of(case):
    """absolute tolerance for gamma = 0.99: 2^-13 relative to the largest reward magnitude of the stream (at least 1)"""
    mx = max((abs(Fraction(float(s[0]))) for st in case["stream"] for s in st), default=Fraction(0))
    return TOL * max(Fraction(1), mx)


def tag(t, e, E):
    return t * E + e + 1


def untag(x, E):
    return (x - 1) // E, (x - 1) % E


# ------------------------------------------------------------------ tagged raw transitions (direct mode)
def make_transition(t, step, E, style, dkey="done", okind="vector", types=None):
    """raw transition of stream position t exactly as train_off_policy builds it.
    step = [[reward, done] per env]"""
    ACT, NXT = BASES["direct"]
    ids = np.array([tag(t, e, E) for e in range(E)], dtype=np.float32)
    obs = np.stack([ids, ids + 0.5], axis=1)
    nxt = np.stack([ids + NXT, ids + NXT + 0.5], axis=1)
    act = (ids + ACT).astype(np.int64)
    rew = np.array([s[0] for s in step], dtype=np.float64)
    done = np.array([bool(s[1]) for s in step])
    if types == "mixed" and style != "single":
        # the numeric type of reward / done differs from step to step, as it does between environments and wrappers
        k = t % 5
        rew = [rew, rew.astype(np.float32), [float(x) for x in rew],
               rew.astype(np.int64) if np.all(rew == np.round(rew)) else rew, torch.tensor(rew, dtype=torch.float64)][k]
        done = [done, [bool(x) for x in done], done.astype(np.int64), done.astype(np.float32), torch.tensor(done)][k]
    if okind == "dict":            # Dict observation space: nested TensorDict for obs / next_obs
        obs = {"a": obs, "b": ids.copy()}
        nxt = {"a": nxt, "b": ids + NXT}
    elif okind == "tuple":         # Tuple observation space: Transition turns it into tuple_obs_0 / tuple_obs_1
        obs = (obs, ids.copy())
        nxt = (nxt, ids + NXT)
    elif okind == "image":         # channels-first image whose pixels all carry the tag
        obs = np.broadcast_to(ids[:, None, None, None], (E, 1, 2, 3)).copy()      # not square
        nxt = np.broadcast_to((ids + NXT)[:, None, None, None], (E, 1, 2, 3)).copy()
    if style == "single":          # is_vectorised = False: scalars, then unsqueeze(0)
        assert E == 1
        first = lambda o: {k: v[0] for k, v in o.items()} if isinstance(o, dict) else (tuple(v[0] for v in o) if isinstance(o, tuple) else o[0])
        r0, d0 = float(rew[0]), bool(done[0])
        if types == "mixed":
            k = t % 4
            r0 = [r0, np.float32(r0), np.float64(r0), int(r0) if r0 == int(r0) else r0][k]
            d0 = [d0, np.bool_(d0), int(d0), float(d0)][k]
        tr = Transition(obs=first(obs), action=act[0], reward=r0, next_obs=first(nxt), done=d0)
        tr = tr.unsqueeze(0)
    else:
        tr = Transition(obs=obs, action=act, reward=rew, next_obs=nxt, done=done)
    td = tr.to_tensordict()
    td.batch_size = [E]
    # the buffer looks for "done", "termination", "terminated" in that order; "a+b" = the flags under key a and
    # the NEGATED flags under the later key b, which must be ignored
    real, _, decoy = dkey.partition("+")
    flags = td["done"].clone()
    if real != "done":
        td[real] = flags
        del td["done"]
    if decoy:
        td[decoy] = 1.0 - flags
    return td


def dec_obs(x, base):
    """rows [tag+base, tag+base+.5] -> tag (0 for an all-zero row, BAD if inconsistent)"""
    x = np.asarray(x, dtype=np.float64).reshape(len(x), -1)
    out = []
    for r in x:
        if not np.any(r):
            out.append(0)
        elif r.shape[0] == 2 and r[1] == r[0] + 0.5 and float(r[0]).is_integer() and base < r[0] < base + 1000:
            out.append(int(r[0]) - base)
        elif r.shape[0] == 6 and np.all(r == r[0]) and float(r[0]).is_integer() and base < r[0] < base + 1000:
            out.append(int(r[0]) - base)        # image: every pixel carries the tag
        else:
            out.append(BAD)
    return out


def dec_scalar(x, base):
    x = np.asarray(x, dtype=np.float64).reshape(len(x), -1)
    out = []
    for r in x:
        if r.shape[0] != 1:
            out.append(BAD)
        elif r[0] == 0:
            out.append(0)
        elif float(r[0]).is_integer() and base < r[0] < base + 1000:
            out.append(int(r[0]) - base)
        else:
            out.append(BAD)
    return out


def decode_rows(td, kind, dkey="done"):
    """TensorDict with leading dim m -> list of rows [ob, ac, reward(float, exact), nx, done] or None (never written)"""
    ACT, NXT = BASES[kind]
    m = td.shape[0]
    def dec_any(o, base):
        if isinstance(o, torch.Tensor):
            return dec_obs(o, base)
        ks = sorted(o.keys())                                        # {a, b} or {tuple_obs_0, tuple_obs_1}
        a, b = dec_obs(o[ks[0]], base), dec_scalar(o[ks[1]], base)   # both members must carry the same tag
        return [x if x == y else BAD for x, y in zip(a, b)]
    ob = dec_any(td["obs"], 0)
    nx = dec_any(td["next_obs"], NXT)
    ac = dec_scalar(td["action"], ACT)
    rw = np.asarray(td["reward"], dtype=np.float64).reshape(m, -1)
    dn = np.asarray(td[dkey.partition("+")[0]], dtype=np.float64).reshape(m, -1)
    rows = []
    for i in range(m):
        r = float(rw[i, 0]) if rw.shape[1] == 1 else float("nan")
        d = float(dn[i, 0]) if dn.shape[1] == 1 else 2.0
        if ob[i] == 0 and ac[i] == 0 and nx[i] == 0 and r == 0.0 and d == 0.0:
            rows.append(None)
        else:
            rows.append([ob[i], ac[i], r, nx[i], d])
    return rows


def cq_cell(row):
    ob, ac, r, nx, d = row
    if r != r or d not in (0.0, 1.0):      # malformed: can never equal a model cell
        return f"(C {BAD} {BAD} 0 {BAD} false)"
    return f"(C {ob} {ac} {coq_Q(r)} {nx} {'true' if d == 1.0 else 'false'})"


def cq_orow(r):
    return "None" if r is None else f"Some {cq_cell(r)}"


def cq_rows(rows):
    if rows is None:
        return "None"
    return "(Some [" + "; ".join(cq_orow(r) for r in rows) + "])"


# ------------------------------------------------------------------ scripted environment (train mode)
class ScriptEnv:
    """Vectorised environment whose observations are tags of (step, env); rewards and done flags follow a script.
    It also photographs the two buffers at every step / reset boundary (before step j+1 the buffers hold the result
    of the first j additions) and, at the first step after a reset, looks at how many raw transitions the n-step
    deque still holds; this needs no hook in the training loop."""

    def __init__(self, E, script, snap, probe=None, plain=False):
        from gymnasium import spaces
        self._E = E
        self.plain = plain          # plain = not vectorised: no num_envs attribute, scalar reward / done, unbatched obs
        if not plain:
            self.num_envs = E
        self.script = script
        self.snap = snap
        self.probe = probe
        self.t = 0
        self.resets = 0
        self.pending = None
        self.reset_info = []          # [t, deque length seen at the first step after the reset at position t]
        self.actions = []
        self.single_observation_space = spaces.Box(0, 5000, (2,), np.float32)
        self.single_action_space = spaces.Discrete(3)
        self.observation_space = self.single_observation_space
        self.action_space = self.single_action_space

    def _obs(self):
        ids = np.array([tag(self.t, e, self._E) for e in range(self._E)], dtype=np.float32)
        o = np.stack([ids, ids + 0.5], axis=1)
        return o[0] if self.plain else o

    def reset(self, **kw):
        self.resets += 1
        if 0 < self.t:
            self.snap(self.t)
            if self.t < len(self.script):
                self.pending = self.t
        return self._obs(), {}

    def step(self, action):
        E = self._E
        if self.t < len(self.script):
            if self.t > 0:
                self.snap(self.t)
            if self.pending is not None:
                self.reset_info.append([self.pending, self.probe() if self.probe else None])
                self.pending = None
            rew = np.array([s[0] for s in self.script[self.t]], dtype=np.float64)
            done = np.array([bool(s[1]) for s in self.script[self.t]])
            self.actions.append([int(a) for a in np.asarray(action).reshape(-1)])
            self.t += 1
        else:                       # beyond the script: end at once
            rew = np.zeros(E)
            done = np.ones(E, dtype=bool)
        if self.plain:
            return self._obs(), float(rew[0]), bool(done[0]), False, {}
        return self._obs(), rew, done, np.zeros(E, dtype=bool), {}


# ------------------------------------------------------------------ the driver
class C10(vlib.Driver):
    pid = "C10"
    coq_dirs = ("C09",)
    preamble = ("From Coq Require Import QArith.\n"
                "From AgileV Require Import Base.Prelude C09.Model C10.Model C10.Check.\nOpen Scope nat_scope.")
    rule = ("streams of raw (vectorised) transitions with tagged observation/action/next-observation, dyadic rewards and "
            "done flags fed to a real MultiStepReplayBuffer paired with a real ReplayBuffer exactly as train_off_policy does "
            "(direct), or produced by a scripted environment inside the real train_off_policy loop (train); "
            "one environment: every placement of done flags, exhaustively, up to the stated length; 1-3 environments: seeded. "
            "Distinct = distinct (kind, n, gamma, capacity, envs, reward/done stream). Non-trivial = at least one done flag "
            "inside a stored window of length >= 2, or a wrap-around of the buffers.")
    trusted_base = ["hand-written model coq/theories/C10/Model.v on top of the C09 ring-buffer model",
                    "correspondence harness harness/c10.py (tag encoding/decoding of transitions, exact float->Q conversion, "
                    "scripted environment photographing the buffers at step boundaries)"]
    assumptions = ["TensorDict clone / slice assignment / advanced indexing semantics (validated by K only)",
                   "float32 accumulation is exact for the dyadic streams (re-checked with Fractions by the oracle); "
                   "gamma = 0.99 is compared with absolute tolerance 2^-13 evaluated in Q",
                   "num_envs <= capacity and n >= 1 (guards of the theorems)",
                   "one n-step deque shared across agents / generations and env.reset() in the training loop is outside the "
                   "property (train cases use one agent and one generation)"]
    shard = 120

    # ---------- generation
    def generate(self, tier, rng):
        cases = []
        self.exhaustive = True
        maxlen = 6 if tier == "quick" else 8
        self.notes = [f"exhaustive sub-run: one environment, every placement of done flags for stream lengths 1..{maxlen} "
                      f"(n up to {4 if tier == 'quick' else 5}; gamma 1/2 and 1 to the full length, gamma 0 and 0.99 to length {maxlen - 1}); "
                      "the vectorised and training-loop cases are seeded, not exhaustive"]
        ns = [1, 2, 3, 4] if tier == "quick" else [1, 2, 3, 4, 5]
        # one environment, every placement of done flags
        for L in range(1, maxlen + 1):
            for n in ns:
                if n > L:
                    continue
                for gi, g in enumerate(["0", "1/2", "1", "0.99"]):
                    if tier == "quick" and g in ("0", "0.99") and L > 5:
                        continue
                    if tier == "thorough" and g in ("0", "0.99") and L > 7:
                        continue
                    for dones in itertools.product([0, 1], repeat=L):
                        cap = 2 + (sum(dones) + L + n + gi) % 3          # 2..4: both buffers wrap on most streams
                        stream = [[[float(1 + (t % 4)) if g != "0.99" else float(1 + (t % 4)) / 2, d]] for t, d in enumerate(dones)]
                        cases.append({"kind": "direct", "n": n, "gamma": g, "cap": cap, "E": 1,
                                      "style": "single" if (L + n) % 2 else "vector", "stream": stream, "every": 1})
        # vectorised, seeded
        nseed = 150 if tier == "quick" else 1200
        for i in range(nseed):
            E = rng.choice([1, 2, 2, 3, 3])
            n = rng.choice([1, 2, 3, 3, 4, 5])
            cap = rng.randint(max(2, E), 8)
            L = rng.randint(n, 12) if tier == "quick" else rng.randint(n, 24)
            g = rng.choice(["0", "1/2", "1/2", "1", "0.99"])
            p = rng.choice([0.1, 0.25, 0.5])
            stream = [[[rng.randint(-16, 16) / 4.0, 1 if rng.random() < p else 0] for _ in range(E)] for _ in range(L)]
            cases.append({"kind": "direct", "n": n, "gamma": g, "cap": cap, "E": E, "style": "vector",
                          "stream": stream, "every": 1 if L <= 12 else 3,
                          "dkey": ["done", "done", "terminated", "termination", "done+terminated", "termination+terminated",
                                   "done+termination"][i % 7],
                          "okind": ["vector", "vector", "dict", "tuple", "image"][i % 5],
                          "ctor": "pos" if i % 3 == 1 else "kw"})
        # boundary-complete: two environments, every placement of done flags in both (different environments ending at
        # different times, any()/all() over the environment axis), capacity = num_envs (every add rewrites the whole
        # buffer) and capacity 3 (not a multiple of num_envs: two-slice writes)
        L2 = 3 if tier == "quick" else 4
        for L in range(1, L2 + 1):
            for n in (1, 2, 3):
                if n > L:
                    continue
                for bits in itertools.product([0, 1], repeat=2 * L):
                    stream = [[[float(1 + t), bits[2 * t]], [float(2 + t) / 2, bits[2 * t + 1]]] for t in range(L)]
                    cases.append({"kind": "direct", "n": n, "gamma": "1/2", "cap": 2 + (sum(bits) + L) % 2, "E": 2,
                                  "style": "vector", "stream": stream, "every": 1,
                                  "okind": ["vector", "tuple", "image", "dict"][(sum(bits) + n) % 4]})
        # round 3: numeric types that differ from step to step, numpy-typed hyperparameters, extreme but exactly representable
        # magnitudes, clear() of both buffers at every position of a short stream, a raising call in the middle of a stream
        combos = [(E, n) for E in (1, 2) for n in (1, 2, 3)]
        for ci, (E, n) in enumerate(combos):
            for L in ([5, 6] if tier == "quick" else [5, 6, 8]):
                for clear_at in range(0, L + 0):
                    for variant in range(2 if tier == "quick" else 4):
                        g = ["1/2", "1", "0", "0.99"][(clear_at + variant + ci) % 4]
                        sc = [0, 30, -20, 12][(clear_at + variant) % 4]
                        stream = [[[((t * 3 + e * 5 + variant) % 9 - 4) * 0.25 * 2.0 ** sc if ((t + e + variant) % 4) else 0.0,
                                    1 if rng.random() < 0.3 else 0] for e in range(E)] for t in range(L)]
                        c = {"kind": "direct", "n": n, "gamma": g, "cap": [E, E + 1, 2 * E + 1][(clear_at + ci) % 3], "E": E,
                             "style": "single" if (E == 1 and (clear_at + variant) % 2) else "vector", "stream": stream, "every": 1,
                             "types": "mixed", "okind": ["vector", "image", "dict", "tuple"][(clear_at + ci) % 4],
                             "ctor": (["npf32", "npf64", "kw"][(clear_at + variant) % 3] if g not in ("0", "1")
                                      else ["int", "npf64", "pos"][(clear_at + variant) % 3])}
                        if variant % 2 == 0:
                            c["clear_at"] = clear_at
                        else:
                            c["probe_at"] = clear_at
                        cases.append(c)
        # defaults of the constructor (n_step=3, gamma=0.99), single-env style with nested observations
        for i in range(12 if tier == "quick" else 60):
            L = rng.randint(3, 9)
            stream = [[[rng.randint(-8, 8) / 2.0, 1 if rng.random() < 0.3 else 0]] for _ in range(L)]
            cases.append({"kind": "direct", "n": 3, "gamma": "0.99", "cap": rng.randint(1, 5), "E": 1,
                          "style": "single", "stream": stream, "every": 1, "ctor": "default",
                          "okind": ["vector", "dict", "tuple", "image"][i % 4]})
        # the real training loop
        ntrain = 16 if tier == "quick" else 120
        for i in range(ntrain):
            E = rng.choice([1, 2, 3])
            n = rng.choice([1, 2, 3, 3, 4])
            cap = rng.randint(max(3, E), 9)
            L = rng.randint(n + 2, 12)
            g = rng.choice(["1/2", "1/2", "1", "0.99"])
            p = rng.choice([0.15, 0.3, 0.5])
            stream = [[[rng.randint(-16, 16) / 4.0, 1 if rng.random() < p else 0] for _ in range(E)] for _ in range(L)]
            # populations / generations: env.reset() between agent turns while the same n-step buffer keeps being fed
            P, G = [(1, 1), (2, 1), (1, 2), (3, 1), (2, 2)][i % 5]
            C = 2 if i % 4 == 3 else 1
            if P * G * C > 1:
                S = rng.randint(max(2, n - 1), n + 3)
                L = P * G * C * S
                stream = [[[rng.randint(-16, 16) / 4.0, 1 if rng.random() < p else 0] for _ in range(E)] for _ in range(L)]
            # the four sampling sites of the loop: learn_step > num_envs or not, prioritised 1-step buffer or not
            cases.append({"kind": "train", "n": n, "gamma": g, "cap": cap, "E": E, "style": "vector", "stream": stream,
                          "batch": rng.randint(1, 3), "seed": rng.randint(0, 10 ** 6), "every": 1,
                          "learn_step": 1 if i % 2 == 0 else E + 1, "per": (i // 2) % 2 == 1, "pop": P, "gens": G,
                          "plain": E == 1 and i % 3 == 0, "calls": C})       # plain = environment without num_envs (is_vectorised False)
        return cases

    # ---------- implementation
    def run_impl(self, case):
        return self.run_train(case) if case["kind"] == "train" else self.run_direct(case)

    def run_direct(self, case):
        n, cap, E = case["n"], case["cap"], case["E"]
        ctor = case.get("ctor", "kw")
        g = GAMMAS[case["gamma"]]
        if ctor == "pos":              # the way the test-suite builds it
            nbuf = MultiStepReplayBuffer(cap, n, g, "cpu")
        elif ctor == "default":        # defaults of the constructor: n_step=3, gamma=0.99
            assert n == 3 and case["gamma"] == "0.99"
            nbuf = MultiStepReplayBuffer(max_size=cap)
        elif ctor == "npf32":          # hyperparameters that arrive as numpy scalars (e.g. after a mutation / from a config array)
            nbuf = MultiStepReplayBuffer(max_size=cap, n_step=n, gamma=np.float32(g))   # (a numpy n_step is refused by deque(maxlen=...): TypeError at construction)
        elif ctor == "npf64":
            nbuf = MultiStepReplayBuffer(max_size=cap, n_step=n, gamma=np.float64(g))
        elif ctor == "int":            # gamma given as a Python int
            assert g in (0.0, 1.0)
            nbuf = MultiStepReplayBuffer(max_size=cap, n_step=n, gamma=int(g))
        else:                          # the way benchmarking/benchmarking_rainbow.py builds it
            nbuf = MultiStepReplayBuffer(max_size=cap, n_step=n, gamma=g, device="cpu")
        mem = ReplayBuffer(max_size=cap, device="cpu")
        every = case.get("every", 1)
        dkey = case.get("dkey", "done")
        clear_at, probe_at = case.get("clear_at"), case.get("probe_at")
        trace, handed, probes = [], [], []
        clear_all = False
        L = len(case["stream"])
        flat = lambda td: {k: np.asarray(v, dtype=np.float64).reshape(-1).tolist() for k, v in td.flatten_keys().items()}
        for t, step in enumerate(case["stream"]):
            if clear_at is not None and t == clear_at:
                before = len(nbuf.n_step_buffer)
                nbuf.clear()
                mem.clear()
                # does clear() keep the deque of raw transitions (the tree) or empty it? observed, given to the model
                clear_all = before > 0 and len(nbuf.n_step_buffer) == 0
            td = make_transition(t, step, E, case["style"], dkey, case.get("okind", "vector"), case.get("types"))
            handed.append((td, flat(td)))
            # --- the pairing of train_off_policy
            one = nbuf.add(td)
            if one is not None:
                mem.add(one)
            # ---
            rec = {"ret": [decode_rows(one, "direct", dkey)] if one is not None else [None],
                   "nlen": len(nbuf), "mlen": len(mem), "smp": None}
            if t % every == 0 or t == L - 1:
                rec["nrows"] = decode_rows(nbuf.storage, "direct", dkey) if nbuf.storage is not None else [None] * cap
                rec["mrows"] = decode_rows(mem.storage, "direct", dkey) if mem.storage is not None else [None] * cap
            else:
                rec["nrows"] = rec["mrows"] = None
            trace.append(rec)
            if probe_at is not None and t == probe_at and nbuf.storage is not None:
                # a call that raises (index beyond the storage), caught by the caller, after which the buffers are used further
                for bad in (torch.tensor([cap + 2]), torch.tensor([[cap]])):
                    try:
                        nbuf.sample_from_indices(bad)
                        probes.append("returned")
                    except Exception as e:
                        probes.append(type(e).__name__)
        # what was handed to add() must still hold the caller's values (shapes may have been normalised)
        modified = [t for t, (td, before) in enumerate(handed) if flat(td) != before]
        out = {"trace": trace, "actions": None, "from_indices": None, "args_modified": modified, "probes": probes, "clear_all": clear_all}
        # sample_from_indices returns the stored rows at the given indices (same indices for both buffers)
        if len(mem) >= 1 and len(nbuf) == len(mem):
            idx = torch.tensor(list(range(len(mem)))[::-1])
            trace[-1]["smp"] = {"idx": idx.tolist(), "n": decode_rows(nbuf.sample_from_indices(idx), "direct", dkey),
                                "m": decode_rows(mem.storage[idx], "direct", dkey)}
            # the Sampler the training loop wraps around the n-step buffer, with a (B,) and a (B,1) index tensor
            # (the latter is what PrioritizedReplayBuffer.sample reports as idxs)
            from agilerl.components.sampler import Sampler
            smp = Sampler(memory=nbuf)
            fl = smp.sample(idx)
            colidx = idx.unsqueeze(1).clone()
            col = smp.sample(colidx)
            out["idx_modified"] = (list(colidx.shape) != [len(idx), 1] or colidx.reshape(-1).tolist() != idx.tolist()
                                   or idx.tolist() != list(range(len(mem)))[::-1])
            out["from_indices"] = {"idx": idx.tolist(),
                                   "flat": {"shape": list(fl.batch_size), "rows": decode_rows(fl, "direct", dkey)},
                                   "col": {"shape": list(col.batch_size),
                                           "rows": decode_rows(col, "direct", dkey) if list(col.batch_size) == [len(idx)] else None}}
        return out

    def run_train(self, case):
        from agilerl.algorithms.dqn_rainbow import RainbowDQN
        from agilerl.training.train_off_policy import train_off_policy
        import contextlib, io
        n, cap, E = case["n"], case["cap"], case["E"]
        L = len(case["stream"])
        torch.manual_seed(case["seed"])
        np.random.seed(case["seed"] % (2 ** 31))
        nbuf = MultiStepReplayBuffer(max_size=cap, n_step=n, gamma=GAMMAS[case["gamma"]])
        per = bool(case.get("per", False))
        if per:
            from agilerl.components.replay_buffer import PrioritizedReplayBuffer
            mem = PrioritizedReplayBuffer(max_size=cap, alpha=0.6)
        else:
            mem = ReplayBuffer(max_size=cap)
        snaps, samples = {}, {}
        P, G, C = case.get("pop", 1), case.get("gens", 1), case.get("calls", 1)
        assert L % (P * G * C) == 0
        S = L // (P * G * C)           # environment steps per agent turn

        def snap(t):           # buffers after the first t additions (first photograph wins)
            if t in snaps:
                return
            snaps[t] = {"nlen": len(nbuf), "mlen": len(mem),
                        "nrows": decode_rows(nbuf.storage, "train") if nbuf.storage is not None else [None] * cap,
                        "mrows": decode_rows(mem.storage, "train") if mem.storage is not None else [None] * cap}

        env = ScriptEnv(E, case["stream"], snap, probe=lambda: len(nbuf.n_step_buffer), plain=bool(case.get("plain", False)))

        def recorder(experiences, n_experiences=None, per=False):      # stands in for RainbowDQN.learn
            idx = [int(i) for i in torch.as_tensor(experiences["idxs"]).reshape(-1)]
            samples[env.t] = {"idx": idx,
                              "m": decode_rows(experiences, "train"),
                              "n": decode_rows(n_experiences, "train") if n_experiences is not None else None,
                              "mshape": list(experiences.batch_size),
                              "ishape": list(torch.as_tensor(experiences["idxs"]).shape),
                              "nshape": list(n_experiences.batch_size) if n_experiences is not None else None}
            return 0.0, experiences["idxs"], np.ones(len(idx))

        pop = []
        for i in range(P):
            agent = RainbowDQN(env.single_observation_space, env.single_action_space, index=i,
                               net_config={"encoder_config": {"hidden_size": [8]}},
                               batch_size=case["batch"], learn_step=case.get("learn_step", 1), n_step=n,
                               gamma=GAMMAS[case["gamma"]], num_atoms=5, v_min=-1.0, v_max=1.0)
            agent.learn = recorder
            agent.test = (lambda *a, _ag=agent, **k: (_ag.fitness.append(0.0) or 0.0))     # evaluation does not touch the buffers
            pop.append(agent)
        with contextlib.redirect_stdout(io.StringIO()), contextlib.redirect_stderr(io.StringIO()):
            for call in range(C):      # the training function called again on what it returned, same buffers
                pop, _ = train_off_policy(env, "script", "RainbowDQN", pop, mem, max_steps=(call + 1) * G * S * E, evo_steps=S * E,
                                          eval_steps=1, eval_loop=1, n_step=True, per=per, n_step_memory=nbuf, verbose=False)
        snap(L)
        if env.t != L or sorted(snaps) != list(range(1, L + 1)):
            raise RuntimeError(f"training loop made {env.t} environment steps (expected {L}); snapshots {sorted(snaps)}")
        want_resets = [j * S for j in range(1, P * G * C)]
        if [r[0] for r in env.reset_info] != want_resets:
            raise RuntimeError(f"env.reset() seen at positions {[r[0] for r in env.reset_info]}, expected {want_resets}")
        trace = []
        for t in range(L):
            rec = dict(snaps[t + 1])
            rec["ret"] = None                       # return value of add is not observable from outside the loop
            rec["smp"] = samples.get(t + 1)
            trace.append(rec)
        # resets: [position, was the n-step deque empty at the first step after it]
        return {"trace": trace, "actions": env.actions, "resets": [[r[0], r[1] == 0] for r in env.reset_info]}

    # ---------- the stream as the model sees it
    def cells(self, case, obs):
        """[(ob, ac, reward, nx, done)] per step per env, as tags"""
        E = case["E"]
        out = []
        for t, step in enumerate(case["stream"]):
            row = []
            for e, s in enumerate(step):
                if case["kind"] == "train":
                    row.append((tag(t, e, E), obs["actions"][t][e], float(s[0]), tag(t + 1, e, E), bool(s[1])))
                else:
                    row.append((tag(t, e, E), tag(t, e, E), float(s[0]), tag(t, e, E), bool(s[1])))
            out.append(row)
        return out

    # ---------- model term
    def coq_term(self, case, obs):
        xs = ["[" + "; ".join(f"(C {ob} {ac} {coq_Q(r)} {nx} {'true' if d else 'false'})" for ob, ac, r, nx, d in row) + "]"
              for row in self.cells(case, obs)]
        ol = []
        for rec in obs["trace"]:
            if rec["ret"] is None:
                ret = "None"
            elif rec["ret"][0] is None:
                ret = "(Some None)"
            else:
                ret = "(Some (Some [" + "; ".join(cq_cell(r) if r is not None else f"(C {BAD} 0 0 0 false)" for r in rec["ret"][0]) + "]))"
            s = rec.get("smp")
            if s is None or s["n"] is None:
                smp = "None"
            else:
                smp = ("(Some ([" + "; ".join(map(str, s["idx"])) + "], [" + "; ".join(cq_orow(r) for r in s["n"]) + "], ["
                       + "; ".join(cq_orow(r) for r in s["m"]) + "]))")
            ol.append(f"(O {ret} {rec['nlen']} {rec['mlen']} {cq_rows(rec['nrows'])} {cq_rows(rec['mrows'])} {smp})")
        tol = coq_Q(tol_of(case)) if case["gamma"] == "0.99" else "0%Q"
        nl = lambda l: "[" + "; ".join(str(int(x)) for x in l) + "]"
        extra = ""
        fi = obs.get("from_indices")
        if fi:
            col_rows = fi["col"]["rows"] if fi["col"]["rows"] is not None else []
            extra += (f" && check_from_indices {case['n']} {case['cap']} {coq_Q(GAMMAS[case['gamma']])} {tol} [{'; '.join(xs)}] "
                      f"{nl(fi['idx'])} {nl(fi['flat']['shape'])} [{'; '.join(cq_orow(r) for r in fi['flat']['rows'])}] "
                      f"{nl(fi['col']['shape'])} [{'; '.join(cq_orow(r) for r in col_rows)}]")
        for rec in obs["trace"]:          # leading shape of the learner's n-step batch = reshape(-1) of the index tensor
            sm = rec.get("smp")
            if sm and sm.get("ishape") is not None and sm.get("nshape") is not None:
                extra += f" && shape_ok {nl(sm['ishape'])} {nl(sm['nshape'])}"
        resets = obs.get("resets") or []
        if resets:
            at = {t: cl for t, cl in resets}
            evs = []
            for t, x in enumerate(xs):
                if t in at:
                    evs.append(f"Reset {'true' if at[t] else 'false'}")
                evs.append(f"Step {x}")
            return (f"(check_run_ev {case['n']} {case['cap']} {coq_Q(GAMMAS[case['gamma']])} {tol} "
                    f"[{'; '.join(evs)}] [{'; '.join(ol)}]){extra}")
        if case.get("clear_at") is not None:
            ops = []
            for t, x in enumerate(xs):
                if t == case["clear_at"]:
                    ops.append("OClearAll" if obs.get("clear_all") else "OClear")
                ops.append(f"OStep {x}")
            # the rows of the final Sampler probes are compared by the oracle only (check_from_indices models a run without clear)
            extra_ops = "".join(f" && shape_ok {nl(sm['ishape'])} {nl(sm['nshape'])}" for sm in [] )
            return (f"(check_run_op {case['n']} {case['cap']} {coq_Q(GAMMAS[case['gamma']])} {tol} "
                    f"[{'; '.join(ops)}] [{'; '.join(ol)}]){extra_ops}")
        return (f"(check_run {case['n']} {case['cap']} {coq_Q(GAMMAS[case['gamma']])} {tol} "
                f"[{'; '.join(xs)}] [{'; '.join(ol)}]){extra}")

    # ---------- oracle: the property stated directly on the implementation's behaviour
    def oracle(self, case, obs):
        n, cap, E = case["n"], case["cap"], case["E"]
        kind = case["kind"]
        cells = self.cells(case, obs)
        g = Fraction(GAMMAS[case["gamma"]])
        exact = case["gamma"] != "0.99"
        site = f"{kind}:n={'1' if n == 1 else '>1'}:envs={'1' if E == 1 else '>1'}"
        done = lambda t, e: cells[t][e][4]
        rew = lambda t, e: Fraction(cells[t][e][2])
        raw = lambda t, e: [cells[t][e][0], cells[t][e][1], cells[t][e][2], cells[t][e][3], 1.0 if cells[t][e][4] else 0.0]
        nx_last = {cells[t][e][3]: (t, e) for t in range(len(cells)) for e in range(E)}     # next-obs tag -> (step, env)
        clear_at = case.get("clear_at")
        resets = obs.get("resets") or []
        bounds = sorted(t for t, _ in resets)                 # env.reset() was called before these stream positions
        rollout = lambda t: sum(1 for b in bounds if b <= t)  # which agent turn a stream position belongs to
        cleared = sorted([t for t, cl in resets if cl]        # resets at which the deque was seen empty afterwards
                         + ([clear_at] if obs.get("clear_all") and clear_at else []))
        span = []

        def windows_done(now):
            """start positions of the windows completed after `now` raw transitions, in the order they were stored:
            a window never starts before and ends after a reset that emptied the deque"""
            starts = [0] + cleared
            out_ = []
            for i, a in enumerate(starts):
                b = min(now, starts[i + 1]) if i + 1 < len(starts) else now
                out_ += list(range(a, max(a, b - n + 1)))
            return out_

        tolv = tol_of(case)

        def close(a, b):
            return a == b if exact else abs(a - b) <= tolv

        def check_row(row, where, now):
            """row of the n-step buffer; now = number of raw transitions seen so far"""
            ob, ac, r, nx, d = row
            if ob in (0, BAD) or ob > now * E:
                return Violation("start", f"nstep:start:{site}", f"{where}: observation tag {ob} is not an observed one")
            k, e = untag(ob, E)
            if ac != cells[k][e][1]:
                return Violation("start", f"nstep:start:{site}", f"{where}: obs of (step {k}, env {e}) stored with action {ac}, taken was {cells[k][e][1]}")
            if nx not in nx_last or nx_last[nx][1] != e or nx_last[nx][0] >= now:
                return Violation("next", f"nstep:next-obs:{site}", f"{where}: window {k} env {e}: next_obs tag {nx} is not a next observation of env {e} seen so far")
            last = nx_last[nx][0]
            m = last - k + 1
            if not (1 <= m <= n):
                return Violation("next", f"nstep:next-obs:{site}", f"{where}: window {k} env {e}: next_obs taken from step {last} (n={n})")
            # nothing after a terminal step of this environment may be mixed in
            for j in range(k, k + m - 1):
                if done(j, e):
                    return Violation("leak", f"nstep:leak:{'first' if j == k else 'inner'}-terminal:{site}",
                                     f"{where}: window {k} env {e} (n={n}) runs to step {last} although env {e} terminated at step {j}")
            if rollout(k) != rollout(last) and not span:
                # the rewards summed did not follow (obs, action) k in its episode: env.reset() lies in between
                span.append(Violation("spans-reset", f"nstep:spans-reset:{kind}",
                                      f"{where}: window {k} env {e} (n={n}) starts in agent turn {rollout(k)} and takes rewards / next_obs up to "
                                      f"step {last} of agent turn {rollout(last)}: env.reset() was called before step "
                                      f"{[b for b in bounds if k < b <= last]} and no done flag separates them"))
            if m < n and not any(done(last, e2) for e2 in range(E)):
                return Violation("cut", f"nstep:cut-short:{site}",
                                 f"{where}: window {k} env {e} stops after {m} < n={n} steps although no environment ended at step {last}")
            want = sum((g ** i) * rew(k + i, e) for i in range(m))
            if not close(Fraction(r), want):
                return Violation("reward", f"nstep:reward:{site}",
                                 f"{where}: window {k} env {e}: n-step reward {r} but sum_(i<{m}) gamma^i r = {float(want)} "
                                 f"(rewards {[float(rew(k + i, e)) for i in range(m)]}, gamma={case['gamma']})")
            if d not in (0.0, 1.0) or bool(d) != done(last, e):
                return Violation("done", f"nstep:done:{site}", f"{where}: window {k} env {e}: done={d} but step {last} has done={done(last, e)}")
            return None

        def check_pair(row, mr, where):
            if mr is None or mr[0] != row[0] or mr[1] != row[1]:
                return Violation("aligned", f"nstep:aligned:{site}",
                                 f"{where}: the n-step record describes (obs {row[0]}, action {row[1]}) but the 1-step record is {mr}")
            if mr[0] in (0, BAD) or mr[0] > len(cells) * E:
                return Violation("aligned", f"nstep:one-step-data:{site}", f"{where}: 1-step record {mr} is not an observed transition")
            k, e = untag(mr[0], E)
            if mr != raw(k, e):
                return Violation("aligned", f"nstep:one-step-data:{site}", f"{where}: 1-step record {mr} is not raw transition {k} of env {e} = {raw(k, e)}")
            return None

        out = []       # a layout finding must not hide a content finding on the same case: keep checking
        for t, rec in enumerate(obs["trace"]):
            now = t + 1
            wins = windows_done(now)                       # windows completed so far
            if clear_at is not None and t >= clear_at:     # both buffers were cleared before step clear_at: only windows
                wins = [k for k in wins if k + n - 1 >= clear_at]      # completed afterwards are held
            cnt = len(wins)
            # returned 1-step transition
            if rec["ret"] is not None:
                ret = rec["ret"][0]
                since = now - max([b for b in cleared if b <= t] + [0])      # transitions seen since the deque was last emptied
                if (ret is None) != (since < n):
                    return out + span + [Violation("returned", f"nstep:returned:{site}", f"step {t}: add returned {'None' if ret is None else 'a transition'} with {since} transitions in the window, n={n}")]
                if ret is not None:
                    k = now - n
                    want = [raw(k, e) for e in range(E)]
                    if ret != want:
                        return out + span + [Violation("returned", f"nstep:returned:{site}", f"step {t}: add returned {ret}, the raw transition {k} is {want}")]
            want_len = min(cap, cnt * E)
            if rec["nlen"] != want_len or rec["mlen"] != want_len:
                return out + span + [Violation("len", f"nstep:len:{site}", f"step {t}: len(n_step_memory)={rec['nlen']} len(memory)={rec['mlen']} expected {want_len}")]
            if rec["nrows"] is not None:
                nrows, mrows = rec["nrows"], rec["mrows"]
                live_n = [r for r in nrows if r is not None]
                if len(live_n) != want_len or len([r for r in mrows if r is not None]) != want_len:
                    return out + span + [Violation("contents", f"nstep:contents:{site}", f"step {t}: {len(live_n)} written n-step rows, {len([r for r in mrows if r is not None])} written 1-step rows, expected {want_len}")]
                for i, row in enumerate(nrows):
                    if row is None:
                        continue
                    v = check_row(row, f"step {t}, n_step_memory.storage[{i}]", now) or \
                        check_pair(row, mrows[i], f"step {t}, storage[{i}]")
                    if v:
                        return out + span + [v]
                # the stored windows are the most recent ones
                have = sorted(r[0] for r in live_n)
                if have != sorted([tag(k, e, E) for k in wins for e in range(E)][cnt * E - want_len:]):
                    return out + span + [Violation("contents", f"nstep:contents:{site}", f"step {t}: stored windows {have}, expected the last {want_len} of {cnt * E}")]
            s = rec.get("smp")
            if s is not None:
                # what the learner receives: row j of the n-step batch and row j of the 1-step batch
                if s.get("nshape") != s.get("mshape") and not out:
                    out.append(Violation("batch-shape", f"nstep:learner-batch-shape:{'per' if case.get('per') else 'uniform'}",
                                      f"step {t}: the learner receives a 1-step batch of shape {s.get('mshape')} and an n-step batch of shape "
                                      f"{s.get('nshape')} for the indices {s['idx']}: row j of one is not row j of the other"))
                if s["n"] is None or len(s["n"]) != len(s["m"]):
                    return out + span + [Violation("sample", f"nstep:sample-from-indices:{site}", f"step {t}: n-step batch {s['n']} for 1-step batch of {len(s['m'])} rows")]
                for j, (nr, mr) in enumerate(zip(s["n"], s["m"])):
                    if nr is None:
                        return out + span + [Violation("sample", f"nstep:sample-from-indices:{site}", f"step {t}: sampled index {s['idx'][j]} is an unwritten n-step row")]
                    v = check_row(nr, f"step {t}, n-step batch row {j} (index {s['idx'][j]})", now) or \
                        check_pair(nr, mr, f"step {t}, batch row {j} (index {s['idx'][j]})")
                    if v:
                        return out + span + [v]
                    if rec["nrows"] is not None and (nr != rec["nrows"][s["idx"][j]] or mr != rec["mrows"][s["idx"][j]]):
                        return out + span + [Violation("sample", f"nstep:sample-from-indices:{site}",
                                          f"step {t}: batch row {j} = {nr} / {mr} but storage[{s['idx'][j]}] = {rec['nrows'][s['idx'][j]]} / {rec['mrows'][s['idx'][j]]}")]
        if obs.get("args_modified"):
            return out + span + [Violation("args", f"nstep:caller-transition-modified:{site}",
                                           f"the transitions handed to n_step_memory.add at steps {obs['args_modified']} no longer hold the values the caller put in")]
        if obs.get("idx_modified"):
            return out + span + [Violation("args", f"nstep:caller-indices-modified:{site}",
                                           "the index tensor handed to Sampler(n_step_memory).sample / sample_from_indices was changed in place")]
        fi = obs.get("from_indices")
        if fi:
            last = obs["trace"][-1]
            for name in ("flat", "col"):
                got = fi[name]
                if got["shape"] != [len(fi["idx"])]:
                    return out + span + [Violation("batch-shape", f"nstep:sampler-batch-shape:{name}",
                                                   f"Sampler(n_step_memory).sample(idxs) with a {'(B,1) column' if name == 'col' else '(B,) vector'} of "
                                                   f"{len(fi['idx'])} indices returns a batch of shape {got['shape']}")]
                if last["nrows"] is not None and got["rows"] != [last["nrows"][i] for i in fi["idx"]]:
                    return out + span + [Violation("sample", f"nstep:sample-from-indices:{site}",
                                                   f"Sampler(n_step_memory).sample({fi['idx']}) [{name}] = {got['rows']} but the storage rows are {[last['nrows'][i] for i in fi['idx']]}")]
        return out + span

    # ---------- evidence bookkeeping
    def _features(self, case):
        n, E, cap = case["n"], case["E"], case["cap"]
        st = case["stream"]
        L = len(st)
        anyd = [any(s[1] for s in step) for step in st]
        f = set()
        for k in range(0, L - n + 1):
            w = anyd[k:k + n]
            if not any(w):
                f.add("window:no-done")
                continue
            j = w.index(True)
            if n >= 2:
                f.add("window:done-first" if j == 0 else ("window:done-last" if j == n - 1 else "window:done-middle"))
                if sum(w) >= 2:
                    f.add("window:several-dones")
                if j < n - 1 and E > 1 and not all(s[1] for s in st[k + j]):
                    f.add("window:cut-by-other-env")
        if any(a and b for a, b in zip(anyd, anyd[1:])):
            f.add("consecutive-dones")
        if max(0, L + 1 - n) * E > cap:
            f.add("wrap-around")
        return f

    def key(self, case):
        k = {x: case.get(x) for x in ("kind", "n", "gamma", "cap", "E", "stream", "learn_step", "per", "pop", "gens", "okind", "dkey", "ctor", "style", "plain", "types", "clear_at", "probe_at", "calls")}
        return super().key(k)

    def nontrivial(self, case, obs):
        f = self._features(case)
        return bool(f & {"window:done-first", "window:done-middle", "window:done-last", "wrap-around"})

    def classify(self, case, obs):
        labs = [f"kind={case['kind']}", f"n={case['n']}", f"gamma={case['gamma']}", f"envs={case['E']}", f"cap={case['cap']}",
                f"style={case['style']}", f"done-key={case.get('dkey', 'done')}", f"obs={case.get('okind', 'vector')}", f"ctor={case.get('ctor', 'kw')}", f"types={case.get('types', 'uniform')}", f"cap{'=' if case['cap'] == case['E'] else ('<' if case['cap'] < case['E'] else '>')}envs", f"len={len(case['stream']) if len(case['stream']) <= 8 else '>8'}"]
        if case.get("clear_at") is not None:
            labs.append("clear:" + ("before-first-window" if case["clear_at"] < case["n"] else "with-full-deque"))
        if obs.get("probes"):
            labs.append("raising-call-then-further-use:" + "/".join(sorted(set(obs["probes"]))))
        mx = max((abs(s_[0]) for st in case["stream"] for s_ in st), default=0)
        labs.append("reward-magnitude:" + ("huge" if mx > 1e6 else ("tiny" if 0 < mx < 1e-3 else "moderate")))
        if any(all(s_[0] == 0 for s_ in st) for st in case["stream"][1:]):
            labs.append("all-zero-reward-step")
        if case["kind"] == "train":
            labs.append(f"train-calls={case.get('calls', 1)}")
            labs.append(f"train-pop={case.get('pop', 1)}:gens={case.get('gens', 1)}")
            labs.append("train-env=" + ("plain" if case.get("plain") else "vectorised"))
            for t, cl in (obs.get("resets") or []):
                labs.append("reset-between-turns:deque-" + ("emptied" if cl else "kept"))
            labs.append(f"train-site:{'learn_step>envs' if case.get('learn_step', 1) > case['E'] else 'learn_step<=envs'}:{'per' if case.get('per') else 'uniform'}")
        nb = sum(1 for rec in obs["trace"] if rec.get("smp"))
        if nb:
            labs.append("learner-batches-with-shared-indices" if case["kind"] == "train" else "sample_from_indices")
        return labs + sorted(self._features(case))

    def neighbours(self, case, rng):
        # same stream with one step dropped / one done flag flipped
        st = case["stream"]
        for i in range(len(st)):
            if len(st) - 1 >= case["n"] + (2 if case["kind"] == "train" else 0):
                c = dict(case); c["stream"] = st[:i] + st[i + 1:]
                yield c
        for i in range(len(st)):
            for e in range(case["E"]):
                c = dict(case)
                c["stream"] = [[[s[0], (1 - s[1]) if (t == i and e2 == e) else s[1]] for e2, s in enumerate(step)] for t, step in enumerate(st)]
                yield c


if __name__ == "__main__":
    sys.exit(vlib.run_check(C10()))
