"""C02 — after any mutation an agent is coherent: optimizers, targets and critics follow.

Shadow execution on the shared Evo engine (harness/evo.py, coq/theories/Evo): generations of
(score, select, Mutations.mutation(population), act, learn) are applied to real populations of tiny agents of every
algorithm; Mutations.mutation is called ON THE WHOLE POPULATION with the mutation kind of every member scripted
(through the Mutations object's own random generator) or drawn from a probability vector.  After every step the
population is snapshotted; the Evo model runs the same history inside Coq (C02/Check.v [check_run2]) and must agree on
the alias partition, value partition, labels, indices, architecture ids, optimizer<->parameter identity, lr, hp values;
the model population must be coherent in every state; after a training step every optimizer-referenced cell must have
changed; after an architecture mutation the descriptor transitions must be the ones [arch_mutate] predicts.
The oracle states the property directly on the implementation's objects.
"""
from __future__ import annotations

import gc
import json
import os
import random
import sys

os.environ.setdefault("VERIF_JOBS", "12")      # K files of this property need up to ~1 GB each while they are elaborated
import vlib
from vlib import Violation

import evo

KINDS = evo.MUT_KINDS   # none arch param act hp
DEFAULT_SELECTION = ["ReLU", "ELU", "GELU"]     # documented default of Mutations(activation_selection=...)

_evo_obs_space = evo.obs_space


def _obs_space(family):
    """the engine's space families plus "dictimg": a Dict observation with a vector and an image member (the multi-input
    encoder then has a CNN feature net and a non-trivial extracted-feature dimension)"""
    if family == "dictimg":
        from gymnasium import spaces
        import numpy as np
        return spaces.Dict({"a": spaces.Box(-1.0, 1.0, (3,), np.float32), "img": spaces.Box(0.0, 1.0, (1, 6, 6), np.float32)})
    return _evo_obs_space(family)


evo.obs_space = _obs_space


# ---------------------------------------------------------------------------------------------- implementation side
def _recording_mutations():
    from agilerl.hpo.mutation import Mutations

    class Rec(Mutations):
        """the real Mutations; every mutation function logs which kind was applied to which individual"""

        def __init__(self, *a, **k):
            self.log = []
            super().__init__(*a, **k)

        def no_mutation(self, ind):
            self.log.append("none")
            return super().no_mutation(ind)

        def architecture_mutate(self, ind):
            self.log.append("arch")
            return super().architecture_mutate(ind)

        def parameter_mutation(self, ind):
            self.log.append("param")
            return super().parameter_mutation(ind)

        def activation_mutation(self, ind):
            self.log.append("act")
            return super().activation_mutation(ind)

        def rl_hyperparam_mutation(self, ind):
            self.log.append("hp")
            return super().rl_hyperparam_mutation(ind)
    return Rec


class _ScriptedRng:
    """the Mutations object's numpy Generator with the FIRST choice (the per-member mutation functions) scripted"""

    def __init__(self, rng, funcs):
        self._rng, self._funcs = rng, funcs

    def choice(self, a, *args, **kw):
        if self._funcs is not None and len(a) > 0 and callable(a[0]):
            import numpy as np
            out = np.empty(len(self._funcs), dtype=object)
            for i, f in enumerate(self._funcs):
                out[i] = f
            self._funcs = None
            return out
        return self._rng.choice(a, *args, **kw)

    def __getattr__(self, n):
        return getattr(self._rng, n)


def _opt_identity(a):
    """per optimizer: do the param_groups hold exactly the parameters() of the registered networks (as sets of
    object identities), without duplicates; lr of every group vs the agent attribute"""
    out = {}
    for oc in a.registry.optimizers:
        w = getattr(a, oc.name)
        have, lrs = [], []
        for o in evo._opt_list(w):
            for gr in o.param_groups:
                lrs.append(float(gr["lr"]))
                have += [id(p) for p in gr["params"]]
        want = []
        for nn_ in oc.networks:
            for m in evo._modules_of(getattr(a, nn_)):
                want += [id(p) for p in getattr(m, "_orig_mod", m).parameters()]
        out[oc.name] = {"set_ok": set(have) == set(want), "dup": len(have) != len(set(have)), "n": len(have), "nwant": len(want),
                        "lrs": lrs, "attr_lr": float(getattr(a, oc.lr)), "wrapper_lr": float(w.lr), "lr_name": oc.lr,
                        "nets": list(oc.networks)}
    return out


class C02(vlib.Driver):
    pid = "C02"
    coq_dirs = ("Evo", "C03")     # C03/Model.v: the concrete module semantics that instantiate arch_mutate
    preamble = ("From Coq Require Import NArith QArith.\nFrom AgileV Require Import Evo.Heap Evo.Evo C02.Model C02.Check.\n"
                "Open Scope N_scope.")
    rule = ("history = (algorithm, space family, shared/unshared encoders, net_config kind, population size, step-kind sequence) "
            "over {Mutations.mutation(population) with scripted or drawn kinds per member, act, learn, score, select, discard}. "
            "Distinct = distinct key.  Non-trivial = >= 1 learn, >= 1 population mutation with a non-'none' kind and, after it, a learn "
            "of two different members (of the only member for a population of one).")
    trusted_base = ["hand-written model coq/theories/Evo/{Heap,Evo}.v + coq/theories/C02/Model.v",
                    "correspondence harness harness/evo.py + harness/c02.py (slot extraction through state_dict/data_ptr/id, "
                    "value fingerprints, mutation kinds scripted through the Mutations object's own generator, scripted "
                    "tournament draws)"]
    assumptions = ["torch copy/alias semantics (module.load_state_dict copies values, constructors / deepcopy allocate, "
                   "tensordict.to_module installs detached tensors) are parameters of the model validated by K only",
                   "the numerical effect of a gradient step / parameter noise is opaque (fresh content id); that a learn step "
                   "MOVES every referenced parameter is checked on the implementation (oracle + K flag), the model only states "
                   "the write footprint; a trained tensor whose gradient in the last backward pass is exactly zero or absent "
                   "(dead units of the tiny test networks) is excused from 'moved'",
                   "which layer / how many nodes a random architecture mutation picks is an input (shapes and descriptor ids "
                   "of the mutated networks are taken from the observation); the per-module meaning of a method is C03's model",
                   "accelerator / torch.compile / DeepSpeed paths of Mutations are not exercised"]
    shard = 1

    # ------------------------------------------------------------------ generation
    def generate(self, tier, rng):
        cases = []
        only = os.environ.get("VERIF_C02_ONLY")      # developer shortcut for the mutation self-test (never registered)

        def train_all(n, rng, act=True):
            return [["train", i, rng.randrange(1000), bool(act)] for i in range(n)]

        def selection(n, rng, k=None):
            k = n if k is None else k
            fit = rng.sample(range(1, 60), n)
            # the evaluation that precedes a tournament, then the tournament; the returned elite object is dropped
            return [["scores", fit], ["select", [rng.randrange(n) for _ in range(k - 1)], True]]

        def boundary(algo, share, seed, family="vector", netcfg="partial"):
            """every kind on a fresh population (pre-training), every kind after training + selection, third generation
            drawn from a probability vector, everybody trained after each"""
            r = random.Random(f"C02-b-{algo}-{share}-{seed}")
            ops = [["mutate", {"kinds": ["hp", "arch", "param", "act", "arch"]}, 11 + seed, True]]
            ops += train_all(5, r)
            ops += selection(5, r)
            ops += [["mutate", {"kinds": ["none", "arch", "hp", "param", "act"]}, 23 + seed, False]]
            ops += train_all(5, r, act=False)
            ops += [["mutate", {"probs": [1, 2, 1, 1, 2]}, 37 + seed, False]]
            ops += train_all(5, r)
            return {"algo": algo, "family": family, "share": share, "netcfg": netcfg, "seed": seed, "pop": 5, "ops": ops}

        def seeded(algo, family, share, netcfg, gens, seed, nag):
            ops = []
            n = nag
            pre = rng.random() < 0.5
            if not pre:
                ops += train_all(n, rng, act=False)
            for g in range(gens):
                mode = rng.random()
                if mode < 0.35:
                    spec = {"kinds": [rng.choice(KINDS if not (pre and g == 0) else KINDS[1:]) for _ in range(n)]}
                elif mode < 0.55:      # corners of the simplex
                    p = [0, 0, 0, 0, 0]
                    p[rng.randrange(1, 5)] = 1
                    spec = {"probs": p}
                else:
                    spec = {"probs": [rng.choice([0, 1, 2]) for _ in range(5)]}
                    if sum(spec["probs"][1:]) == 0:
                        spec["probs"][rng.randrange(1, 5)] = 1
                if rng.random() < 0.25:
                    spec["mutate_elite"] = False
                ops.append(["mutate", spec, rng.randrange(1000), pre and g == 0])
                ops += train_all(n, rng, act=rng.random() < 0.6)
                if g + 1 < gens and rng.random() < 0.7:
                    ops += selection(n, rng)
            return {"algo": algo, "family": family, "share": share, "netcfg": netcfg, "seed": seed, "pop": nag, "ops": ops}

        def bounds(algo, share, side, seed):
            """actor-critic algorithms whose networks sit next to a HARD LIMIT (latent dimension, nodes, layers): the
            architecture method is scripted to the bound-limited ones, so that the policy's own draw frequently does not
            fit (its call is then a no-op that every other evaluation network must mirror)"""
            r = random.Random(f"C02-bounds-{algo}-{share}-{side}-{seed}")
            lim = {"min_hidden_layers": 1, "max_hidden_layers": 2, "min_mlp_nodes": 4, "max_mlp_nodes": 20}
            if side == "max":
                cfg = {"latent_dim": 100, "encoder_config": dict(hidden_size=[14, 12], **lim), "head_config": dict(hidden_size=[14], **lim)}
                lat, others = "add_latent_node", ["encoder.add_node", "head_net.add_node", "head_net.add_layer", "encoder.add_layer"]
            else:
                cfg = {"latent_dim": 24, "encoder_config": dict(hidden_size=[6], **lim), "head_config": dict(hidden_size=[6, 6], **lim)}
                lat, others = "remove_latent_node", ["encoder.remove_node", "head_net.remove_node", "head_net.remove_layer", "encoder.remove_layer"]
            n = 3 if algo in evo.MULTI else 4
            ops = train_all(n, r, act=False)
            ops += [["mutate", {"kinds": ["arch"] * n, "methods": [lat] * n}, r.randrange(1000), False]]
            ops += train_all(n, r)
            ops += [["mutate", {"kinds": ["arch"] * n, "methods": [r.choice(others), lat, r.choice(others), lat][:n]}, r.randrange(1000), False]]
            ops += train_all(n, r, act=False)
            ops += [["mutate", {"kinds": ["arch"] * n, "methods": [lat, r.choice(others), lat, r.choice(others)][:n]}, r.randrange(1000), False]]
            ops += train_all(n, r, act=False)
            return {"algo": algo, "family": "vector", "share": share, "netcfg": "bound-" + side, "cfg": cfg, "seed": seed, "pop": n, "ops": ops}

        def methods(algo, family, share, kind, seed, pop=1):
            """every mutation method the policy advertises is forced once ("all_methods" is expanded at run time from the
            real policy network), on the default configuration (away from every bound) or on a configuration whose layer
            counts are pinned (min = max = current), so that add_layer / remove_layer / change_kernel take their fall-back
            paths (add_node / add_channel with randomly drawn arguments that only travel through the returned dictionary)"""
            cfg = None
            if kind in ("atmax", "atmin"):
                # layer counts sit AT their limit: add_layer (atmax) / remove_layer (atmin) take the fall-back add_node,
                # CNN add_layer falls back on add_channel, change_kernel of a one-layer CNN on add_layer
                hs = [16, 16] if kind == "atmax" else [16]
                mlp = {"hidden_size": hs, "min_hidden_layers": 1, "max_hidden_layers": 2, "min_mlp_nodes": 4, "max_mlp_nodes": 500}
                cnn = {"channel_size": [2] * len(hs), "kernel_size": [3] * len(hs), "stride_size": [1] * len(hs), "min_hidden_layers": 1,
                       "max_hidden_layers": 2, "min_channel_size": 1, "max_channel_size": 64}
                if family in ("vector", "discrete"):
                    enc = dict(mlp)
                elif family == "image":
                    enc = dict(cnn)
                else:
                    enc = {"latent_dim": 16, "min_latent_dim": 8, "max_latent_dim": 64, "vector_space_mlp": True,
                           "cnn_config": {k: v for k, v in cnn.items() if k in ("channel_size", "kernel_size", "stride_size")},
                           "mlp_config": {"hidden_size": [16]}}
                cfg = {"latent_dim": 32, "encoder_config": enc, "head_config": dict(mlp)}
            c = {"algo": algo, "family": family, "share": share, "netcfg": "none" if cfg is None else "methods-" + kind, "seed": seed,
                 "pop": pop, "ops": [["all_methods", seed]]}
            if cfg is not None:
                c["cfg"] = cfg
            return c

        METHOD_ALGOS = [("DQN", False), ("RainbowDQN", False), ("TD3", False), ("TD3", True), ("PPO", False), ("NeuralTS", False),
                        ("MATD3", False), ("IPPO", False)]
        OBS_FAMILIES = ["vector", "image", "dictimg", "discrete"]
        QUICK_DEFAULT = {"DQN": ["vector", "discrete"], "RainbowDQN": OBS_FAMILIES, "TD3": OBS_FAMILIES, "PPO": ["vector", "dictimg", "discrete"],
                         "NeuralTS": ["vector", "image"], "MATD3": ["vector", "dictimg"], "IPPO": ["vector", "image"]}
        QUICK_ATMAX = {"DQN": ["vector"], "RainbowDQN": ["vector", "image"], "TD3": ["vector", "image", "dictimg"], "PPO": ["vector", "dictimg"],
                       "NeuralTS": ["vector"], "MATD3": ["vector"], "IPPO": ["vector"]}
        QUICK_ATMIN = {"TD3": ["vector", "image"], "PPO": ["vector"], "MATD3": ["vector"]}
        for algo, share in METHOD_ALGOS:
            for fam in OBS_FAMILIES + ([] if tier == "quick" else ["dict"]):
                if algo in evo.BANDIT and fam == "discrete":
                    continue
                if only and only not in ("methods", algo):
                    continue
                q = tier == "quick"
                if not q or (fam in QUICK_DEFAULT.get(algo, []) and not share) or (share and fam == "vector"):
                    cases.append(methods(algo, fam, share, "default", 1))
                if (not q and fam in ("vector", "image", "dictimg")) or (q and fam in QUICK_ATMAX.get(algo, []) and not share) or (q and share and fam == "vector"):
                    cases.append(methods(algo, fam, share, "atmax", 2))
                if (not q and fam in ("vector", "image")) or (q and fam in QUICK_ATMIN.get(algo, []) and not share):
                    cases.append(methods(algo, fam, share, "atmin", 3))
        if only == "methods":
            cases = [c for c in cases if c["ops"] and c["ops"][0][0] == "all_methods"]
            self._precompute(cases)
            return cases
        def actchain(algo, family, selection, n, seed, pop=2):
            """n consecutive activation mutations (probability 1) of the whole population through ONE Mutations object built
            with the default selection or with a caller-owned list, everybody trained in between twice, then a SECOND
            Mutations object with the default selection created afterwards and used once"""
            r = random.Random(f"C02-act-{algo}-{family}-{seed}")
            ops = []
            for j in range(n):
                ops.append(["mutate", {"probs": [0, 0, 0, 1, 0], "mobj": "A", "selection": selection}, seed + j, False])
                if j in (0, n - 1):
                    ops += train_all(pop, r, act=(j == 0))
            ops.append(["mutate", {"probs": [0, 0, 0, 1, 0], "mobj": "B", "selection": "default"}, seed + 50, False])
            ops.append(["mutate", {"probs": [0, 0, 0, 1, 0], "mobj": "B", "selection": "default"}, seed + 51, False])
            ops += train_all(pop, r, act=False)
            return {"algo": algo, "family": family, "share": False, "netcfg": "none" if family == "dictimg" else "partial", "seed": seed,
                    "pop": pop, "ops": ops}

        def mchain(algo, share, seed, pop=3):
            """the output of Mutations.mutation is mutated again, and again (no training in between), through ONE Mutations
            object with scripted-by-probability kinds; everybody acts and learns; tournament selection builds new agent
            objects and the SAME Mutations object mutates that population too (mutate_elite=False the second time is a
            separate object)"""
            r = random.Random(f"C02-mchain-{algo}-{share}-{seed}")
            ops = train_all(pop, r, act=False)
            for j, p in enumerate(([0, 1, 0, 0, 0], [0, 0, 1, 0, 0], [0, 0, 0, 0, 1], [0, 1, 1, 1, 1])):
                ops.append(["mutate", {"probs": p, "mobj": "M%d" % j, "selection": "default"}, seed + j, False])
            ops += train_all(pop, r)
            ops += selection(pop, r)
            for j in (0, 2, 1):
                ops.append(["mutate", {"probs": [0, 1, 0, 0, 0] if j == 0 else ([0, 0, 0, 0, 1] if j == 2 else [0, 0, 1, 0, 0]),
                                       "mobj": "M%d" % j, "selection": "default"}, seed + 10 + j, False])
            ops.append(["mutate", {"probs": [0, 1, 0, 0, 1], "mobj": "E", "selection": "default", "mutate_elite": False}, seed + 20, False])
            ops += train_all(pop, r, act=False)
            return {"algo": algo, "family": "vector", "share": share, "netcfg": "partial", "seed": seed, "pop": pop, "ops": ops}

        for algo, share in (("TD3", True), ("PPO", False), ("DQN", False), ("MADDPG", False)):
            if only and only not in ("mchain", algo):
                continue
            cases.append(mchain(algo, share, 5))
        if only == "mchain":
            cases = [c for c in cases if any(o[0] == "mutate" and str(o[1].get("mobj", "")).startswith("M") for o in c["ops"])]
            self._precompute(cases)
            return cases
        for algo, fam, sel, n in (("DQN", "vector", "default", 5), ("RainbowDQN", "vector", ["Tanh", "ELU", "GELU", "ReLU"], 6),
                                  ("CQN", "image", ["ELU", "GELU"], 4), ("NeuralTS", "vector", "default", 3),
                                  ("NeuralUCB", "dictimg", ["GELU", "Tanh", "ELU"], 4)):
            if only and only not in ("actchain", algo):
                continue
            cases.append(actchain(algo, fam, sel, n, 7))
        if only == "actchain":
            cases = [c for c in cases if any(o[0] == "mutate" and o[1].get("mobj") for o in c["ops"])]
            self._precompute(cases)
            return cases
        ACTOR_CRITIC = ["DDPG", "TD3", "PPO", "MADDPG", "MATD3", "IPPO"]
        only = os.environ.get("VERIF_C02_ONLY")      # developer shortcut for the mutation self-test (never registered)
        for algo in evo.ALGOS:
            for share in ([False, True] if algo in evo.SHARE_CAPABLE else [False]):
                if only and only not in ("boundary", algo):
                    continue
                cases.append(boundary(algo, share, 1))
        for algo in ACTOR_CRITIC:
            for share in ([False, True] if algo in evo.SHARE_CAPABLE else [False]):
                if only and only not in ("boundary", "bounds", algo):
                    continue
                for si, side in enumerate(("max", "min")):
                    if tier == "quick" and (ACTOR_CRITIC.index(algo) + int(share) + si) % 2:
                        continue            # quick: one side per variant, alternating (the other side runs in thorough)
                    for sd in ((1,) if tier == "quick" else (1, 2, 3)):
                        cases.append(bounds(algo, share, side, sd))
        if only == "bounds":
            cases = [c for c in cases if str(c["netcfg"]).startswith("bound-")]
        if only:
            self._precompute(cases)
            return cases
        if tier == "quick":
            for algo in evo.ALGOS:
                cases.append(seeded(algo, "vector", algo in evo.SHARE_CAPABLE and rng.random() < 0.5,
                                    rng.choice(["partial", "full", "none"]), 3, rng.randrange(100), 3))
            for algo, fam in (("PPO", "dict"), ("DDPG", "discrete")):      # the other families: method-forcing histories
                cases.append(seeded(algo, fam, False, "partial", 2, rng.randrange(100), 2))
            # custom encoder selected by alias (EvolvableResNet): its channel / block mutations, then rebuilds
            cases.append(boundary("DQN", False, 3, family="image", netcfg="resnet"))
        else:
            for algo in evo.ALGOS:
                for share in ([False, True] if algo in evo.SHARE_CAPABLE else [False]):
                    cases.append(boundary(algo, share, 2, netcfg="full"))
                for fam in evo.FAMILIES:
                    if algo in evo.BANDIT and fam == "discrete":
                        # bandit contexts are feature vectors: learn() does not one-hot a Discrete context, the engine's
                        # batch of B scalars is only accepted by coincidence when B equals the space size (precondition
                        # of the code, not a bound of the proofs)
                        continue
                    for share in ([False, True] if algo in evo.SHARE_CAPABLE else [False]):
                        for rep in range(2):
                            cases.append(seeded(algo, fam, share, rng.choice(["partial", "full", "none"]), 5,
                                                rng.randrange(1000), rng.choice([2, 3, 4])))
            for algo in evo.RESNET_ALGOS:          # custom ResNet encoder (appended last: earlier draws are unchanged)
                cases.append(boundary(algo, False, 3, family="image", netcfg="resnet"))
                cases.append(seeded(algo, "image", False, "resnet", 4, rng.randrange(1000), 3))
        self._precompute(cases)
        return cases

    # ------------------------------------------------------------------ implementation
    def _precompute(self, cases):
        """run the implementation on the generated cases in a few worker processes (the observations are plain data);
        run_impl then returns the stored observation.  A case that fails in a worker is re-run in this process so that
        the error is reported by the normal path."""
        self._cache = {}
        cases = list(self.corpus()) + list(cases)        # the stored cases are run by the same workers
        nw = int(os.environ.get("VERIF_C02_WORKERS", "4"))
        if nw <= 1 or len(cases) < 3:
            return
        import multiprocessing as mp
        try:
            with mp.get_context("spawn").Pool(nw) as pool:
                res = pool.map(_pool_run, cases, chunksize=1)
        except Exception:
            return
        for c, r in zip(cases, res):
            if r is not None:
                self._cache[json.dumps(c, sort_keys=True)] = r

    def run_impl(self, case):
        cached = getattr(self, "_cache", {}).pop(json.dumps(case, sort_keys=True), None)
        if cached is not None:
            return cached
        return self._run_impl(case)

    def _run_impl(self, case):
        import torch
        import numpy as np
        torch.set_num_threads(1)
        spec = {k: case[k] for k in ("algo", "family", "share", "netcfg", "seed")}
        shared_cfg = json.loads(json.dumps(case["cfg"])) if case.get("cfg") else evo.net_config_for(case["netcfg"], case["family"])
        hp = evo.hp_config_for(case["algo"])
        pop = [evo.build_agent(dict(spec, index=i, _hp_obj=hp), shared_cfg=shared_cfg) for i in range(case["pop"])]
        reg = evo.registry_plus(pop[0])
        evals = [g["eval"] for g in reg["groups"]]
        Rec = _recording_mutations()
        states = [self._snap(pop)]
        recs = []
        ops_run = []
        mobjs, callers, origs = {}, {}, {}      # Mutations objects that live across several steps of one history
        for op0 in case["ops"]:
            if op0[0] == "all_methods":
                # every mutation method the policy advertises (nested ones included), each forced once on every member,
                # each followed by act + learn of every member; the method list is read from the real policy network
                r_ = random.Random(f"C02-am-{op0[1]}")
                pol_ = evo._modules_of(getattr(evo.unwrap(pop[0]), reg["policy"]))[0]
                for meth_ in sorted(pol_.mutation_methods):
                    ops_run.append(["mutate", {"kinds": ["arch"] * len(pop), "methods": [meth_]}, r_.randrange(1000), False])
                    ops_run += [["train", i, r_.randrange(1000), True] for i in range(len(pop))]
            else:
                ops_run.append(op0)
        for op in ops_run:
            rec = {"op": op[0]}
            k = op[0]
            if k == "mutate":
                mspec, seed, pre = op[1], op[2], op[3]
                mkey = mspec.get("mobj")
                if mkey is not None and mkey in mobjs:
                    m = mobjs[mkey]                      # the SAME Mutations object as in an earlier step
                    m.log = []
                elif mkey is not None:
                    p = mspec["probs"]
                    kw_ = {}
                    if mspec.get("selection") not in (None, "default"):
                        callers[mkey] = list(mspec["selection"])          # a caller-owned list, handed to the constructor
                        kw_["activation_selection"] = callers[mkey]
                    m = Rec(p[0], p[1], 0.3, p[2], p[3], p[4], mutation_sd=0.1, rand_seed=int(seed) % 100000, device="cpu",
                            mutate_elite=mspec.get("mutate_elite", True), **kw_)
                    mobjs[mkey] = m
                    rec["sel_at_creation"] = list(m.activation_selection)
                    origs[mkey] = list(mspec["selection"]) if mkey in callers else list(DEFAULT_SELECTION)
                elif "kinds" in mspec:
                    m = Rec(1, 1, 0.3, 1, 1, 1, mutation_sd=0.1, rand_seed=int(seed) % 100000, device="cpu",
                            mutate_elite=mspec.get("mutate_elite", True))
                    table = {"none": m.no_mutation, "arch": m.architecture_mutate, "param": m.parameter_mutation,
                             "act": m.activation_mutation, "hp": m.rl_hyperparam_mutation}
                    ks = (list(mspec["kinds"]) * len(pop))[:len(pop)]
                    m.rng = _ScriptedRng(m.rng, [table[x] for x in ks])
                else:
                    p = mspec["probs"]
                    m = Rec(p[0], p[1], 0.3, p[2], p[3], p[4], mutation_sd=0.1, rand_seed=int(seed) % 100000, device="cpu",
                            mutate_elite=mspec.get("mutate_elite", True))
                evo.seed_all(int(seed) + 4242)
                forced = None
                if mspec.get("methods"):
                    # the architecture method the policy "samples" is scripted (module-level helper of mutation.py replaced
                    # in this process for the duration of the call); everything after the draw is the real code
                    import agilerl.hpo.mutation as _mm
                    ks_ = (list(mspec.get("kinds", [])) * len(pop))[:len(pop)]
                    queue = [mspec["methods"][i % len(mspec["methods"])] for i in range(len(pop)) if i < len(ks_) and ks_[i] == "arch"]
                    orig_sampler = _mm.get_architecture_mut_method

                    def forced(ev, prob, rng, _q=queue, _o=orig_sampler):
                        want = _q.pop(0) if _q else None
                        pol_ = ev[0] if isinstance(ev, list) else ev
                        if want is not None and want in pol_.mutation_methods:
                            return want
                        return _o(ev, prob, rng)
                    _mm.get_architecture_mut_method = forced
                before_full = [{n: evo.arch_descr(evo.unwrap(a), n) for n in evals} for a in pop]
                before_mods = [{n: [getattr(mm, "_orig_mod", mm) for mm in evo._modules_of(getattr(evo.unwrap(a), n))] for n in evals} for a in pop]
                idx_before = [int(evo.unwrap(a).index) for a in pop]
                act_before = [{n: [getattr(getattr(mm, "_orig_mod", mm), "activation", None) for mm in evo._modules_of(getattr(evo.unwrap(a), n))]
                               for n in evals} for a in pop]
                sel_orig = origs[mkey] if mkey is not None else list(m.activation_selection)
                ids_before = [id(a) for a in pop]
                pop_arg = list(pop)            # the list object handed to Mutations.mutation (the harness keeps its own)
                # sub-configurations must be read before the call (the methods are only known afterwards): keep the
                # init_dicts as canonical JSON
                before_init = [{n: [json.dumps(_clean(mm.init_dict), sort_keys=True) for mm in before_mods[i][n]] for n in evals}
                               for i in range(len(pop))]
                try:
                    try:
                        out = m.mutation(pop_arg, pre_training_mut=bool(pre))
                    finally:
                        if forced is not None:
                            _mm.get_architecture_mut_method = orig_sampler
                except Exception as e:      # the property presupposes that a population can be mutated at all
                    import traceback
                    rec["kinds"] = list(m.log)
                    rec["mutation_error"] = f"{type(e).__name__}: {e}"
                    rec["mutation_trace"] = traceback.format_exc()[-1200:]
                    recs.append(rec)
                    return {"reg": reg, "states": states, "recs": recs, "aborted": True, "ops": ops_run}
                rec["kinds"] = list(m.log)
                rec["len_before"], rec["len_after"] = len(pop), len(out)
                rec["idx_before"], rec["idx_after"] = idx_before, [int(evo.unwrap(a).index) for a in out]
                rec["same_objects"] = [id(a) == b for a, b in zip(out, ids_before)]
                rec["arg_ids_after"] = [id(a) for a in pop_arg]
                rec["arg_ids_before"] = ids_before
                rec["labels"] = [evo.unwrap(a).mut for a in out]
                import inspect as _insp
                from agilerl.hpo.mutation import Mutations as _M
                rec["act"] = {"orig": sel_orig, "sel_after": list(m.activation_selection),
                              "caller_after": list(callers[mkey]) if mkey in callers else None,
                              "default_after": list(_insp.signature(_M.__init__).parameters["activation_selection"].default),
                              "nets": [{n: [act_before[i][n], [getattr(getattr(mm, "_orig_mod", mm), "activation", None)
                                                               for mm in evo._modules_of(getattr(evo.unwrap(a), n))]] for n in evals}
                                       for i, a in enumerate(out)]}
                rec["members"] = []
                for i, a in enumerate(out):
                    a = evo.unwrap(a)
                    label = a.mut
                    mem = {"opt": _opt_identity(a), "policy": reg["policy"]}
                    if i < len(m.log) and m.log[i] == "arch":
                        meth = label if label not in (None, "None") else None
                        tr = {}
                        for n in evals:
                            after_init = [json.dumps(_clean(getattr(mm, "_orig_mod", mm).init_dict), sort_keys=True)
                                          for mm in evo._modules_of(getattr(a, n))]
                            tr[n] = {"full": [json.dumps(before_init[i][n]), json.dumps(after_init)],
                                     "sub": [_sub_json(before_init[i][n], meth), _sub_json(after_init, meth)]}
                            tr[n]["delta"] = _delta(tr[n]["sub"][0], tr[n]["sub"][1])
                            # the sub-agents of a multi-agent network list receive the same change (when they were equal)
                            # every sub-agent network of a multi-agent list had the method applied to it (each draws its own
                            # arguments — observed behaviour of the code, the critics mirror them index by index)
                            attrs_ = [getattr(getattr(mm, "_orig_mod", mm), "last_mutation_attr", None) for mm in evo._modules_of(getattr(a, n))]
                            tr[n]["applied"] = attrs_
                            tr[n]["intra"] = None if len(attrs_) < 2 else not (attrs_[0] is not None and any(x is None for x in attrs_[1:]))
                        # a network's delta is comparable with the policy's when the entries either of them changed, and
                        # the limits, had the same values in both before the mutation (the same call on different sizes
                        # legitimately has a different effect), and its configuration is maintained at all (the encoder
                        # configuration of a hook-shared encoder is not)
                        pol_n = reg["policy"]
                        for n in evals:
                            if n == pol_n:
                                continue
                            skip = meth is not None and meth.startswith("encoder.") and n in reg.get("share_others", [])
                            if skip or not _comparable(tr[n], tr[pol_n]):
                                tr[n]["delta"] = None
                        mem["arch"] = {"method": meth, "label": label, "trans": tr,
                                       "methods": list(evo._modules_of(getattr(a, reg["policy"]))[0].mutation_methods)}
                    hc = a.registry.hp_config
                    mem["hp_names"] = list(hc.names()) if hc else []
                    mem["follow"] = _follow_outputs(a, reg, int(seed) + i)
                    rec["members"].append(mem)
                pop = list(out)
            elif k == "train":
                i = op[1]
                a = evo.unwrap(pop[i])
                if op[3]:
                    try:
                        rec["action"] = evo.greedy(pop[i], spec, op[2])
                    except Exception as e:      # the property says the agent can still act
                        rec["act_error"] = f"{type(e).__name__}: {e}"
                reps = int(getattr(a, "policy_freq", 1) or 1)
                before = {s[0]: s[3] for s in evo.all_slots(pop[i])}
                losses = []
                try:
                    for r_ in range(reps):
                        losses.append(evo.learn(pop[i], spec, op[2] + 17 * r_))
                except Exception as e:      # the property says the agent can still be trained
                    rec["error"] = f"{type(e).__name__}: {e}"
                rec["loss"] = losses
                rec["reps"] = reps
            elif k == "scores":
                for i, x in enumerate(op[1]):
                    evo.apply_score(pop[i], x)
            elif k == "select":
                newpop, best = evo.apply_select(pop, op[1], elitism=op[2])
                rec["elite"] = best
                pop = newpop[:-1]               # the returned elite object is not part of the next generation
                del newpop
                gc.collect()
            else:
                raise ValueError(k)
            recs.append(rec)
            if k == "train":
                # only member i can have changed (that nobody else does is property C01's frame clause)
                i = op[1]
                mine = self._snap([pop[i]])[0]
                states.append(states[-1][:i] + [mine] + states[-1][i + 1:])
                oi = _opt_identity(evo.unwrap(pop[i]))
                trained = {n for d in oi.values() for n in d["nets"]}
                # a tensor whose gradient is exactly zero (dead units of a tiny network) or absent legitimately stays put:
                # "moved" is demanded of every trained tensor that received a non-zero gradient in the last backward pass
                grads = _grad_sums(evo.unwrap(pop[i]), trained)
                still = [s[0] for s in mine["slots"] if s[1] in ("enc", "head")
                         and s[0].split(".")[0].split("[")[0] in trained and before.get(s[0]) == s[3]]
                rec["unchanged_trained"] = [n for n in still if grads.get(n)]
                rec["zero_grad"] = [n for n in still if not grads.get(n)]
                # positions (canonical slot order of the whole population) whose value changed (or is excused as above)
                pos, ch = 0, []
                excused = set(rec["zero_grad"])
                for j, ag in enumerate(states[-1]):
                    for s in ag["slots"]:
                        if j == i and (before.get(s[0]) != s[3] or s[0] in excused):
                            ch.append(pos)
                        pos += 1
                rec["changed_pos"] = ch
            else:
                states.append(self._snap(pop))
        return {"reg": reg, "states": states, "recs": recs, "ops": ops_run}

    @staticmethod
    def _snap(pop):
        out = []
        for ag, obj in zip(evo.snapshot(pop), pop):
            a = evo.unwrap(obj)
            for n, d in ag["struct"]["nets"].items():
                # the descriptor also carries the LAYER structure actually built (types of all sub-modules by name): two
                # networks with equal init_dicts and equal state-dict keys can still differ in their activation layers
                d["arch"] = d["arch"] + "|layers:" + _layers_sig(getattr(a, n))
            out.append({"slots": [[s[0], s[1], list(s[2]), s[3]] for s in ag["slots"]], "struct": ag["struct"]})
        return out

    # ------------------------------------------------------------------ model term
    def signature_of_case(self, case):
        """site of a model/implementation disagreement that has no failing input: space family and algorithm"""
        fam = "" if case.get("family", "vector") == "vector" else "@" + case["family"]
        return f"{fam}:{case['algo']}{'+share' if case.get('share') else ''}"

    def coq_term(self, case, obs):
        if obs.get("aborted"):
            return None
        tab = evo.Tables()
        reg = obs["reg"]
        for st in obs["states"]:
            for ag in st:
                for s in ag["slots"]:
                    tab.val(s[3])
        nvals = len(tab.vals)
        try:
            regterm = evo.coq_registry(reg, tab, case["algo"])
        except ValueError:
            return "false"
        w0 = evo.coq_world(obs["states"][0], reg, tab, regterm, nvals)
        evals = [g["eval"] for g in reg["groups"]]
        sub_ids, ptab = {}, {}

        def sid(x):
            return sub_ids.setdefault(x, len(sub_ids) + 1)

        def entry(ag):
            # alias classes are numbered per case: observations taken at different steps are put side by side
            alias = _pack(ptab.setdefault(tuple(s_[2]), len(ptab)) for s_ in ag["slots"])
            vals = _pack(tab.val(s_[3]) for s_ in ag["slots"])
            return f"({evo.coq_aobs(ag, reg, tab)}, {alias}, {vals})"
        gsteps = []
        for op, rec, before, after in zip(obs.get("ops", case["ops"]), obs["recs"], obs["states"], obs["states"][1:]):
            k = op[0]
            ops, learn, arch = [], "None", []
            if k == "train":
                st = after[op[1]]["struct"]["opts"]
                one = "Learn {}%nat [{}]".format(op[1], "; ".join(f"({tab.name(o)}, {d['nstate']}%nat)" for o, d in st.items()))
                ops = ([f"Act {op[1]}%nat"] if op[3] else []) + [one] * max(1, rec.get("reps", 1))
                learn = "(Some ({}%nat, {}))".format(op[1], _pack(rec.get("changed_pos", [])))
            elif k == "scores":
                ops = [f"Score {i}%nat" for i in range(len(op[1]))]
            elif k == "select":
                ops = ["Select {}%nat [{}] {}".format(rec["elite"], "; ".join(f"{d}%nat" for d in op[1]), "true" if op[2] else "false"),
                       f"Discard {len(op[1]) + (1 if op[2] else 0)}%nat"]
            elif k == "mutate":
                if len(rec["kinds"]) != len(after) or len(before) != len(after):
                    return "false"
                for i, kind in enumerate(rec["kinds"]):
                    label = rec["labels"][i]
                    a = after[i]["struct"]
                    shapes = "; ".join("mkShape {} {} {}%nat {}%nat {}%nat {}%nat {}%nat {}%nat".format(
                        tab.name(n), tab.arch(a["nets"][n]["arch"]), a["nets"][n]["enc"], a["nets"][n]["head"],
                        a["nets"][n]["henc"], a["nets"][n]["const"], a["nets"][n]["cfg"], a["nets"][n]["buf"]) for n in evals)
                    if kind == "act":
                        mk = "MAct"        # re-creates networks and optimizers even when it ends with the label "None"
                    elif kind == "arch":
                        # "no mutation methods": label is the string "None", nothing is touched; a sampled method that hits a
                        # bound still replaces the networks by their offspring (label None)
                        mk = "MNone" if label == "None" else "MArch"
                    elif kind == "none" or label in (None, "None"):
                        mk = "MNone"
                    elif kind == "param":
                        mk = "MParam"
                    else:
                        if label not in a["hps"] or not isinstance(a["hps"][label], float):
                            return "false"
                        mk = f"(MHp {tab.name(label)} {evo._q(a['hps'][label])})"
                    ops.append(f"Mutate {i}%nat {mk} [{shapes}] {tab.label(label)}")
                    ar = rec["members"][i].get("arch")
                    if ar is not None and mk == "MArch":
                        pol = reg["policy"]

                        def at(n):
                            t = ar["trans"][n]
                            dl = 0 if t.get("delta") is None else sid("delta:" + t["delta"])
                            return "(mkAT ({}, {}) ({}, {}) {})".format(sid(t["sub"][0]), sid(t["sub"][1]), sid(t["full"][0]), sid(t["full"][1]), dl)
                        arch.append("(mkAF {} {} [{}])".format("true" if ar["method"] is not None else "false", at(pol),
                                                              "; ".join(at(n) for n in evals if n != pol)))
            if k == "train":
                change = f"(Upd [({op[1]}%nat, {entry(after[op[1]])})])"
            else:
                change = "(Full [{}])".format("; ".join(entry(ag) for ag in after))
            acts = []
            ac = rec.get("act") if k == "mutate" else None
            if ac:
                ids = lambda l: "[" + "; ".join(str(sid("act:" + str(x))) for x in l) + "]"
                for i, kind in enumerate(rec["kinds"]):
                    if kind == "act" and rec["labels"][i] == "act" and i < len(ac["nets"]):
                        for n, (bef, aft) in ac["nets"][i].items():
                            for b_, a_ in zip(bef, aft):
                                acts.append("(mkAct {} {} {} {})".format(ids(ac["orig"]), sid("act:" + str(b_)), sid("act:" + str(a_)), ids(ac["sel_after"])))
            gsteps.append("(mkG [{}] {} {} [{}] [{}])".format("; ".join(ops), change, learn, "; ".join(arch), "; ".join(acts)))
        p0 = "; ".join(entry(ag) for ag in obs["states"][0])
        return f"check_run2 {w0} [{p0}] [{'; '.join(gsteps)}]"

    # ------------------------------------------------------------------ oracle: the property on the implementation
    def oracle(self, case, obs):
        out = []
        algo = case["algo"]
        reg = obs["reg"]
        states, recs = obs["states"], obs["recs"]
        shared_of = {s: g["eval"] for g in reg["groups"] for s in g["shared"]}

        def sig(clause, what):
            fam = "" if case.get("family", "vector") == "vector" else "@" + case["family"]
            return f"{clause}{fam}:{algo}{'+share' if case.get('share') else ''}:{what}"

        ops_all = obs.get("ops", case["ops"])
        for t, (op, rec) in enumerate(zip(ops_all, recs)):
            if len(out) > 6:
                break
            before, after = states[t], states[min(t + 1, len(states) - 1)]
            k = op[0]
            what = f"step {t} {json.dumps(op)[:70]}"
            if k == "mutate" and rec.get("mutation_error"):
                kinds = rec.get("kinds", [])
                out.append(Violation("mutation-raises", sig("mutationraises", (kinds[-1] if kinds else "?") + ":" + rec["mutation_error"].split(":")[0]),
                                     f"{what}: Mutations.mutation raised while applying '{kinds[-1] if kinds else '?'}' to member {max(len(kinds) - 1, 0)}: "
                                     f"{rec['mutation_error'][:200]}\n{rec.get('mutation_trace', '')[-700:]}"))
                break
            if k == "mutate":
                # population shape: size, order, one mutation function per member
                if rec["len_before"] != rec["len_after"] or rec["idx_before"] != rec["idx_after"]:
                    out.append(Violation("shape", sig("shape", "population"),
                                         f"{what}: population changed size/order: indices {rec['idx_before']} -> {rec['idx_after']}"))
                    continue
                if len(rec["kinds"]) != rec["len_after"]:
                    out.append(Violation("shape", sig("shape", "calls"),
                                         f"{what}: {len(rec['kinds'])} mutation functions were applied to {rec['len_after']} members"))
                    continue
                if rec.get("arg_ids_after") is not None and rec["arg_ids_after"] != rec["arg_ids_before"]:
                    out.append(Violation("argument-modified", sig("argmodified", "population"),
                                         f"{what}: Mutations.mutation modified the population list it was handed: {len(rec['arg_ids_before'])} members "
                                         f"before, {len(rec['arg_ids_after'])} after / other order"))
                ac = rec.get("act")
                if ac:
                    # the selection of the Mutations object, the caller's list and the default-argument list are never consumed
                    for what_, got, want in (("object", ac["sel_after"], ac["orig"]), ("caller", ac["caller_after"], ac["orig"]),
                                             ("default", ac["default_after"], DEFAULT_SELECTION),
                                             ("creation", rec.get("sel_at_creation"), ac["orig"])):
                        if got is not None and list(got) != list(want):
                            out.append(Violation("act-selection", sig("actselection", what_),
                                                 f"{what}: the activation selection ({what_}) is {got} after the call, it was {want}"))
                            break
                    # an agent that reports "act" has, in every evaluation network, another activation out of the ORIGINAL selection
                    for i, kind in enumerate(rec["kinds"]):
                        if kind != "act" or rec["labels"][i] != "act" or i >= len(ac["nets"]):
                            continue
                        for n, (bef, aft) in ac["nets"][i].items():
                            for b_, a_ in zip(bef, aft):
                                opts = list(ac["orig"])
                                if len(opts) > 1 and b_ in opts:
                                    opts.remove(b_)
                                if a_ not in opts:
                                    out.append(Violation("act-changed", sig("actchanged", "same" if a_ == b_ else "outside"),
                                                         f"{what}: member {i} reports 'act' but {n} went from activation {b_} to {a_}; "
                                                         f"candidates were {opts} (selection {ac['orig']})"))
                                    break
                            else:
                                continue
                            break
                if op[1].get("mutate_elite") is False and rec["kinds"] and rec["kinds"][0] != "none":
                    out.append(Violation("elite", sig("elite", rec["kinds"][0]),
                                         f"{what}: mutate_elite=False but the first member (the elite) received a '{rec['kinds'][0]}' mutation"))
                for i, kind in enumerate(rec["kinds"]):
                    mem, st = rec["members"][i], after[i]["struct"]
                    label = rec["labels"][i]
                    who = f"{what}: member {i} (index {st['index']}, kind {kind}, label {label})"
                    # label
                    ok_label = {"none": label == "None", "param": label == "param", "act": label in ("act", "None"),
                                "hp": (label in mem["hp_names"]) or (not mem["hp_names"] and label == "None"),
                                "arch": label in (None, "None") or label in (mem.get("arch") or {}).get("methods", [])}[kind]
                    if not ok_label:
                        out.append(Violation("label", sig("label", kind), f"{who}: the member does not report the mutation it received"))
                    # optimizers: exactly the live parameters of the registered networks, at the agent's learning rate
                    for o, d in mem["opt"].items():
                        if not d["set_ok"] or d["dup"]:
                            out.append(Violation("optimizer-params", sig("optrefs", kind),
                                                 f"{who}: optimizer {o} holds {d['n']} parameters, its networks {d['nets']} have {d['nwant']}; "
                                                 f"the two sets of tensors are {'different' if not d['set_ok'] else 'equal but with duplicates'}"))
                            break
                        if any(x != d["attr_lr"] for x in d["lrs"]) or d["wrapper_lr"] != d["attr_lr"]:
                            out.append(Violation("optimizer-lr", sig("optlr", kind),
                                                 f"{who}: optimizer {o} uses lr {d['lrs']} (wrapper {d['wrapper_lr']}) but agent.{d['lr_name']} = {d['attr_lr']}"))
                            break
                    # shared / target networks compute the same function as the network they shadow right after the mutation
                    for s_name, fo in (mem.get("follow") or {}).items():
                        if fo["status"] == "differ":
                            out.append(Violation("shared-function", sig("sharedfunction", kind),
                                                 f"{who}: right after the mutation {s_name} and {shared_of.get(s_name)} (equal mode, equal noise, same probe "
                                                 f"batch) compute different outputs: {fo['detail'][:200]}"))
                            break
                    # shared / target networks: architecture and (right after the mutation) weights of the network they shadow
                    vals = {s[0]: s[3] for s in after[i]["slots"]}
                    for s_name, e_name in shared_of.items():
                        if st["nets"][s_name]["arch"] != st["nets"][e_name]["arch"]:
                            out.append(Violation("shared-arch", sig("sharedarch", kind),
                                                 f"{who}: {s_name} was not rebuilt with the architecture of {e_name}: "
                                                 f"{st['nets'][s_name]['arch'][:200]} vs {st['nets'][e_name]['arch'][:200]}"))
                            break
                        bad = [n for n, v in vals.items() if n.split(".")[0].split("[")[0] == s_name and ".init_dict." not in n
                               and (e_name + n[len(s_name):]) in vals and vals[e_name + n[len(s_name):]] != v]
                        miss = [n for n in vals if n.split(".")[0].split("[")[0] == e_name and ".init_dict." not in n
                                and (s_name + n[len(e_name):]) not in vals]
                        if bad or miss:
                            out.append(Violation("shared-weights", sig("sharedweights", kind),
                                                 f"{who}: right after the mutation {s_name} differs from {e_name} in {bad[:4]} (missing {miss[:3]})"))
                            break
                    # every evaluation network follows the policy's architecture change
                    ar = mem.get("arch")
                    if ar is not None and label != "None":
                        pol = mem["policy"]
                        pt = ar["trans"][pol]
                        for n, tr in ar["trans"].items():
                            if tr.get("intra") is False:
                                out.append(Violation("arch-follow", sig("archsubagents", (ar["method"] or "noop").split(".")[-1]),
                                                     f"{who}: the mutation was applied to the first sub-agent network of {n} only: last_mutation_attr = {tr.get('applied')}"))
                                break
                            if n == pol:
                                continue
                            if ar["method"] is None:
                                if tr["full"][0] != tr["full"][1]:
                                    out.append(Violation("arch-follow", sig("archfollow", "noop"),
                                                         f"{who}: the policy's mutation was a no-op but {n} changed its architecture"))
                                    break
                            elif tr.get("delta") is not None and pt.get("delta") is not None and tr["delta"] != pt["delta"]:
                                out.append(Violation("arch-follow", sig("archdelta", ar["method"].split(".")[-1]),
                                                     f"{who}: the policy's {ar['method']} changed its configuration by {pt['delta'][:160]} "
                                                     f"but {n} changed by {tr['delta'][:160]}"))
                                break
                            elif tr["sub"][0] == pt["sub"][0] and tr["sub"][1] != pt["sub"][1]:
                                out.append(Violation("arch-follow", sig("archfollow", ar["method"].split(".")[-1]),
                                                     f"{who}: {n} had the policy's {ar['method'].split('.')[0]} configuration before the mutation and a "
                                                     f"different one after it: {tr['sub'][1][:160]} vs policy {pt['sub'][1][:160]}"))
                                break
            elif k == "train":
                lk = self._last_kind({"ops": ops_all}, recs, t, op[1])
                if rec.get("act_error"):
                    out.append(Violation("act", sig("act", lk), f"{what}: get_action fails after the mutation: {rec['act_error'][:300]}"))
                if rec.get("error"):
                    out.append(Violation("learn", sig("learn", lk), f"{what}: learn fails after the mutation: {rec['error'][:300]}"))
                elif rec.get("unchanged_trained"):
                    out.append(Violation("learn-moves", sig("learnmoves", lk),
                                         f"{what}: {rec['reps']} learn step(s) left trained tensors unchanged: {rec['unchanged_trained'][:5]}"))
                st = after[op[1]]["struct"]
                for o, d in st["opts"].items():
                    if not d["refs_ok"]:
                        out.append(Violation("optimizer-params", sig("optrefs", "learn"), f"{what}: optimizer {o} does not hold its networks' parameters after learn"))
        return out

    @staticmethod
    def _last_kind(case, recs, t, i):
        """kind of the most recent mutation of member i before step t (selection in between: 'selected')"""
        for u in range(t - 1, -1, -1):
            if case["ops"][u][0] == "select":
                return "selected"
            if case["ops"][u][0] == "mutate" and i < len(recs[u].get("kinds", [])):
                return recs[u]["kinds"][i]
        return "fresh"

    # ------------------------------------------------------------------ evidence helpers
    def extra_static(self):
        """fail closed if an algorithm's registry has a hook / shape the model does not know"""
        out = []
        self.notes = []
        for algo in evo.ALGOS:
            for share in ([False, True] if algo in evo.SHARE_CAPABLE else [False]):
                a = evo.build_agent({"algo": algo, "family": "vector", "share": share, "netcfg": "partial", "seed": 0, "index": 0})
                r = evo.registry_plus(a)
                self.notes.append("registry {}{}: groups={} optimizers={} hooks={} share_others={}".format(
                    algo, "+share" if share else "", [(g["eval"], g["shared"], g["policy"]) for g in r["groups"]],
                    [(o["name"], o["nets"], o["lr"]) for o in r["opts"]], r["hooks"], r["share_others"]))
                for h in a.registry.hooks:
                    if h not in ("init_hook", "share_encoder_parameters", "init_params"):
                        out.append(Violation("coverage", f"coverage:hook:{algo}", f"{algo}: mutation hook {h!r} has no model", None, None, found_input=False))
                if sum(1 for g in r["groups"] if g["policy"]) != 1:
                    out.append(Violation("coverage", f"coverage:policy:{algo}", f"{algo}: registry does not name exactly one policy group", None, None, found_input=False))
        return out

    def key(self, case):
        def k(o):
            if o[0] != "mutate":
                return o[0]
            return "mutate:" + json.dumps(o[1], sort_keys=True) + (":pre" if o[3] else "")
        return json.dumps([case["algo"], case["family"], case["share"], case["netcfg"], case["pop"], [k(o) for o in case["ops"]]])

    def nontrivial(self, case, obs):
        if obs.get("aborted"):
            return False
        ops, recs = obs.get("ops", case["ops"]), obs["recs"]
        if not any(o[0] == "train" for o in ops):
            return False
        for t, (o, r) in enumerate(zip(ops, recs)):
            if o[0] == "mutate" and any(kk != "none" for kk in r.get("kinds", [])):
                later = {p[1] for p in ops[t + 1:] if p[0] == "train"}
                if len(later) >= min(2, case["pop"]):
                    return True
        return False

    def classify(self, case, obs):
        labs = [f"algo={case['algo']}", f"family={case['family']}", f"share={case['share']}", f"netcfg={case['netcfg']}",
                f"pop={case['pop']}"]
        gen = 0
        trained = False
        for o, r in zip(obs.get("ops", case["ops"]), obs["recs"]):
            labs.append("op=" + o[0])
            if o[0] == "train":
                trained = True
                if r.get("zero_grad"):
                    labs.append("train=some-zero-gradient-tensors")
            if o[0] == "mutate":
                gen += 1
                labs.append(f"generation={min(gen, 4)}")
                labs.append("mutation=" + ("pre-training" if o[3] else ("in-training" if trained else "untrained")))
                labs.append("choice=" + ("scripted" if "kinds" in o[1] else "drawn"))
                if o[1].get("mutate_elite") is False:
                    labs.append("mutate_elite=False")
                for mem_ in r.get("members", []):
                    for fo_ in (mem_.get("follow") or {}).values():
                        labs.append("shared-output=" + fo_["status"])
                    ar_ = mem_.get("arch")
                    if ar_:
                        pd = ar_["trans"][mem_["policy"]].get("delta")
                        if ar_["method"] is not None and pd is not None and all(not x for x in json.loads(pd)):
                            labs.append("arch=policy-call-was-a-no-op(bound)")
                        ncmp = sum(1 for n_, t_ in ar_["trans"].items() if n_ != mem_["policy"] and t_.get("delta") is not None)
                        labs.append("archdelta=compared-networks:%d" % min(ncmp, 3))
                for kk, lab in zip(r.get("kinds", []), r.get("labels", [])):
                    labs.append("kind=" + kk)
                    if kk == "arch":
                        labs.append("arch-label=" + ("noop" if lab is None else ("no-methods" if lab == "None" else str(lab).split(".")[-1])))
                    elif kk in ("act", "hp"):
                        labs.append(f"{kk}-label=" + str(lab))
        return labs

    def neighbours(self, case, rng):
        # shorter histories (cut after a training block)
        for cut in range(len(case["ops"]) - 1, 0, -1):
            if case["ops"][cut - 1][0] in ("train", "mutate"):
                c = dict(case)
                c["ops"] = case["ops"][:cut]
                yield c
                break


def _layers_sig(obj):
    import hashlib
    parts = []
    for m in evo._modules_of(obj):
        m = getattr(m, "_orig_mod", m)
        import torch
        parts.append([(n, type(sub).__name__) for n, sub in torch.nn.Module.named_modules(m)])
    return hashlib.sha1(json.dumps(parts).encode()).hexdigest()[:12]


def _probe_call(m, seed):
    """forward pass of one network on a seeded probe batch drawn from its own observation (and action) space, in eval mode,
    noise re-drawn under the same seed; returns a flat list of floats or raises"""
    import inspect
    import numpy as np
    import torch
    from agilerl.utils.algo_utils import preprocess_observation
    m = getattr(m, "_orig_mod", m)
    space = getattr(m, "observation_space", None)
    if space is None:
        raise LookupError("no observation_space")
    g = torch.Generator().manual_seed(int(seed) + 4321)

    def npy(o):
        return {k: npy(v) for k, v in o.items()} if isinstance(o, dict) else o.numpy()
    obs = preprocess_observation(npy(evo.rand_obs(space, 2, g)), space)
    args = [obs]
    nparams = [p for p in inspect.signature(m.forward).parameters.values() if p.default is inspect._empty and p.kind == p.POSITIONAL_OR_KEYWORD]
    if len(nparams) >= 2:
        asp = getattr(m, "action_space", None)
        dim = int(np.prod(asp.shape)) if asp is not None and getattr(asp, "shape", None) else 2
        args.append(torch.rand((2, dim), generator=g))
    flags = [(sub, sub.training) for sub in torch.nn.Module.modules(m)]
    saved = [(b, b.detach().clone()) for _, b in torch.nn.Module.named_buffers(m)]     # noise buffers are re-drawn below
    try:
        m.eval()
        torch.manual_seed(int(seed) + 99)
        if hasattr(m, "reset_noise"):
            m.reset_noise()
        torch.manual_seed(int(seed) + 77)
        with torch.no_grad():
            out = m(*args)
    finally:
        for sub, f in flags:
            sub.training = f
        with torch.no_grad():
            for b, v in saved:
                b.copy_(v)
    flat = []

    def walk(o):
        if isinstance(o, torch.Tensor):
            flat.extend(o.detach().double().flatten().tolist())
        elif isinstance(o, dict):
            for k in sorted(o, key=str):
                walk(o[k])
        elif isinstance(o, (list, tuple)):
            for x in o:
                walk(x)
        elif isinstance(o, (int, float)):
            flat.append(float(o))
    walk(out)
    if not flat:
        raise LookupError("no tensor output")
    return flat


def _follow_outputs(a, reg, seed):
    """per shared/target network: does it compute what its evaluation network computes on a probe batch?
    status: equal | differ | n/a (the generic probe cannot drive this kind of network)"""
    import torch
    rng_state = torch.get_rng_state()
    out = {}
    try:
        for g in reg["groups"]:
            for s_name in g["shared"]:
                es, ss = evo._modules_of(getattr(a, g["eval"])), evo._modules_of(getattr(a, s_name))
                status, detail = "equal", ""
                for mi, (e, s_) in enumerate(zip(es, ss)):
                    try:
                        oe = _probe_call(e, seed)
                    except Exception as ex:
                        status, detail = "n/a", f"{type(ex).__name__}: {ex}"[:120]
                        break
                    try:
                        os_ = _probe_call(s_, seed)
                    except Exception as ex:
                        status, detail = "differ", f"module {mi}: the evaluation network runs, the shared network raises {type(ex).__name__}: {ex}"[:200]
                        break
                    if len(oe) != len(os_) or any(abs(x - y) > 1e-6 * (1 + abs(x)) for x, y in zip(oe, os_)):
                        status, detail = "differ", f"module {mi}: first outputs {oe[:3]} vs {os_[:3]}"
                        break
                out[s_name] = {"status": status, "detail": detail}
    finally:
        torch.set_rng_state(rng_state)
    return out


def _grad_sums(a, trained):
    """slot name -> sum |grad| of every parameter of the optimised networks (None when there is no gradient)"""
    out = {}
    for n in trained:
        obj = getattr(a, n)
        for mi, m in enumerate(evo._modules_of(obj)):
            m = getattr(m, "_orig_mod", m)
            tag = f"{n}[{mi}]" if isinstance(obj, (list, tuple)) else n
            for k, p in m.named_parameters():
                out[f"{tag}.{k}"] = None if p.grad is None else float(p.grad.detach().abs().sum())
    return out


def _pack(xs, per=10):
    """a list of numbers < 2^20 - 1 as a list of numbers holding [per] elements each (see C02/Check.v [unpacks])"""
    xs = [int(x) + 1 for x in xs]
    assert all(0 < x < (1 << 20) for x in xs), "value too large for the packed exchange format"
    out = []
    for k in range(0, len(xs), per):
        v = 0
        for i, x in enumerate(xs[k:k + per]):
            v |= x << (20 * i)
        out.append(str(v))
    return "[" + "; ".join(out) + "]"


def _pool_run(case):
    try:
        import torch
        torch.set_num_threads(1)
        return C02()._run_impl(case)
    except Exception:
        return None


def _clean(d):
    import numpy as np
    if isinstance(d, dict):
        return {str(k): _clean(v) for k, v in sorted(d.items(), key=lambda kv: str(kv[0])) if k != "device"}
    if isinstance(d, (list, tuple)):
        return [_clean(x) for x in d]
    if isinstance(d, (bool, int, float, str)) or d is None:
        return d
    if isinstance(d, np.integer):
        return int(d)
    if isinstance(d, np.floating):
        return float(d)
    return type(d).__name__ + ":" + str(d)


def _delta(sub_before, sub_after):
    """numeric delta of the addressed sub-configuration, per module: {path: difference} for changed numbers, element-wise
    for number lists of unchanged length, ("len", +k, new tail) for a list that grew/shrank at its end.  None = not
    comparable between differently shaped networks (other structural changes)."""
    if sub_before == "-" or sub_after == "-":
        return None
    B, A = json.loads(sub_before), json.loads(sub_after)
    if len(B) != len(A):
        return None
    num = lambda x: isinstance(x, (int, float)) and not isinstance(x, bool)

    def walk(b, a, path, out):
        if b == a:
            return True
        if num(b) and num(a):
            out[path] = a - b
            return True
        if isinstance(b, dict) and isinstance(a, dict) and set(b) == set(a):
            return all(walk(b[k], a[k], f"{path}.{k}", out) for k in sorted(b))
        if isinstance(b, list) and isinstance(a, list) and all(num(x) for x in b + a):
            if len(b) == len(a):
                out[path] = [y - x for x, y in zip(b, a)]
                return True
            n = min(len(b), len(a))
            if b[:n] == a[:n]:
                out[path] = ["len", len(a) - len(b), a[n:] if len(a) > len(b) else []]
                return True
        return False
    res = []
    for (hb, b), (ha, a) in zip(B, A):
        out = {}
        if hb != ha or not walk(b, a, "", out):
            return None
        res.append(out)
    return json.dumps(res, sort_keys=True)


def _comparable(tn, tp):
    if tn.get("delta") is None or tp.get("delta") is None:
        return False
    Bn, Bp = json.loads(tn["sub"][0]), json.loads(tp["sub"][0])
    Dn, Dp = json.loads(tn["delta"]), json.loads(tp["delta"])
    if not (len(Bn) == len(Bp) == len(Dn) == len(Dp)):
        return False

    def get(d, path):
        for k in [x for x in path.split(".") if x]:
            if not isinstance(d, dict) or k not in d:
                return ("missing",)
            d = d[k]
        return d
    for (hn, bn), (hp_, bp), dn, dp in zip(Bn, Bp, Dn, Dp):
        if hn != hp_ or not isinstance(bn, dict) or not isinstance(bp, dict):
            return False
        for path in set(dn) | set(dp):
            if get(bn, path) != get(bp, path):
                return False
        for k in set(bn) | set(bp):
            if ("min_" in k or "max_" in k) and bn.get(k) != bp.get(k):
                return False
    return True


def _sub_json(init_jsons, method):
    """the sub-configuration addressed by [method] of every module of a network attribute (canonical JSON)"""
    if method is None:
        return "-"
    out = []
    for j in init_jsons:
        d = json.loads(j)
        if "." in method:
            head = method.split(".")[0]
            key = {"encoder": "encoder_config", "head_net": "head_config"}.get(head, head)
            out.append([head, d.get(key, d.get(head))])
        else:
            out.append(["top", {k: v for k, v in d.items() if not isinstance(v, (dict, list))}])
    return json.dumps(out, sort_keys=True)


if __name__ == "__main__":
    sys.exit(vlib.run_check(C02()))
