"""Shared machinery of the /verif checks.

A property driver (harness/cNN.py) subclasses Driver; `run_check` does the rest:
proof obligations (Coq build + Print Assumptions audit), corpus + generated cases,
implementation run, model evaluation inside Coq (vm_compute) with comparison in Coq,
implementation-side oracle, known-findings matching, replay files, evidence.
"""
from __future__ import annotations

import fcntl
import hashlib
import json
import os
import random
import re
import subprocess
import sys
import time
import traceback
from concurrent.futures import ThreadPoolExecutor
from fractions import Fraction
from pathlib import Path

VERIF = Path(__file__).resolve().parents[2]
COQ = VERIF / "coq"
BUILD = VERIF / "build"
REPLAYS = VERIF / "replays"
EVIDENCE = VERIF / "evidence"
CORPUS = VERIF / "corpus"
KNOWN = VERIF / "known_findings.json"
REPO = Path(os.environ.get("VERIF_REPO", "/repo")).resolve()
ALT = REPO != Path("/repo")          # running against a scratch worktree (seeded change / candidate fix)
ALT_TAG = ("_alt_" + hashlib.sha1(str(REPO).encode()).hexdigest()[:8]) if ALT else ""
if ALT:                              # keep every output of such a run away from the registered ones
    REPLAYS = BUILD / ("replays" + ALT_TAG)
    EVIDENCE = BUILD / ("evidence" + ALT_TAG)
NPROC = int(os.environ.get("VERIF_JOBS", "16"))

FORBIDDEN = re.compile(
    r"\b(Admitted|admit|Axiom|Axioms|Parameter|Parameters|Conjecture|Hypothesis|Variable|Variables"
    r"|Unset\s+Guard|bypass_check|type-in-type|impredicative-set|Admit\s+Obligations|native_compute)\b"
)
# standard-library axioms that may appear under Print Assumptions (named in DESIGN §7)
ALLOWED_AXIOMS = {
    "functional_extensionality_dep",
    "FunctionalExtensionality.functional_extensionality_dep",
    "proof_irrelevance",
    "ProofIrrelevance.proof_irrelevance",
    "classic",
    "Classical_Prop.classic",
    "Eqdep.Eq_rect_eq.eq_rect_eq",
    "JMeq.JMeq_eq",
    "JMeq_eq",
    "ClassicalDedekindReals.sig_forall_dec",
    "ClassicalDedekindReals.sig_not_dec",
    "FloatAxioms",
}
PRIMITIVE_PREFIXES = ("PrimFloat.", "Uint63.", "PrimInt63.", "FloatOps.", "SpecFloat.", "FloatAxioms.", "PrimArray.")


# ----------------------------------------------------------------------------------------------
# exact number conversion: Python float / int / Fraction  ->  Coq literals
# ----------------------------------------------------------------------------------------------
def to_frac(x) -> Fraction:
    if isinstance(x, Fraction):
        return x
    if isinstance(x, bool):
        return Fraction(int(x))
    if isinstance(x, int):
        return Fraction(x)
    if hasattr(x, "item"):
        x = x.item()
    if isinstance(x, bool):
        return Fraction(int(x))
    if isinstance(x, int):
        return Fraction(x)
    return Fraction(float(x))  # exact: every finite float is a dyadic rational


def coq_Z(n) -> str:
    n = int(n)
    return f"({n})%Z" if n < 0 else f"{n}%Z"


def coq_nat(n) -> str:
    n = int(n)
    assert 0 <= n < 5000, f"nat literal too large: {n}"
    return f"{n}%nat"


def coq_Q(x) -> str:
    f = to_frac(x)
    return f"(({f.numerator})#{f.denominator})%Q" if f.numerator < 0 else f"({f.numerator}#{f.denominator})%Q"


def coq_bool(b) -> str:
    return "true" if b else "false"


def coq_list(items, scope: str | None = None) -> str:
    s = "[" + "; ".join(items) + "]"
    return s


def coq_option(x, f) -> str:
    return "None" if x is None else f"(Some {f(x)})"


def coq_float(x: float) -> str:
    """binary64 literal for PrimFloat (hex, bit exact)."""
    x = float(x)
    if x != x:
        return "nan%float"
    if x == float("inf"):
        return "infinity%float"
    if x == float("-inf"):
        return "neg_infinity%float"
    h = x.hex()
    return f"({h})%float"


def coq_string(s: str) -> str:
    return '"' + s.replace('"', '""') + '"%string'


# ----------------------------------------------------------------------------------------------
# known findings
# ----------------------------------------------------------------------------------------------
def load_known():
    if KNOWN.exists():
        d = json.loads(KNOWN.read_text())
    else:
        d = {}
    findings, fixed = list(d.get("findings", [])), list(d.get("fixed", []))
    dd = VERIF / "known_findings.d"          # per-property fragments (merged into known_findings.json by the coordinator)
    if dd.exists():
        for f in sorted(dd.glob("*.json")):
            x = json.loads(f.read_text())
            findings += x.get("findings", [])
            fixed += x.get("fixed", [])
    return findings, fixed


class Violation:
    def __init__(self, clause: str, signature: str, detail: str, case=None, obs=None, found_input=True):
        self.clause = clause
        self.signature = signature
        self.detail = detail
        self.case = case
        self.obs = obs
        self.found_input = found_input

    def to_json(self):
        return {
            "clause": self.clause,
            "signature": self.signature,
            "detail": self.detail,
            "case": self.case,
            "observation": self.obs,
            "failing_input_found": self.found_input,
        }


# ----------------------------------------------------------------------------------------------
# Coq build / proof audit
# ----------------------------------------------------------------------------------------------
def sh(cmd, timeout=None, cwd=None, env=None):
    p = subprocess.run(cmd, shell=isinstance(cmd, str), cwd=cwd, env=env, timeout=timeout,
                       stdout=subprocess.PIPE, stderr=subprocess.STDOUT, text=True)
    return p.returncode, p.stdout


def gen_coqproject():
    """(Re)generate coq/_CoqProject from the files on disk."""
    files = sorted(str(p.relative_to(COQ)) for p in (COQ / "theories").rglob("*.v"))
    txt = "-Q theories AgileV\n-arg -w -arg -notation-overridden,-deprecated-hint-without-locality,-deprecated-instance-without-locality,-ambiguous-paths,-redundant-canonical-projection\n" + "\n".join(files) + "\n"
    p = COQ / "_CoqProject"
    if not p.exists() or p.read_text() != txt:
        p.write_text(txt)
        return True
    return False


def coq_make(targets=None, timeout=3000):
    """Incremental full (.vo) build of coq/theories under a lock. Returns (ok, log)."""
    BUILD.mkdir(exist_ok=True)
    with open(BUILD / ".make.lock", "w") as lk:
        fcntl.flock(lk, fcntl.LOCK_EX)
        changed = gen_coqproject()
        if changed or not (COQ / "Makefile").exists():
            rc, out = sh("coq_makefile -f _CoqProject -o Makefile", cwd=COQ, timeout=120)
            if rc != 0:
                return False, out
        tgt = " ".join(targets) if targets else ""
        rc, out = sh(f"timeout {timeout} make -k -j{NPROC} {tgt}", cwd=COQ, timeout=timeout + 30)
        return rc == 0, out


COQ_ARGS = ["-Q", str(COQ / "theories"), "AgileV", "-w",
            "-notation-overridden,-deprecated-hint-without-locality,-deprecated-instance-without-locality,-ambiguous-paths,-redundant-canonical-projection"]


def coqc(path: Path, timeout=600, extra=None):
    cmd = ["timeout", str(timeout), "coqc"] + COQ_ARGS + (extra or []) + [str(path)]
    return sh(cmd, timeout=timeout + 30, cwd=path.parent)


def theory_targets(pid: str):
    """.vo targets needed by a property: Base/* and the property's own directory."""
    out = []
    for d in ("Base", pid):
        for p in sorted((COQ / "theories" / d).glob("*.v")):
            out.append(str(p.relative_to(COQ))[:-2] + ".vo")
    return out


def audit_sources(pid: str, extra_dirs=()):
    """grep for forbidden vernacular in the property's development (comments stripped)."""
    bad = []
    files = list((COQ / "theories" / "Base").glob("*.v")) + list((COQ / "theories" / pid).glob("*.v")) \
        + [COQ / "props" / f"{pid}.v"]
    for d in extra_dirs:
        files += list((COQ / "theories" / d).glob("*.v"))
    for f in files:
        if not f.exists():
            continue
        src = strip_comments(f.read_text())
        # Section-local Variable/Hypothesis/Context are allowed; anything outside a section is not
        depth = 0
        for ln, line in enumerate(src.splitlines(), 1):
            if re.match(r"\s*Section\b", line):
                depth += 1
            elif re.match(r"\s*End\b", line) and depth > 0:
                depth -= 1  # also matches Module End; harmless (only lowers the depth)
            for m in FORBIDDEN.finditer(line):
                w = m.group(1)
                if w in ("Variable", "Variables", "Hypothesis") and depth > 0:
                    continue
                bad.append(f"{f.relative_to(VERIF)}:{ln}: {w}")
    return bad


def strip_comments(s: str) -> str:
    out = []
    depth = 0
    i = 0
    instr = False
    while i < len(s):
        if not instr and s.startswith("(*", i):
            depth += 1
            i += 2
            continue
        if not instr and depth and s.startswith("*)", i):
            depth -= 1
            i += 2
            continue
        c = s[i]
        if depth == 0:
            if c == '"':
                instr = not instr
            out.append(c)
        elif c == "\n":
            out.append(c)
        i += 1
    return "".join(out)


def check_props(pid: str):
    """Compile props/<pid>.v afresh; parse every Print Assumptions block.
    Returns dict(obligations, discharged, axioms, failures(list of str), log)."""
    f = COQ / "props" / f"{pid}.v"
    src = strip_comments(f.read_text())
    names = re.findall(r"Print\s+Assumptions\s+([A-Za-z0-9_'.]+)\s*\.", src)
    thms = re.findall(r"^\s*(?:Theorem|Lemma|Corollary)\s+([A-Za-z0-9_']+)", src, flags=re.M)
    res = {"obligations": len(names), "discharged": 0, "axioms": {}, "failures": [], "theorems": names}
    missing = [t for t in thms if t not in names]
    for t in missing:
        res["failures"].append(f"theorem {t} has no Print Assumptions")
    # props file may only contain theorem statements closed by `exact` (plus imports/Examples)
    rc, out = coqc(f, timeout=900)
    res["log"] = out[-4000:]
    if rc != 0:
        res["failures"].append(f"coqc props/{pid}.v failed: " + out.strip().splitlines()[-1] if out.strip() else "coqc failed")
        return res
    blocks = re.split(r"(?=Closed under the global context|Axioms:)", out)
    verdicts = []
    for b in blocks:
        if b.startswith("Closed under the global context"):
            verdicts.append([])
        elif b.startswith("Axioms:"):
            ax = re.findall(r"^([A-Za-z_][A-Za-z0-9_'.]*)\s*:", b[len("Axioms:"):], flags=re.M)
            verdicts.append(ax)
    if len(verdicts) != len(names):
        res["failures"].append(f"expected {len(names)} Print Assumptions answers, got {len(verdicts)}")
        return res
    for n, ax in zip(names, verdicts):
        badax = [a for a in ax if a not in ALLOWED_AXIOMS and a.split(".")[-1] not in ALLOWED_AXIOMS
                 and not a.startswith(PRIMITIVE_PREFIXES)]
        if ax:
            res["axioms"][n] = ax
        if badax:
            res["failures"].append(f"theorem {n} depends on non-allow-listed assumptions {badax}")
        else:
            res["discharged"] += 1
    return res


# ----------------------------------------------------------------------------------------------
# translation tie (design.d/TR.md): the model of selected functions is regenerated from the source
# ----------------------------------------------------------------------------------------------
def translation_obligations(pid: str):
    """For the functions registered for `pid` in harness/pytrans.py: translate the CURRENT source of the tree
    under test (REPO) to Gallina (build/<pid>/gen/Gen<PID>.v), compile it and the committed equivalence file
    coq/gen/<PID>_equiv.v (generated code == hand-written model, for all inputs), audit Print Assumptions.
    Returns None when nothing is registered, else dict(obligations, discharged, failures, functions, theorems,
    axioms).  Fail closed: a function that cannot be found / translated / type-checked, or an equivalence
    theorem that no longer compiles, is a failure (the obligations stay undischarged)."""
    import pytrans
    client = pytrans.CLIENTS.get(pid)
    if client is None:
        return None
    d = BUILD / (pid + ALT_TAG) / "gen"
    d.mkdir(parents=True, exist_ok=True)
    for old in list(d.glob("*.v")) + list(d.glob("*.vo")) + list(d.glob("*.glob")) + list(d.glob("*.vo[ks]")) \
            + list(d.glob(".*.aux")):
        old.unlink()
    equiv_src = VERIF / client.equiv
    etxt = strip_comments(equiv_src.read_text())
    names = re.findall(r"Print\s+Assumptions\s+([A-Za-z0-9_'.]+)\s*\.", etxt)
    thms = re.findall(r"^\s*Theorem\s+([A-Za-z0-9_']+)", etxt, flags=re.M)   # Lemmas are auxiliary
    res = {"obligations": len(names), "discharged": 0, "failures": [], "functions": [], "theorems": list(names),
           "axioms": {}, "generated": str(d / f"Gen{pid}.v"), "equivalence_file": client.equiv}
    try:
        text, functions, fails = pytrans.translate_pid(pid, REPO)
    except Exception as e:  # a bug of the translator must not pass silently either
        text, functions, fails = "", [], [f"translator crashed: {type(e).__name__}: {e}"]
    res["functions"] = functions
    gen = d / f"Gen{pid}.v"
    gen.write_text(text)
    for f in fails:
        res["failures"].append("translation tie: " + f)
    if fails:
        return res
    pylib = COQ / "theories" / "TR" / "PyLib.v"
    for label, body in (("generated " + gen.name, strip_comments(text)), (client.equiv, etxt),
                        ("coq/theories/TR/PyLib.v", strip_comments(pylib.read_text()))):
        depth = 0                     # Variable / Hypothesis are allowed inside a Section only (as in audit_sources)
        for ln, line in enumerate(body.splitlines(), 1):
            if re.match(r"\s*Section\b", line):
                depth += 1
            elif re.match(r"\s*End\b", line) and depth > 0:
                depth -= 1
            for m in FORBIDDEN.finditer(line):
                if m.group(1) in ("Variable", "Variables", "Hypothesis") and depth > 0:
                    continue
                res["failures"].append(f"translation tie: forbidden vernacular in {label}:{ln}: {m.group(1)}")
    ok, log = coq_make(["theories/TR/PyLib.vo"])
    if not ok:
        res["failures"].append("translation tie: make theories/TR/PyLib.vo failed: " + "\n".join(log.strip().splitlines()[-6:]))
        return res
    extra = ["-Q", str(d), "AgileGen"]
    rc, out = coqc(gen, timeout=600, extra=extra)
    if rc != 0:
        res["failures"].append("translation tie: generated code does not compile (" + gen.name + "): "
                               + " ".join(out.strip().split())[-600:])
        return res
    eq = d / f"{pid}_equiv.v"
    eq.write_text(equiv_src.read_text())
    rc, out = coqc(eq, timeout=1200, extra=extra)
    if rc != 0:
        res["failures"].append(f"translation tie: the source no longer matches the model — equivalence proof {client.equiv} "
                               "fails on the code as translated now: " + " ".join(out.strip().split())[-900:])
        return res
    for t in thms:
        if t not in names:
            res["failures"].append(f"translation tie: theorem {t} of {client.equiv} has no Print Assumptions")
    blocks = re.split(r"(?=Closed under the global context|Axioms:)", out)
    verdicts = []
    for b in blocks:
        if b.startswith("Closed under the global context"):
            verdicts.append([])
        elif b.startswith("Axioms:"):
            verdicts.append(re.findall(r"^([A-Za-z_][A-Za-z0-9_'.]*)\s*:", b[len("Axioms:"):], flags=re.M))
    if len(verdicts) != len(names):
        res["failures"].append(f"translation tie: expected {len(names)} Print Assumptions answers, got {len(verdicts)}")
        return res
    for n, ax in zip(names, verdicts):
        badax = [a for a in ax if a not in ALLOWED_AXIOMS and a.split(".")[-1] not in ALLOWED_AXIOMS
                 and not a.startswith(PRIMITIVE_PREFIXES)]
        if ax:
            res["axioms"][n] = ax
        if badax:
            res["failures"].append(f"translation tie: theorem {n} depends on non-allow-listed assumptions {badax}")
        else:
            res["discharged"] += 1
    return res


# ----------------------------------------------------------------------------------------------
# evaluating the model on cases inside Coq
# ----------------------------------------------------------------------------------------------
def run_coq_cases(pid: str, preamble: str, terms: list[tuple[int, str]], shard=250, tag="cases", timeout=900):
    """terms: (case id, Coq term of type bool — true iff model and implementation agree).
    Writes build/<pid>/<tag>_k.v, runs coqc in parallel, returns (failing ids, errors)."""
    d = BUILD / (pid + ALT_TAG)
    d.mkdir(parents=True, exist_ok=True)
    for old in d.glob(f"{tag}_*.v"):
        old.unlink()
    for old in d.glob(f"{tag}_*.vo"):
        old.unlink()
    files = []
    for k in range(0, len(terms), shard):
        chunk = terms[k:k + shard]
        body = ["Require Import Coq.Lists.List Coq.NArith.BinNat. Import ListNotations.", preamble]
        for cid, t in chunk:
            body.append(f"Definition case_{cid} : bool := {t}.")
        body.append("Definition all_cases : list (N * bool) := [" +
                    "; ".join(f"({cid}%N, case_{cid})" for cid, _ in chunk) + "].")
        body.append("Definition failing := map fst (filter (fun p => negb (snd p)) all_cases).")
        body.append("Eval vm_compute in (length all_cases, failing).")
        fn = d / f"{tag}_{k // shard}.v"
        fn.write_text("\n".join(body) + "\n")
        files.append((fn, [c for c, _ in chunk]))
    failing, errors = [], []

    def one(item):
        fn, ids = item
        rc, out = coqc(fn, timeout=timeout)
        tries = 0
        # a coqc killed from outside (OOM killer under load) leaves no Coq error message: retry
        while rc != 0 and "Error" not in out and tries < 2:
            time.sleep(5 + 10 * tries)
            tries += 1
            rc, out = coqc(fn, timeout=timeout)
        return fn, ids, rc, out

    with ThreadPoolExecutor(max_workers=NPROC) as ex:
        for fn, ids, rc, out in ex.map(one, files):
            flat = " ".join(out.split())
            m = re.search(r"= \((\d+)(?:%nat)?, (\[.*?\]|nil)(?:%list)?\)", flat)
            if rc != 0 or not m:
                errors.append({"file": str(fn), "ids": ids, "log": out[-3000:]})
                continue
            if int(m.group(1)) != len(ids):
                errors.append({"file": str(fn), "ids": ids, "log": "case count mismatch: " + flat[-500:]})
            if m.group(2) not in ("nil", "[]"):
                failing += [int(x) for x in re.findall(r"\d+", m.group(2))]
    return sorted(set(failing)), errors


def eval_coq(pid: str, preamble: str, exprs: list[str], tag="eval", timeout=600) -> list[str]:
    """Evaluate expressions with vm_compute; returns the printed values (whitespace-normalised)."""
    d = BUILD / (pid + ALT_TAG)
    d.mkdir(parents=True, exist_ok=True)
    fn = d / f"{tag}.v"
    body = [preamble]
    for i, e in enumerate(exprs):
        body.append(f'Definition e_{i} := {e}.\nEval vm_compute in e_{i}.')
    fn.write_text("\n".join(body) + "\n")
    rc, out = coqc(fn, timeout=timeout)
    if rc != 0:
        raise RuntimeError("coqc failed on " + str(fn) + ":\n" + out[-3000:])
    parts = re.split(r"^\s*= ", out, flags=re.M)[1:]
    vals = []
    for p in parts:
        flat = " ".join(p.split())
        # strip the trailing ": type"
        depth = 0
        cut = len(flat)
        for i, c in enumerate(flat):
            if c in "([":
                depth += 1
            elif c in ")]":
                depth -= 1
            elif c == ":" and depth == 0 and flat[i - 1] == " " and i + 1 < len(flat) and flat[i + 1] == " ":
                cut = i
        vals.append(flat[:cut].strip())
    if len(vals) != len(exprs):
        raise RuntimeError(f"expected {len(exprs)} values, got {len(vals)}:\n" + out[-2000:])
    return vals


# ----------------------------------------------------------------------------------------------
# driver base class and the check runner
# ----------------------------------------------------------------------------------------------
class Driver:
    pid = "C00"
    preamble = ""          # Coq imports for case files
    trusted_base: list[str] = []
    assumptions: list[str] = []
    rule = ""
    coq_dirs: tuple = ()    # extra theory dirs (besides Base and pid) this property depends on

    def corpus(self):
        d = CORPUS / self.pid
        out = []
        if d.exists():
            for f in sorted(d.glob("*.json")):
                c = json.loads(f.read_text())
                out.append(c.get("case", c))
        return out

    def generate(self, tier: str, rng: random.Random):
        raise NotImplementedError

    def run_impl(self, case):
        raise NotImplementedError

    def coq_term(self, case, obs) -> str | None:
        """Coq bool term: model(case) agrees with obs. None = case has no model-side comparison."""
        return None

    def oracle(self, case, obs) -> list[Violation]:
        return []

    def key(self, case) -> str:
        return hashlib.sha1(json.dumps(case, sort_keys=True, default=str).encode()).hexdigest()

    def nontrivial(self, case, obs) -> bool:
        return True

    def classify(self, case, obs) -> list[str]:
        """labels for the input-distribution histogram"""
        return []

    def shrink(self, case, still_fails):
        return case

    def extra_static(self) -> list[Violation]:
        """checks tied to the source rather than to a case (e.g. extracted registries)"""
        return []

    def setup(self, tier):
        pass

    def teardown(self):
        pass


def write_replay(pid, v: Violation, extra=None) -> Path:
    d = REPLAYS / pid
    d.mkdir(parents=True, exist_ok=True)
    body = v.to_json()
    body["property"] = pid
    if extra:
        body.update(extra)
    h = hashlib.sha1(json.dumps(body, sort_keys=True, default=str).encode()).hexdigest()[:12]
    p = d / f"{re.sub(r'[^A-Za-z0-9_.-]+', '_', v.signature)[:80]}_{h}.json"
    p.write_text(json.dumps(body, indent=1, default=str))
    return p


def match_known(pid, sig, findings):
    for f in findings:
        if f.get("property") == pid and (f.get("signature") == sig or
                                         (f.get("signature_prefix") and sig.startswith(f["signature_prefix"]))):
            return f
    return None


def run_check(driver: Driver, argv=None):
    import argparse
    ap = argparse.ArgumentParser()
    ap.add_argument("--tier", default=os.environ.get("VERIF_TIER", "quick"), choices=["quick", "thorough"])
    ap.add_argument("--replay", default=None)
    ap.add_argument("--seed", type=int, default=int(os.environ.get("VERIF_SEED", "0")))
    ap.add_argument("--skip-proofs", action="store_true", help="developer option; never used by MANIFEST commands")
    args = ap.parse_args(argv)
    pid = driver.pid
    BUILD.mkdir(exist_ok=True)
    _runlock = open(BUILD / f".{pid}{ALT_TAG}.run.lock", "w")   # runs of one property on one tree share build/<pid>
    fcntl.flock(_runlock, fcntl.LOCK_EX)
    t0 = time.time()
    _arm_watchdog(pid, args.tier)
    import agilerl  # the implementation under test must be the tree the check was pointed at
    assert Path(agilerl.__file__).resolve().is_relative_to(REPO), (agilerl.__file__, REPO)
    rng = random.Random(f"{pid}-{args.seed}")
    findings, _fixed = load_known()
    violations: list[Violation] = []
    notes = []
    ev_path = EVIDENCE / f"{pid}.json"
    EVIDENCE.mkdir(exist_ok=True, parents=True)
    if ev_path.exists() and not args.replay:
        ev_path.unlink()

    # ---- 1. proof obligations -------------------------------------------------------------
    proof = {"obligations": 0, "discharged": 0, "axioms": {}, "failures": [], "theorems": []}
    translation = None
    if not args.skip_proofs and not args.replay:
        tg = theory_targets(pid)
        for dname in driver.coq_dirs:
            tg += [str(p.relative_to(COQ))[:-2] + ".vo" for p in sorted((COQ / "theories" / dname).glob("*.v"))]
        ok, log = coq_make(tg)
        if not ok:
            proof["failures"].append("make failed: " + "\n".join(log.strip().splitlines()[-12:]))
        bad = audit_sources(pid, driver.coq_dirs)
        if bad:
            proof["failures"].append("forbidden vernacular: " + "; ".join(bad))
        if ok:
            pr = check_props(pid)
            pr["failures"] = proof["failures"] + pr["failures"]
            proof = pr
        # translation tie: functions whose model is regenerated from the source on this run
        try:
            translation = translation_obligations(pid)
        except Exception as e:     # fail closed: a crash of the tie is a broken obligation, not a silent skip
            translation = {"obligations": 1, "discharged": 0, "functions": [], "theorems": [], "axioms": {},
                           "generated": "", "equivalence_file": "",
                           "failures": [f"translation tie crashed: {type(e).__name__}: {e}"]}
        if translation is not None:
            proof["obligations"] += translation["obligations"]
            proof["discharged"] += translation["discharged"]
            proof["failures"] = list(proof["failures"]) + translation["failures"]
            proof["theorems"] = list(proof["theorems"]) + translation["theorems"]
            proof["axioms"].update(translation["axioms"])
    proof_broken = bool(proof["failures"])

    # ---- 2. cases: corpus + generated ------------------------------------------------------
    driver.setup(args.tier)
    if args.replay:
        rp = json.loads(Path(args.replay).read_text())
        cases = [rp["case"]] if rp.get("case") is not None else []
    else:
        cases = list(driver.corpus()) + list(driver.generate(args.tier, rng))
    observations = {}
    hist = {}
    keys = set()
    nontriv_keys = set()
    impl_errors = 0
    for cid, case in enumerate(cases):
        try:
            obs = driver.run_impl(case)
        except Exception as e:  # the harness could not drive the code: fail closed
            impl_errors += 1
            tb = traceback.format_exc()
            violations.append(Violation("harness", f"harness-error:{type(e).__name__}",
                                        f"implementation could not be driven on this case: {e}\n{tb[-1500:]}",
                                        case, None, found_input=False))
            continue
        observations[cid] = obs
        k = driver.key(case)
        keys.add(k)
        if driver.nontrivial(case, obs):
            nontriv_keys.add(k)
        for lab in driver.classify(case, obs):
            hist[lab] = hist.get(lab, 0) + 1
        for v in driver.oracle(case, obs):
            v.case = case if v.case is None else v.case
            v.obs = obs if v.obs is None else v.obs
            violations.append(v)

    # ---- 3. model vs implementation inside Coq ---------------------------------------------
    terms = []
    for cid, obs in observations.items():
        t = driver.coq_term(cases[cid], obs)
        if t is not None:
            terms.append((cid, t))
    k_fail, k_err = [], []
    if terms:
        ok_build = True
        if args.replay or args.skip_proofs:
            tg = theory_targets(pid)
            for dname in driver.coq_dirs:
                tg += [str(p.relative_to(COQ))[:-2] + ".vo" for p in sorted((COQ / "theories" / dname).glob("*.v"))]
            # models only are needed for K; a broken proof file must not stop the model from running
            tg = [t for t in tg if "Proof" not in t]
            ok_build, log = coq_make(tg)
        k_fail, k_err = run_coq_cases(pid, driver.preamble, terms, shard=getattr(driver, "shard", 250))
        for e in k_err:
            violations.append(Violation("correspondence", "correspondence-error",
                                        "model evaluation failed in Coq: " + e["log"][-1500:],
                                        None, None, found_input=False))
        oracle_failed_cases = {json.dumps(v.case, sort_keys=True, default=str) for v in violations
                               if v.found_input and match_known(pid, v.signature, findings) is None}
        for cid in k_fail:
            case = cases[cid]
            if json.dumps(case, sort_keys=True, default=str) in oracle_failed_cases:
                continue  # already reported with a concrete failing input by the oracle
            # K disagreement without oracle failure: search a neighbourhood for an oracle failure
            found = None
            for nb in driver_neighbours(driver, case, rng):
                try:
                    o2 = driver.run_impl(nb)
                    vs = driver.oracle(nb, o2)
                except Exception:
                    continue
                if vs:
                    found = (nb, o2, vs[0])
                    break
            if found:
                nb, o2, v = found
                v.case, v.obs = nb, o2
                violations.append(v)
            else:
                violations.append(Violation("correspondence", f"correspondence:{driver.signature_of_case(case) if hasattr(driver, 'signature_of_case') else 'model-impl-disagree'}",
                                            "model and implementation disagree on this case; the oracle of the property passes on it and on its neighbourhood",
                                            case, observations[cid], found_input=False))

    # ---- 4. static / source-tied checks ----------------------------------------------------
    try:
        violations += driver.extra_static()
    except Exception as e:
        violations.append(Violation("harness", f"harness-error:static:{type(e).__name__}",
                                    f"{e}\n{traceback.format_exc()[-1500:]}", None, None, found_input=False))
    driver.teardown()

    if proof_broken:
        anyinput = any(v.found_input and match_known(pid, v.signature, findings) is None for v in violations)
        if not anyinput:
            violations.append(Violation("proof", "proof-broken",
                                        "proof obligations no longer check: " + " | ".join(proof["failures"])[:3000],
                                        None, None, found_input=False))

    # ---- 5. verdict ------------------------------------------------------------------------
    seen_sig = set()
    n_viol = 0
    known_hits = {}
    lines = []
    for v in violations:
        kf = match_known(pid, v.signature, findings)
        if kf is not None:
            known_hits.setdefault(kf.get("signature", kf.get("signature_prefix")), kf)
            continue
        if v.signature in seen_sig:
            continue
        seen_sig.add(v.signature)
        n_viol += 1
        p = write_replay(pid, v, {"proof_failures": proof["failures"]} if v.clause == "proof" else None)
        tail = "" if v.found_input else " no-failing-input-found"
        lines.append(f"VIOLATION property={pid} replay={p}{tail}")
    for sig, kf in known_hits.items():
        print(f"KNOWN-FINDING: property={pid} {kf.get('what', sig)}")
    for ln in lines:
        print(ln)

    # ---- 6. evidence -----------------------------------------------------------------------
    samples = []
    for cid in list(observations)[:2] + list(observations)[-1:]:
        samples.append({"case": cases[cid], "observation": _truncate(observations[cid])})
    ev = {
        "property_id": pid,
        "tier": args.tier,
        "seed": args.seed,
        "level": "proof",
        "coverage": {
            "obligations": proof["obligations"],
            "discharged": proof["discharged"],
            "checker_cmd": f"make -C coq (coqc 8.16.1, full .vo) && coqc -Q coq/theories AgileV coq/props/{pid}.v  # Print Assumptions audited",
            "trusted_base": ["Coq 8.16.1 kernel + vm_compute (no native_compute)"] + list(driver.trusted_base)
            + [f"axioms reported by Print Assumptions: {proof['axioms'] or 'none (all closed under the global context)'}"],
            "theorems": proof["theorems"],
            "proof_failures": proof["failures"],
            "evaluations": len(observations),
            "distinct_nontrivial": len(nontriv_keys),
            "distinct": len(keys),
            "rule": driver.rule,
            "traces_validated_against_impl": len(terms) - len(k_fail) - sum(len(e["ids"]) for e in k_err),
            "model_impl_disagreements": len(k_fail),
            "input_distribution": hist,
            "samples": samples,
            "known_findings_hit": sorted(known_hits),
            "exhaustive": bool(getattr(driver, "exhaustive", False)),
            "notes": notes + list(getattr(driver, "notes", [])),
            **({"translated_functions": translation["functions"],
                "translation_checker_cmd": f"harness/pytrans.py {pid} -> {translation['generated']}; coqc -Q coq/theories AgileV "
                                           f"-Q build/{pid}{ALT_TAG}/gen AgileGen Gen{pid}.v {pid}_equiv.v (copy of "
                                           f"{translation['equivalence_file']})  # Print Assumptions audited",
                "translation_theorems": translation["theorems"]} if translation is not None else {}),
        },
        "assumptions": list(driver.assumptions),
        "wall_s": round(time.time() - t0, 2),
        "violations": n_viol,
    }
    if not args.replay:
        ev_path.write_text(json.dumps(ev, indent=1, default=str))
    print(f"[{pid}] tier={args.tier} seed={args.seed} obligations={proof['obligations']} discharged={proof['discharged']} "
          f"cases={len(observations)} nontrivial={len(nontriv_keys)} K-compared={len(terms)} K-disagree={len(k_fail)} "
          f"violations={n_viol} known={len(known_hits)} wall={ev['wall_s']}s")
    return 1 if n_viol else 0


def _arm_watchdog(pid, tier):
    """A check must never hang: if the whole run exceeds its wall-clock budget (an implementation call that blocks
    in a way the driver's own guards did not catch), report that as a violation and leave, killing our children."""
    import signal
    import threading
    limit = float(os.environ.get("VERIF_MAX_WALL", "2400" if tier == "quick" else "10800"))

    def fire():
        v = Violation("hang", "check-exceeded-wall-clock",
                      f"the {tier} run of {pid} did not finish within {limit:.0f} s: some call into the implementation "
                      "(or the model evaluation) blocked; the property is not shown to hold on this tree", None, None,
                      found_input=False)
        p = write_replay(pid, v)
        sys.stdout.write(f"VIOLATION property={pid} replay={p} no-failing-input-found\n")
        sys.stdout.flush()
        try:
            import psutil  # kill workers the driver may have left behind
            for c in psutil.Process().children(recursive=True):
                c.kill()
        except Exception:
            try:
                os.killpg(os.getpgid(0), signal.SIGTERM) if os.getpgid(0) == os.getpid() else None
            except Exception:
                pass
        os._exit(1)

    t = threading.Timer(limit, fire)
    t.daemon = True
    t.start()


def driver_neighbours(driver, case, rng):
    f = getattr(driver, "neighbours", None)
    if f is None:
        return []
    return f(case, rng)


def _truncate(o, n=1200):
    s = json.dumps(o, default=str)
    if len(s) <= n:
        return o
    return s[:n] + "…"
