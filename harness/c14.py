"""C14 — every selected action is a legal member of the action space.

The real get_action of every learner runs end to end on CONTROLLED network outputs (all weights zero,
output-layer bias = the wanted vector; Rainbow / bandits: forward wrapped) and SCRIPTED random draws
(torch.rand*/uniform_/normal, np.random.*, random.random replaced in-process for the call).  The network
output actually used and the noise actually added are RECORDED (read-only wrappers) and handed to the Coq
model, which recomputes the selection; the comparison happens inside Coq.  The oracle states the property
directly on the returned action (shape, membership, mask legality, greedy = best legal).
"""
from __future__ import annotations

import itertools
import math
import random
import sys

import numpy as np
import torch
from gymnasium import spaces

import vlib
from vlib import Violation, coq_Q, coq_bool, coq_nat

TOL = "(1#131072)"          # 2^-17: float32 rescale / scale arithmetic vs exact rationals

# ------------------------------------------------------------------------------------------ helpers

CTX = {"latent": None, "pin": True, "seed": 0, "maskdtype": None}      # per-case context set by run_impl


def small_cfg(kind="vec"):
    if kind in ("vec", "disc"):
        cfg = {"encoder_config": {"hidden_size": [8]}, "head_config": {"hidden_size": [8]}}
    else:
        cfg = {"head_config": {"hidden_size": [8]}}       # partial configuration: default encoder for the space
    if CTX["latent"] is not None:                          # latent dimension AT its configured bound
        cfg["latent_dim"] = {"min": 8, "max": 128}[CTX["latent"]]
    return cfg


def obs_space_of(kind):
    if kind == "vec":
        return spaces.Box(-1, 1, (3,), np.float32)
    if kind == "disc":
        return spaces.Discrete(4)
    if kind == "dict":
        return spaces.Dict({"a": spaces.Box(-1, 1, (2,), np.float32), "b": spaces.Discrete(3)})
    if kind == "tuple":
        return spaces.Tuple((spaces.Box(-1, 1, (2,), np.float32), spaces.Box(0, 1, (3,), np.float32)))
    if kind == "img":
        return spaces.Box(0, 255, (3, 16, 16), np.uint8)
    raise ValueError(kind)


def make_obs(kind, B, single, rng):
    """a batch of B observations of the space (single: one un-batched observation)"""
    sp = obs_space_of(kind)
    sp.seed(rng.randrange(2 ** 31))
    xs = [sp.sample() for _ in range(1 if single else B)]
    if single:
        return xs[0]
    if kind == "dict":
        return {k: np.stack([x[k] for x in xs]) for k in xs[0]}
    if kind == "tuple":
        return tuple(np.stack([x[i] for x in xs]) for i in range(len(xs[0])))
    return np.stack(xs)


def pin(net, vec):
    """bias trick: zero every parameter, then set the last bias of matching length to vec"""
    with torch.no_grad():
        ps = list(net.named_parameters())
        if not CTX["pin"]:
            # non-uniform weights: seeded random parameters, the outputs then depend on the observation;
            # they are recorded and the recorded values go to the model and the oracle
            g = torch.Generator().manual_seed(CTX["seed"])
            for n, p in ps:
                p.copy_(torch.randn(p.shape, generator=g) * (0.1 if "norm" in n and n.endswith("bias") else 0.7))
                if "norm" in n and n.endswith("weight"):
                    p.add_(1.0)
            return
        for _, p in ps:
            p.zero_()
        cands = [p for n, p in ps if n.endswith("bias") and tuple(p.shape) == (len(vec),) and "norm" not in n]
        assert cands, "no output bias of length %d found" % len(vec)
        cands[-1].copy_(torch.tensor(vec, dtype=torch.float32))


class wrap_forward:
    """record (and optionally replace) the output of an EvolvableModule (its __call__ bypasses torch hooks)"""

    def __init__(self, net, replace=None):
        self.net, self.replace, self.outs = net, replace, []

    def __enter__(self):
        orig = self.net.forward

        def fwd(*a, **k):
            out = orig(*a, **k)
            if self.replace is not None:
                v = torch.as_tensor(self.replace, dtype=out.dtype)
                assert v.shape == out.shape, f"network output has shape {tuple(out.shape)}, scripted {tuple(v.shape)}"
                out = out * 0 + v
            self.outs.append(out.detach().clone())
            return out
        self.net.forward = fwd
        return self

    def __exit__(self, *e):
        del self.net.forward


class record_attr_call:
    """wrap a bound method of an object; record its return values"""

    def __init__(self, obj, name):
        self.obj, self.name, self.rets = obj, name, []

    def __enter__(self):
        orig = getattr(self.obj, self.name)

        def f(*a, **k):
            r = orig(*a, **k)
            self.rets.append((a, r.detach().clone() if isinstance(r, torch.Tensor) else np.array(r, copy=True)))
            return r
        setattr(self.obj, self.name, f)
        return self

    def __exit__(self, *e):
        delattr(self.obj, self.name)


class patched:
    """temporarily replace attributes: patched((module, 'name', fn), ...)"""

    def __init__(self, *items):
        self.items = items

    def __enter__(self):
        self.old = [(o, n, getattr(o, n)) for o, n, _ in self.items]
        for o, n, f in self.items:
            setattr(o, n, f)

    def __exit__(self, *e):
        for o, n, f in self.old:
            setattr(o, n, f)


def torch_uniform_script(by_shape):
    """replacement for torch.rand_like / torch.rand / Tensor.uniform_: values chosen by requested shape"""
    def pick(shape):
        shape = tuple(shape)
        assert shape in by_shape, f"unscripted uniform draw of shape {shape} (scripted: {list(by_shape)})"
        return torch.tensor(by_shape[shape], dtype=torch.float32).reshape(shape)

    def rand_like(x, *a, **k):
        return pick(x.shape).to(x.dtype)

    def rand(*size, **k):
        if len(size) == 1 and not isinstance(size[0], int):
            size = tuple(size[0])
        return pick(size)

    def uniform_(self, *a, **k):
        with torch.no_grad():
            self.copy_(pick(self.shape))
        return self
    return patched((torch, "rand_like", rand_like), (torch, "rand", rand), (torch.Tensor, "uniform_", uniform_))


MASK_DTYPES = {"int8": np.int8, "uint8": np.uint8, "bool": np.bool_, "float32": np.float32, "float64": np.float64, "int64": np.int64}


def as_mask(x):
    """a 0/1 mask in the numeric type the environment happens to use (CTX["maskdtype"])"""
    a = np.array(x)
    return a.astype(MASK_DTYPES[CTX["maskdtype"]]) if CTX.get("maskdtype") else a


def mask_array(rows, single, fmt=None):
    """mask argument as the callers pass it: (n,) for one observation, (B, n) array, or an object array of B arrays"""
    if rows is None:
        return None
    if single:
        return as_mask(rows[0])
    if fmt == "object":
        m = np.empty(len(rows), dtype=object)
        for r, row in enumerate(rows):
            m[r] = as_mask(row)
        return m
    return as_mask(rows)


def snapshot(x):
    """deep, comparable copy of a caller-owned argument"""
    if isinstance(x, dict):
        return {k: snapshot(v) for k, v in x.items()}
    if isinstance(x, (list, tuple)):
        return [snapshot(v) for v in x]
    if isinstance(x, np.ndarray):
        return ("nd", str(x.dtype), x.shape, [snapshot(v) for v in x] if x.dtype == object else x.copy())
    if isinstance(x, torch.Tensor):
        return ("t", x.detach().clone())
    return x


def same(a, b):
    if isinstance(a, dict):
        return isinstance(b, dict) and list(a) == list(b) and all(same(a[k], b[k]) for k in a)
    if isinstance(a, list):
        return isinstance(b, list) and len(a) == len(b) and all(same(x, y) for x, y in zip(a, b))
    if isinstance(a, tuple) and a and a[0] == "nd":
        return isinstance(b, tuple) and a[1:3] == b[1:3] and (same(a[3], b[3]) if isinstance(a[3], list)
                                                              else np.array_equal(a[3], b[3], equal_nan=a[3].dtype.kind == "f"))
    if isinstance(a, tuple) and a and a[0] == "t":
        return isinstance(b, tuple) and a[1].shape == b[1].shape and a[1].dtype == b[1].dtype and torch.equal(a[1], b[1])
    return a is b or a == b


def fl(x):
    return [float(v) for v in np.asarray(x, dtype=np.float64).reshape(-1)]


def qlist(xs):
    return "[" + "; ".join(coq_Q(x) for x in xs) + "]"


def blist(xs):
    return "[" + "; ".join(coq_bool(bool(x)) for x in xs) + "]"


def nlist(xs):
    return "[" + "; ".join(coq_nat(x) for x in xs) + "]"


def omask(m):
    return "None" if m is None else f"(Some {blist(m)})"


def coq_box(box):
    def b(x):
        return "None" if x is None else f"(Some {coq_Q(x)})"
    return "[" + "; ".join(f"({b(lo)}, {b(hi)})" for lo, hi in box) + "]"


class FBox(list):
    """box whose bounds are NOT dyadic: the listed numbers are the bounds as stored in the space's dtype"""

    def __init__(self, pairs, dtype):
        super().__init__([(float(dtype(lo)), float(dtype(hi))) for lo, hi in pairs])
        self.dtype = dtype


def np_box(box):
    dt = getattr(box, "dtype", np.float32)
    lo = np.array([-np.inf if l is None else l for l, _ in box], dtype=dt)
    hi = np.array([np.inf if h is None else h for _, h in box], dtype=dt)
    return spaces.Box(lo, hi, dtype=dt)


def in_space(sp, row):
    """EXACT membership of the returned numbers (no tolerance): finite, low <= a <= high compared in float64 (every float32
    is a float64), and action_space.contains on the value cast to the space's dtype when that cast is exact"""
    a = np.asarray(row, dtype=np.float64)
    if not np.all(np.isfinite(a)):
        return False
    if not (np.all(a >= sp.low.astype(np.float64)) and np.all(a <= sp.high.astype(np.float64))):
        return False
    c = a.astype(sp.dtype)
    return bool(sp.contains(c)) if np.array_equal(c.astype(np.float64), a) else True


ACT_CLASS = {"Tanh": "ActPM1", "Softsign": "ActPM1", "Sigmoid": "Act01", "Softmax": "Act01",
             "GumbelSoftmax": "Act01", None: "ActOther", "ReLU": "ActOther"}


def all_masks(n):
    return [list(m) for m in itertools.product([0, 1], repeat=n) if any(m)]


def tie_patterns(n):
    """value patterns: all distinct permutations of tie-containing multisets + one strict order"""
    base = {2: [(1, 1), (1, 2)], 3: [(1, 2, 2), (1, 1, 2), (1, 2, 3), (4, 4, 4)],
            4: [(1, 2, 2, 3), (0, 5, 5, 5)], 5: [(1, 2, 2, 3, 3)]}[n]
    out = []
    for b in base:
        out += sorted(set(itertools.permutations(b)))
    return [list(map(float, p)) for p in out]


def draws_for(mask, rng, style):
    """uniform draws in [0,1) as dyadics; 'adversarial': zeros on legal entries, large on masked ones"""
    n = len(mask)
    if style == "adversarial":
        return [0.0 if m else 0.875 for m in mask]
    if style == "zeros":
        return [0.0] * n
    return [rng.randrange(0, 8) / 8.0 for _ in range(n)]


def chunks(xs, k):
    return [xs[i:i + k] for i in range(0, len(xs), k)]


# ------------------------------------------------------------------------------------------ driver
class C14(vlib.Driver):
    pid = "C14"
    preamble = ("From Coq Require Import QArith.\nFrom AgileV Require Import C14.Model C14.Check.\n"
                "Open Scope Q_scope.")
    shard = 120
    rule = ("case = (algorithm, observation-space kind, single/batched, action space, value pattern of the pinned "
            "network output, mask pattern per row/agent, epsilon / training flag, scripted draws). Discrete: all masks "
            "with >= 1 legal action for 2-4 actions x all permutations of tie-containing value multisets x epsilon in "
            "{0, 1/2, 1} (exhaustive), draws scripted incl. exactly 0.0. Distinct = canonical key without the "
            "observation values. Non-trivial = mask not all-ones, or batch > 1, or a tie among the values / a bound hit.")
    trusted_base = ["hand-written model coq/theories/C14/Model.v",
                    "correspondence harness harness/c14.py (bias trick / forward wrappers, scripted torch & numpy RNG, "
                    "recorded network outputs and noise)"]
    assumptions = ["torch.argmax / np.argmax return the first maximum; np.ma argmax fills masked entries with -inf (K-validated)",
                   "float32 softmax underflow: exp(x - max) == 0 once max - x >= 104; generators keep legal logits within 80 of the maximum",
                   "uniform draws lie in [0, 1) (guard of random_legal); squashing activations map into their nominal range",
                   "sampling itself (torch RNG -> index) is not modelled, only its support"]

    def __init__(self):
        self.agents = {}
        self.applied = {}
        self.notes = []

    # ---------------------------------------------------------------- agents (cached per configuration)
    def agent(self, key, build):
        """fresh agent of this configuration, or (case["hist"]) the agent after a history of real evolutionary
        operations; the callers re-install the pinned outputs afterwards (the networks were rebuilt)"""
        hist = tuple(getattr(self, "_hist", None) or ())
        wrap = getattr(self, "_wrap", None)
        k = (key, hist, wrap, CTX["latent"])
        if k not in self.agents:
            obj = build()                      # wrap == "rsnorm_pop": already an RSNorm from Algo.population(...)
            if wrap == "rsnorm":
                from agilerl.wrappers.agent import RSNorm
                obj = RSNorm(obj)
            applied = []
            for op in hist:
                obj, name = self.apply_op(obj, op)
                applied.append(name)
            self.agents[k] = obj
            self.applied[k] = applied
        self._applied = self.applied.get(k, [])
        obj = self.agents[k]
        self._callee = obj                     # what the training loops call
        return obj.agent if wrap else obj      # the algorithm itself (networks to pin, noise to record)

    def make(self, cls, obs_space, act_space, **kw):
        """build the learner; wrap == "rsnorm_pop": through Algo.population(..., wrapper_cls=RSNorm)"""
        if getattr(self, "_wrap", None) == "rsnorm_pop":
            from agilerl.wrappers.agent import RSNorm
            return cls.population(1, obs_space, act_space, wrapper_cls=RSNorm, **kw)[0]
        return cls(obs_space, act_space, **kw)

    def act(self, ag, obs, **named):
        """call get_action on what the caller holds (the agent or its wrapper); arguments by keyword, as the training
        loops and test() pass them, or positionally in signature order (case["args"] == "pos")"""
        callee = getattr(self, "_callee", None) or ag
        before = {"obs": snapshot(obs), **{n: snapshot(v) for n, v in named.items()}}
        live = {"obs": obs, **named}
        try:
            return self.act_(callee, ag, obs, named)
        finally:
            for n, b in before.items():
                if not same(b, snapshot(live[n])) and n not in self._argmod:
                    self._argmod.append(n)

    def act_(self, callee, ag, obs, named):
        if getattr(self, "_argstyle", "kw") == "min":       # rely on the defaults of get_action wherever the value is the default
            dflt = {"epsilon": 0.0, "action_mask": None, "training": True, "infos": None}     # the DOCUMENTED defaults
            named = {n: v for n, v in named.items()
                     if not (n in dflt and (v is dflt[n] or (isinstance(v, (int, float, bool)) and v == dflt[n])))}
            return callee.get_action(obs, **named)
        if getattr(self, "_argstyle", "kw") == "pos":
            return callee.get_action(obs, *self.positional(ag, named))
        return callee.get_action(obs, **named)

    @staticmethod
    def positional(ag, named):
        import inspect
        params = [p for p in inspect.signature(type(ag).get_action).parameters if p not in ("self",)][1:]
        vals = []
        for p in params:
            if p not in named:
                break
            vals.append(named[p])
        assert len(vals) == len(named), f"cannot pass {list(named)} positionally to {type(ag).__name__}.get_action{params}"
        return vals

    MUT = None

    def apply_op(self, ag, op):
        """one real evolutionary operation: Mutations.architecture_mutate with the sampled method forced to the
        advertised method `arch:<name>`, Mutations.parameter_mutation / activation_mutation, clone(), checkpoint round trip"""
        import agilerl.hpo.mutation as mm
        if C14.MUT is None:
            C14.MUT = mm.Mutations(0, 1, 0.5, 1, 1, 0, rand_seed=7)
        m = C14.MUT
        if op.startswith("arch:"):
            inner = ag.agent if hasattr(ag, "agent_get_action") else ag
            pol = inner.actor if hasattr(inner, "actor") else inner.actors[0]
            methods = sorted(pol.mutation_methods)
            want = op[5:]
            if want not in methods:          # e.g. encoder.add_node on a multi-input encoder: take the corresponding one
                cands = [x for x in methods if x.split(".")[0] == want.split(".")[0] and ("add" in x) == ("add" in want)]
                want = (cands or methods)[0]
            with patched((mm, "get_architecture_mut_method", lambda *a, _w=want, **k: _w)):
                ag = m.architecture_mutate(ag)
            return ag, "arch:" + want
        if op == "param":
            return m.parameter_mutation(ag), op
        if op == "act":
            return m.activation_mutation(ag), op
        if op == "clone":
            return ag.clone(), op
        if op == "ckpt":
            d = vlib.BUILD / "C14_ckpt"
            d.mkdir(parents=True, exist_ok=True)
            f = d / f"agent_{id(ag)}.pt"
            ag.save_checkpoint(str(f))
            try:
                new = type(getattr(ag, "agent", ag) if hasattr(ag, "agent_get_action") else ag).load(str(f))
            finally:
                f.unlink(missing_ok=True)
            return new, op
        raise ValueError(op)

    # ---------------------------------------------------------------- generation
    def generate(self, tier, rng):
        cases = []
        self.exhaustive = True
        cases += self.gen_dqn(tier, rng)
        cases += self.gen_ddpg(tier, rng)
        cases += self.gen_value_based(tier, rng)
        cases += self.gen_maddpg(tier, rng)
        cases += self.gen_ppo(tier, rng)
        cases += self.gen_history(cases, tier, rng)
        cases += self.gen_wrapped(cases, tier, rng)
        cases += self.gen_audit(cases, tier, rng)
        cases += self.gen_nondyadic(tier, rng)
        cases += self.gen_offsets(tier, rng)
        cases += self.gen_round4(cases, tier, rng)
        return cases

    def gen_round4(self, prev, tier, rng):
        """mask dtypes, extreme but legal magnitudes, repeated identical calls (the arguments-not-modified oracle runs on every case)"""
        out = []
        fresh = [c for c in prev if not c.get("hist") and not c.get("wrap") and c.get("args", "kw") == "kw" and c.get("pin", True)
                 and not c.get("korder") and "offset" not in c]

        def take(pred, k, stride=13):
            pool = [c for c in fresh if pred(c)]
            return [dict(pool[(i * stride + 5) % len(pool)]) for i in range(k)] if pool else []
        per = 2 if tier == "quick" else 6
        masked = {"dqn": lambda c: c["fam"] == "dqn" and c["masks"] is not None, "rainbow": lambda c: c["fam"] == "rainbow" and c["masks"] is not None,
                  "cqn": lambda c: c["fam"] == "cqn" and c["masks"] is not None, "ucb": lambda c: c["fam"] == "ucb" and c["mask"] is not None,
                  "ts": lambda c: c["fam"] == "ts" and c["mask"] is not None, "ppo_disc": lambda c: c["fam"] == "ppo_disc" and c["masks"] is not None,
                  "ippo": lambda c: c["fam"] == "ippo" and c["masks"] is not None,
                  "maddpg_disc": lambda c: c["fam"] == "maddpg_disc" and c["masks"] is not None,
                  "matd3_disc": lambda c: c["fam"] == "matd3_disc" and c["masks"] is not None}
        for name, pred in masked.items():
            for dt in ("int8", "uint8", "bool", "float32", "float64"):
                for c in take(pred, per):
                    c["maskdtype"] = dt
                    out.append(c)
        # extreme magnitudes of the value function: +-1e6 offsets, +-1e37 scales
        for n in (2, 3, 4):
            pats = tie_patterns(n)
            for mi, m in enumerate(all_masks(n)):
                if mi % 2 and tier == "quick":
                    continue
                for vi, tr in enumerate((lambda v: v + 1e6, lambda v: v - 1e6, lambda v: v * 1e37, lambda v: -v * 1e37 - 1e37)):
                    q = [float(np.float32(tr(v))) for v in pats[(mi + vi) % len(pats)]]
                    u = draws_for(m, rng, "adversarial")
                    out.append({"fam": "dqn", "obs": "vec", "single": False, "n": n, "q": q, "masks": [m], "eps": [0.0, 0.5, 1.0][(mi + vi) % 3],
                                "coins": [[0.0, 0.25, 0.75][vi % 3]], "u": [u], "oseed": rng.randrange(10 ** 6), "extreme": True})
                    out.append({"fam": "cqn", "obs": "vec", "single": False, "n": n, "q": q, "masks": [m], "eps": [0.0, 0.5, 1.0][(mi + vi) % 3],
                                "coin": [0.0, 0.25, 0.75][vi % 3], "u": [u], "r": [0], "oseed": rng.randrange(10 ** 6), "extreme": True})
                    out.append({"fam": "rainbow", "obs": "vec", "single": bool(vi % 2), "n": n, "vals": [q], "masks": [m], "training": bool(mi % 2),
                                "oseed": rng.randrange(10 ** 6), "extreme": True})
                    out.append({"fam": ["ucb", "ts"][vi % 2], "n": n, "vals": q, "mask": m, "oseed": rng.randrange(10 ** 6), "extreme": True})
        # extreme logits of masked stochastic heads (differences 0 or 2e4: far from the underflow gap)
        for n in (2, 3, 4):
            for m in all_masks(n)[::2]:
                lg = [[1e4, -1e4, 0.0, 1e4][(j + len(m)) % 4] for j in range(n)]
                out.append({"fam": "ppo_disc", "space": "discrete", "nvec": [n], "logits": lg, "masks": [m, [1] * n], "single": False,
                            "training": False, "seeds": 8, "oseed": rng.randrange(10 ** 6), "extreme": True})
        # state across calls: a masked call followed by a mask-free call on the same agent
        for n in (2, 3, 4):
            for k in range(2):
                am = [all_masks(n)[(k * 3 + r) % len(all_masks(n))] for r in range(2)]
                out.append({"fam": "ppo_disc", "space": "discrete", "nvec": [n], "logits": [0.0] * n, "masks": None, "B": 2, "single": False,
                            "training": bool(k), "seeds": 8, "oseed": rng.randrange(10 ** 6), "after_masks": am})
        # Gaussian head with log-std outside [-20, 2]; huge exploration noise
        for bname in ("asym", "perdim", "f64"):
            for ls in (-30.0, 3.0, 10.0):
                for squash in (False, True):
                    d = len(self.BOXES[bname])
                    out.append({"fam": "ppo_box", "box": bname, "squash": squash, "training": False, "single": False, "obs": "vec", "B": 2,
                                "loc": [rng.choice([-6.0, 0.0, 3.0]) for _ in range(d)], "log_std": ls,
                                "z": [[rng.choice([-4.0, -0.5, 0.0, 1.0, 4.0]) for _ in range(d)] for _ in range(2)],
                                "oseed": rng.randrange(10 ** 6), "extreme": True})
            for fam in ("ddpg", "td3"):
                d = len(self.BOXES[bname])
                out.append({"fam": fam, "box": bname, "act": "Tanh", "pre": [30.0, -30.0, 0.0][:d], "training": True, "ou": fam == "td3",
                            "noise": [[1e30, -1e30, 1e-30][:d], [-1e30, 1e30, 0.0][:d]], "single": False, "B": 2, "obs": "vec",
                            "oseed": rng.randrange(10 ** 6), "extreme": True})
        # identical inputs in consecutive calls
        for fam in ("dqn", "rainbow", "cqn", "ucb", "ddpg", "td3", "maddpg_cont", "matd3_disc", "maddpg_disc", "ppo_box", "ppo_disc", "ippo"):
            for c in take(lambda c, fam=fam: c["fam"] == fam, per, stride=29):
                c["twice"] = True
                out.append(c)
        return out

    def gen_nondyadic(self, tier, rng):
        """Box spaces (float64 and float32) whose bounds are not float32-representable / not dyadic, a saturated policy and
        noise that pushes past the bound: the returned number must be INSIDE the space's own bounds, exactly"""
        out = []
        sat = [[30.0, -30.0, 30.0], [-30.0, 30.0, -30.0], [30.0, 30.0, 30.0], [-30.0, -30.0, -30.0]]
        k = 0
        for bname in ("f64", "f32nd"):
            for fam in ("ddpg", "td3"):
                for act in ("Tanh", "Sigmoid"):
                    pre_set = sat if act == "Tanh" else [[200.0 if v > 0 else -200.0 for v in p] for p in sat]
                    for training in (True, False):
                        for ou in ((False, True) if training else (False,)):
                            for single in (False, True):
                                reps = 2 if tier == "quick" else 6
                                for rep_ in range(reps):
                                    k += 1
                                    B = 1 if single else 3
                                    pre = pre_set[k % 4]
                                    noise = [[rng.choice([-0.8, 0.8, 0.8, -0.8, 0.0, 16.0, -16.0]) for _ in range(3)] for _ in range(B)]
                                    out.append({"fam": fam, "box": bname, "act": act, "pre": pre, "noise": noise, "training": training,
                                                "ou": ou, "single": single, "B": B, "obs": "vec", "oseed": rng.randrange(10 ** 6)})
            for fam in ("maddpg_cont", "matd3_cont"):
                for training in (True, False):
                    for ou in ((False, True) if training else (False,)):
                        for single in (False, True):
                            for rep_ in range(2 if tier == "quick" else 6):
                                k += 1
                                B = 1 if single else 2
                                other = "f32nd" if bname == "f64" else "f64"
                                out.append({"fam": fam, "boxes": [bname, other], "act": "Tanh", "training": training, "single": single,
                                            "B": B, "ou": ou, "pre": [sat[k % 4], sat[(k + 1) % 4]],
                                            "noise": [[[rng.choice([-0.8, 0.8, 0.0, 16.0, -16.0]) for _ in range(3)] for _ in range(B)] for _ in range(2)],
                                            "eda": None, "oseed": rng.randrange(10 ** 6)})
            for squash in (False, True):
                for single in (False, True):
                    for rep_ in range(2 if tier == "quick" else 6):
                        B = 1 if single else 3
                        out.append({"fam": "ppo_box", "box": bname, "squash": squash, "training": False, "single": single, "obs": "vec",
                                    "B": B, "loc": [rng.choice([-6.0, 0.0, 3.0]) for _ in range(3)],
                                    "z": [[rng.choice([-4.0, -0.5, 0.0, 1.0, 4.0]) for _ in range(3)] for _ in range(B)],
                                    "oseed": rng.randrange(10 ** 6)})
        return out

    OFFSETS = [7.5, -7.5, -150.0]

    def gen_offsets(self, tier, rng):
        """value functions far from zero (all values >> 0, all << -1, all << -100): every non-empty mask, epsilon in
        {0, 1/2, 1}, un-batched / batch of 1 / batch of 3, for every masked value-based learner"""
        out = []
        ns = [2, 3, 4]
        k = 0
        for n in ns:
            masks = all_masks(n)
            pats = tie_patterns(n)
            groups = [("b3", rows) for rows in chunks(masks, 3)] + [("b1", [m]) for m in masks] + [("single", [m]) for m in masks]
            for off in self.OFFSETS:
                for shape, rows in groups:
                    epss = (0.0, 0.5, 1.0) if (shape == "b3" or tier != "quick") else ((0.0, 0.5, 1.0)[k % 3],)
                    for eps in epss:
                        k += 1
                        q = [v + off for v in pats[k % len(pats)]]
                        single = shape == "single"
                        B = len(rows)
                        us = [draws_for(m, rng, ["adversarial", "random", "zeros"][(k + r) % 3]) for r, m in enumerate(rows)]
                        out.append({"fam": "dqn", "obs": "vec", "single": single, "n": n, "q": q, "masks": rows, "eps": eps,
                                    "coins": [[0.0, 0.25, 0.75][(k + r) % 3] for r in range(B)], "u": us, "oseed": rng.randrange(10 ** 6),
                                    "offset": off})
                        out.append({"fam": "cqn", "obs": "vec", "single": single, "n": n, "q": q, "masks": rows, "eps": eps,
                                    "coin": [0.0, 0.25, 0.75][k % 3], "u": us, "r": [rng.randrange(n) for _ in rows],
                                    "oseed": rng.randrange(10 ** 6), "offset": off})
                    k += 1
                    vals = [[v + off for v in pats[(k + r) % len(pats)]] for r in range(len(rows))]
                    out.append({"fam": "rainbow", "obs": "vec", "single": shape == "single", "n": n, "vals": vals, "masks": rows,
                                "training": bool(k % 2), "oseed": rng.randrange(10 ** 6), "offset": off})
                for m in masks:
                    for fam in ("ucb", "ts"):
                        k += 1
                        out.append({"fam": fam, "n": n, "vals": [v + off for v in pats[k % len(pats)]], "mask": m,
                                    "oseed": rng.randrange(10 ** 6), "offset": off})
        return out

    def gen_audit(self, prev, tier, rng):
        """inputs no other generator produces: caller-side dict key order != agent_ids, get_action defaults relied upon,
        non-uniform (random, observation-dependent) weights, latent dimension at its configured bound before a latent mutation"""
        out = []
        per = 4 if tier == "quick" else 12
        fresh = [c for c in prev if not c.get("hist") and not c.get("wrap") and c.get("args", "kw") == "kw"]

        def take(pred, k):
            pool = [c for c in fresh if pred(c)]
            return [dict(pool[(i * 11 + 3) % len(pool)]) for i in range(k)] if pool else []
        # key order
        for fam in ("ippo", "maddpg_disc", "matd3_disc", "maddpg_cont", "matd3_cont"):
            for c in take(lambda c, fam=fam: c["fam"] == fam and (c.get("masks") is not None or c.get("eda") is not None or fam.endswith("cont")), per * 2):
                c["korder"] = "rev"
                out.append(c)
        # defaults relied upon
        for pred in (lambda c: c["fam"] == "dqn" and c["eps"] == 0.0, lambda c: c["fam"] == "dqn" and c["masks"] is None,
                     lambda c: c["fam"] == "cqn" and (c["eps"] == 0.0 or c["masks"] is None),
                     lambda c: c["fam"] == "rainbow" and c["training"], lambda c: c["fam"] == "rainbow" and c["masks"] is None,
                     lambda c: c["fam"] in ("ddpg", "td3") and c["training"] and c["obs"] == "vec",
                     lambda c: c["fam"].startswith(("maddpg", "matd3")) and c["training"],
                     lambda c: c["fam"] == "ppo_disc" and c["masks"] is None, lambda c: c["fam"] == "ippo" and c["masks"] is None):
            for c in take(pred, per):
                c["args"] = "min"
                if c["fam"] in ("dqn", "cqn") and c["eps"] == 0.0:
                    # make a wrong default visible: coin 0, values increasing, draws decreasing (exploration would pick index 0)
                    n = c["n"]
                    c["q"] = [float(i) for i in range(n)]
                    rows = len(c["u"])
                    c["u"] = [[(n - j) / 8.0 for j in range(n)] for _ in range(rows)]
                    if c["fam"] == "dqn":
                        c["coins"] = [0.0] * rows
                    else:
                        c["coin"] = 0.0
                out.append(c)
        # non-uniform weights (recorded outputs feed model and oracle)
        for pred in (lambda c: c["fam"] == "dqn" and c["masks"] is not None and not c["single"],
                     lambda c: c["fam"] == "dqn" and c["obs"] == "dict", lambda c: c["fam"] == "cqn" and c["masks"] is not None,
                     lambda c: c["fam"] in ("ddpg", "td3") and c["act"] in ("Tanh", "Sigmoid") and c["box"] in ("asym", "perdim"),
                     lambda c: c["fam"] in ("maddpg_cont", "matd3_cont") and c["act"] == "Tanh",
                     lambda c: c["fam"] in ("maddpg_disc", "matd3_disc"),
                     lambda c: c["fam"] == "ppo_box" and not c["training"] and c["box"] in ("asym", "perdim")):
            for c in take(pred, per * 2):
                c["pin"] = False
                c["oseed"] = rng.randrange(10 ** 6)
                out.append(c)
        # latent dimension at its bound, then the latent mutation that would cross it (and its opposite)
        for pred in (lambda c: c["fam"] == "dqn" and c["masks"] is not None and c["obs"] == "vec" and not c["single"],
                     lambda c: c["fam"] == "ddpg" and c["act"] == "Tanh" and c["box"] == "asym" and c["obs"] == "vec",
                     lambda c: c["fam"] == "ppo_box" and c["squash"] and not c["training"] and c.get("obs", "vec") == "vec",
                     lambda c: c["fam"] == "maddpg_cont" and c["act"] == "Tanh" and not c["training"],
                     lambda c: c["fam"] == "ppo_disc" and c["masks"] is not None and c.get("obs", "vec") == "vec"):
            for lat, ops in (("max", ["arch:add_latent_node"]), ("max", ["arch:remove_latent_node", "clone"]),
                             ("min", ["arch:remove_latent_node"]), ("min", ["arch:add_latent_node", "ckpt"])):
                for c in take(pred, 1):
                    c["latent"] = lat
                    c["hist"] = ops
                    out.append(c)
        return out

    WRAPS = [(None, "pos", None), ("rsnorm", "kw", None), ("rsnorm", "pos", None), ("rsnorm_pop", "kw", None),
             ("rsnorm", "kw", ["clone"]), ("rsnorm_pop", "kw", ["ckpt"]), ("rsnorm", "kw", ["arch:add_latent_node"])]

    def gen_wrapped(self, fresh, tier, rng):
        """the same calls through AgentWrapper/RSNorm (RSNorm(agent) and Algo.population(wrapper_cls=RSNorm)), every
        get_action argument by keyword (as the training loops and test() do) and positionally"""
        pools = {}
        for c in fresh:
            if c.get("hist") or c.get("obs", "vec") != "vec":
                continue
            f = c["fam"]
            name = None
            if f in ("dqn", "rainbow", "cqn") and c["masks"] is not None and any(0 in m for m in c["masks"]):
                name = f + (":single" if c["single"] else "")
            elif f in ("ucb", "ts") and c["mask"] is not None and 0 in c["mask"]:
                name = f
            elif f == "ppo_disc" and c["masks"] is not None:
                name = "ppo_disc:" + c["space"]
            elif f in ("ippo", "maddpg_disc", "matd3_disc") and c["masks"] is not None:
                name = f + (":single" if c["single"] else "")
            elif f in ("ddpg", "td3", "maddpg_cont", "matd3_cont") and c.get("box", "asym") in ("asym", "perdim") and c.get("act") == "Tanh":
                name = f + (":train" if c["training"] else ":eval")
            elif f == "ppo_box" and not c["training"] and c["box"] == "asym":
                name = "ppo_box:" + ("squash" if c["squash"] else "clip")
            if name:
                pools.setdefault(name, []).append(c)
        out = []
        per = 3 if tier == "quick" else 8
        for name in sorted(pools):
            pool = pools[name]
            for wi, (wrap, style, hist) in enumerate(self.WRAPS):
                for k in range(per if hist is None else 1):
                    c = dict(pool[(wi * 5 + k * 7) % len(pool)])
                    if wrap:
                        c["wrap"] = wrap
                    c["args"] = style
                    if hist:
                        c["hist"] = list(hist)
                    c["oseed"] = rng.randrange(10 ** 6)
                    out.append(c)
        return out

    ARCH = ["head_net.add_layer", "head_net.remove_layer", "head_net.add_node", "head_net.remove_node",
            "encoder.add_node", "encoder.remove_node", "add_latent_node", "remove_latent_node"]
    HISTORIES = [["arch:" + a] for a in ARCH] + [["param"], ["act"], ["clone"], ["ckpt"],
                                                 ["arch:add_latent_node", "clone"], ["clone", "arch:remove_latent_node"],
                                                 ["arch:add_latent_node", "ckpt"], ["arch:head_net.add_layer", "arch:add_latent_node"],
                                                 ["arch:remove_latent_node", "arch:add_latent_node", "param"],
                                                 ["clone", "arch:add_latent_node", "clone"], ["arch:head_net.add_node", "ckpt"]]

    def gen_history(self, fresh, tier, rng):
        """the same calls on agents that first went through a history of evolutionary operations"""
        pools = {}

        def put(name, c):
            pools.setdefault(name, []).append(c)
        for c in fresh:
            f = c["fam"]
            if f == "dqn" and c["masks"] is not None and not c["single"]:
                put("dqn:" + ("composite" if c["obs"] in ("dict", "tuple") else "flat"), c)
            elif f in ("rainbow", "cqn") and c["masks"] is not None and c["obs"] == "vec":
                put(f, c)
            elif f in ("ucb", "ts") and c["mask"] is not None:
                put(f, c)
            elif f == "ddpg" and c["box"] in ("asym", "perdim") and c["obs"] == "vec":
                put(f"ddpg:{c['act']}", c)
            elif f == "td3" and c["box"] in ("asym", "perdim") and c["obs"] == "vec":
                put("td3", c)
            elif f in ("maddpg_cont", "matd3_cont") and c["act"] is not None:
                put(f + (":train" if c["training"] else ":eval"), c)
            elif f in ("maddpg_disc", "matd3_disc"):
                put(f, c)
            elif f == "ppo_box" and not c["training"] and c["box"] in ("sym", "asym", "perdim", "one") and c.get("obs", "vec") == "vec":
                put("ppo_box:" + ("squash" if c["squash"] else "clip"), c)
            elif f == "ppo_box" and c["training"] and c["squash"] and c.get("obs", "vec") == "vec":
                put("ppo_box:squash-train", c)
            elif f == "ppo_disc" and c["masks"] is not None and c.get("obs", "vec") == "vec":
                put("ppo_disc:" + c["space"], c)
            elif f == "ippo":
                put("ippo:" + ("train" if c["training"] else "eval"), c)
        out = []
        per = 1 if tier == "quick" else 3
        for name in sorted(pools):
            pool = pools[name]
            for hi, h in enumerate(self.HISTORIES):
                for k in range(per):
                    c = dict(pool[(hi * 7 + k * 3) % len(pool)])
                    c["hist"] = list(h)
                    c["oseed"] = rng.randrange(10 ** 6)
                    out.append(c)
        return out

    def logit_patterns(self, mask, rng):
        """legal logits low / masked high, ties, all within 80 of each other on the legal side"""
        n = len(mask)
        return [[(-40.0 if m else 40.0) for m in mask], [0.0] * n, [float((i * 7) % 5) for i in range(n)],
                [rng.choice([-40.0, -3.0, 0.0, 2.5, 40.0]) for _ in range(n)]]

    def gen_ppo(self, tier, rng):
        cases = []
        S = 24 if tier == "quick" else 200
        # Box policies: inference-mode clipping / squash + scale
        for bname in ("sym", "asym", "perdim", "one", "halfinf", "inf"):
            for squash in (False, True):
                if squash and bname in ("halfinf", "inf"):
                    continue
                for training in (False, True):
                    for single in (False, True):
                        for rep in range(1 if tier == "quick" else 6):
                            B = 1 if single else rng.choice([2, 3])
                            d = len(self.BOXES[bname])
                            cases.append({"fam": "ppo_box", "box": bname, "squash": squash, "training": training, "single": single,
                                          "obs": ["dict", "disc", "vec", "tuple"][(int(training) + 2 * int(single)) % 4] if bname == "asym" else "vec",
                                          "B": B, "loc": [rng.choice([-6.0, -0.5, 0.0, 0.25, 3.0]) for _ in range(d)],
                                          "z": [[rng.choice([-2.0, -0.5, 0.0, 1.0, 4.0]) for _ in range(d)] for _ in range(B)],
                                          "oseed": rng.randrange(10 ** 6)})
        # Discrete / MultiDiscrete / MultiBinary heads with masks
        for n in ([2, 3, 4] if tier == "quick" else [2, 3, 4, 5]):
            masks = all_masks(n)
            for rows in chunks(masks, 3):
                for k in range(2 if tier == "quick" else 4):
                    lg = self.logit_patterns(rows[0], rng)[k % 4]
                    cases.append({"fam": "ppo_disc", "space": "discrete", "nvec": [n], "logits": lg, "masks": rows, "single": False,
                                  "obs": ["vec", "dict", "disc"][(n + k) % 3],
                                  "training": bool(k % 2), "seeds": S, "oseed": rng.randrange(10 ** 6),
                                  "maskfmt": "object" if k == 1 else "array"})
            m = masks[rng.randrange(len(masks))]
            cases.append({"fam": "ppo_disc", "space": "discrete", "nvec": [n], "logits": self.logit_patterns(m, rng)[0], "masks": [m],
                          "single": True, "training": False, "seeds": S, "oseed": rng.randrange(10 ** 6)})
            cases.append({"fam": "ppo_disc", "space": "discrete", "nvec": [n], "logits": [0.0] * n, "masks": None, "B": 2,
                          "single": False, "training": True, "seeds": S, "oseed": rng.randrange(10 ** 6)})
        for nvec in ([[2, 3], [3, 2, 2]] if tier == "quick" else [[2, 3], [3, 2, 2], [4, 2], [2, 2, 2, 2]]):
            comp = [all_masks(k) for k in nvec]
            for rep in range(12 if tier == "quick" else 60):
                rows = [sum((rng.choice(c) for c in comp), []) for _ in range(rng.choice([1, 2, 3]))]
                lg = self.logit_patterns(rows[0], rng)[rep % 4]
                cases.append({"fam": "ppo_disc", "space": "multidiscrete", "nvec": nvec, "logits": lg, "masks": rows, "single": False,
                              "training": bool(rep % 2), "seeds": S, "oseed": rng.randrange(10 ** 6)})
        for n in (2, 3):
            for rows in chunks([list(m) for m in itertools.product([0, 1], repeat=n)], 3):
                for k in range(2):
                    lg = self.logit_patterns(rows[0], rng)[k * 3]
                    cases.append({"fam": "ppo_disc", "space": "multibinary", "nvec": [n], "logits": lg, "masks": rows, "single": False,
                                  "training": bool(k % 2), "seeds": S, "oseed": rng.randrange(10 ** 6)})
        # IPPO: two homogeneous Discrete agents sharing one actor + one Box agent
        for n in ([2, 3] if tier == "quick" else [2, 3, 4]):
            masks = all_masks(n)
            for mi, m in enumerate(masks):
                for training in (False, True):
                    for single in (False, True):
                        B = 1 if single else 2
                        ma = [masks[(mi + r) % len(masks)] for r in range(B)]
                        mb = [masks[(mi * 2 + 1 + r) % len(masks)] for r in range(B)]
                        bname = ["asym", "perdim", "halfinf"][mi % 3]
                        d = len(self.BOXES[bname])
                        cases.append({"fam": "ippo", "n": n, "box": bname, "training": training, "single": single, "B": B,
                                      "logits": self.logit_patterns(ma[0], rng)[mi % 4], "masks": None if mi % 5 == 4 else [ma, mb],
                                      "loc": [rng.choice([-6.0, 0.0, 3.0]) for _ in range(d)],
                                      "z": [[rng.choice([-2.0, 0.0, 4.0]) for _ in range(d)] for _ in range(B)],
                                      "seeds": max(4, S // 3), "oseed": rng.randrange(10 ** 6)})
        return cases

    MA_BOX_PAIRS = [("asym", "perdim"), ("perdim", "sym"), ("sym", "asym"), ("f64", "f32nd")]

    def gen_maddpg(self, tier, rng):
        cases = []
        nz = [-16.0, -1.0, -0.25, 0.0, 0.5, 2.0, 16.0]
        for fam in ("maddpg", "matd3"):
            # continuous: two agents with different per-dimension boxes
            for pair in self.MA_BOX_PAIRS:
                for act in ("Tanh", "Sigmoid", "Softsign", None):
                    for training in (True, False):
                        if act is None and not training:
                            continue        # un-squashed policy without the training clamp: no bound is claimed
                        for single in (False, True):
                            for rep in range(1 if tier == "quick" else 6):
                                B = 1 if single else rng.choice([2, 3])
                                dims = [len(self.BOXES[b]) for b in pair]
                                eda = None
                                if rng.random() < 0.4:
                                    eda = []
                                    for ai, d in enumerate(dims):
                                        lo_hi = self.BOXES[pair[ai]]
                                        rows = [[rng.choice([lo, hi, (lo + hi) / 2]) for lo, hi in lo_hi] if rng.random() < 0.5 else None
                                                for _ in range(B)]
                                        eda.append(rows)
                                cases.append({"fam": fam + "_cont", "boxes": list(pair), "act": act, "training": training,
                                              "single": single, "B": B, "ou": rng.random() < 0.3,
                                              "pre": [[rng.choice(self.PRE[act]) for _ in range(d)] for d in dims],
                                              "noise": [[[rng.choice(nz) for _ in range(d)] for _ in range(B)] for d in dims],
                                              "eda": eda, "oseed": rng.randrange(10 ** 6)})
            # discrete: per-agent masks, env-defined actions
            for n in ([2, 3] if tier == "quick" else [2, 3, 4]):
                masks = all_masks(n)
                logit_pats = [[0.0] * n, [float(i) for i in range(n)], [float(n - i) for i in range(n)], [1.0, 1.0] + [0.0] * (n - 2)]
                for mi, m in enumerate(masks):
                    for training in (True, False):
                        for single in (False, True):
                            B = 1 if single else 2
                            ma = [masks[(mi + r) % len(masks)] for r in range(B)]
                            mb = [masks[(mi * 3 + 1 + r) % len(masks)] for r in range(B)] if mi % 3 else None
                            eda = None
                            if mi % 4 == 1:
                                eda = [[rng.choice([None, rng.randrange(n)]) for _ in range(B)] for _ in range(2)]
                            cases.append({"fam": fam + "_disc", "n": n, "training": training, "single": single, "B": B,
                                          "ou": rng.random() < 0.3,
                                          "logits": [rng.choice(logit_pats), rng.choice(logit_pats)],
                                          "noise": [[[rng.choice([-4.0, 0.0, 0.0, 4.0]) for _ in range(n)] for _ in range(B)] for _ in range(2)],
                                          "masks": [ma, mb], "eda": eda, "oseed": rng.randrange(10 ** 6)})
        return cases

    def gen_value_based(self, tier, rng):
        cases = []
        ns = [2, 3, 4] if tier == "quick" else [2, 3, 4, 5]
        kinds = ["vec", "disc", "dict"]
        i = 0
        # Rainbow: per-row values (forward wrapped), all masks, training flag
        for n in ns:
            pats = tie_patterns(n)
            for rows in chunks(all_masks(n), 3):
                for k in range(2 if tier == "quick" else len(pats)):
                    i += 1
                    vals = [pats[(i * 7 + r * 3 + k) % len(pats)] for r in range(len(rows))]
                    cases.append({"fam": "rainbow", "obs": kinds[i % 3], "single": False, "n": n, "vals": vals,
                                  "masks": rows, "training": bool(i % 2), "oseed": rng.randrange(10 ** 6),
                                  "maskfmt": "object" if i % 3 == 0 else "array"})
            for k, q in enumerate(pats):
                m = all_masks(n)[(k * 3) % len(all_masks(n))]
                cases.append({"fam": "rainbow", "obs": "vec", "single": True, "n": n, "vals": [q], "masks": [m],
                              "training": bool(k % 2), "oseed": rng.randrange(10 ** 6)})
                cases.append({"fam": "rainbow", "obs": "vec", "single": False, "n": n, "vals": [q, pats[-1 - k]], "masks": None,
                              "training": bool(k % 2), "oseed": rng.randrange(10 ** 6)})
        # CQN: one coin per call
        for n in ns:
            pats = tie_patterns(n)
            for eps in (0.0, 0.5, 1.0):
                for rows in chunks(all_masks(n), 3):
                    for k in range(2 if tier == "quick" else 4):
                        i += 1
                        q = pats[(i * 5 + k) % len(pats)]
                        cases.append({"fam": "cqn", "obs": kinds[i % 3], "single": False, "n": n, "q": q, "masks": rows, "eps": eps,
                                      "coin": [0.0, 0.25, 0.75][(i + k) % 3],
                                      "u": [draws_for(m, rng, rng.choice(["adversarial", "zeros", "random"])) for m in rows],
                                      "r": [rng.randrange(n) for _ in rows], "oseed": rng.randrange(10 ** 6)})
                for k, q in enumerate(pats[:3]):
                    m = all_masks(n)[(k * 2 + 1) % len(all_masks(n))]
                    cases.append({"fam": "cqn", "obs": ["vec", "disc", "dict"][k % 3], "single": True, "n": n, "q": q, "masks": [m],
                                  "eps": eps, "coin": [0.0, 0.25, 0.75][k % 3], "u": [draws_for(m, rng, "adversarial")],
                                  "r": [rng.randrange(n)], "oseed": rng.randrange(10 ** 6)})
                for k, q in enumerate(pats[:4]):
                    cases.append({"fam": "cqn", "obs": kinds[k % 3], "single": False, "n": n, "q": q, "masks": None, "eps": eps,
                                  "coin": [0.0, 0.25, 0.75][k % 3], "u": [[0.0] * n] * 2, "r": [rng.randrange(n) for _ in range(2)],
                                  "oseed": rng.randrange(10 ** 6)})
        # bandits: one context matrix, scalar action
        for fam in ("ucb", "ts"):
            for n in ns:
                pats = tie_patterns(n)
                for j, m in enumerate(all_masks(n) + [None]):
                    for k in range(2 if tier == "quick" else 5):
                        i += 1
                        cases.append({"fam": fam, "n": n, "vals": pats[(i * 3 + k) % len(pats)], "mask": m,
                                      "oseed": rng.randrange(10 ** 6)})
        return cases

    def gen_dqn(self, tier, rng):
        cases = []
        ns = [2, 3, 4] if tier == "quick" else [2, 3, 4, 5]
        obs_kinds = ["vec", "disc", "dict"] if tier == "quick" else ["vec", "disc", "dict", "tuple", "img"]
        i = 0
        for n in ns:
            masks = all_masks(n)
            for q in tie_patterns(n):
                for eps in (0.0, 0.5, 1.0):
                    for rows in chunks(masks, 3):
                        i += 1
                        coins, us = [], []
                        for m in rows:
                            coins.append(rng.choice([0.0, 0.25, 0.75]))
                            us.append(draws_for(m, rng, rng.choice(["adversarial", "zeros", "random", "random"])))
                        cases.append({"fam": "dqn", "obs": obs_kinds[i % len(obs_kinds)], "single": False, "n": n, "q": q,
                                      "masks": rows, "eps": eps, "coins": coins, "u": us, "oseed": rng.randrange(10 ** 6),
                                      "maskfmt": "object" if i % 4 == 0 else "array"})
        # un-batched observations and calls without a mask
        for n in ns:
            for k, q in enumerate(tie_patterns(n)):
                m = all_masks(n)[(k * 5) % len(all_masks(n))]
                for eps in (0.0, 1.0):
                    cases.append({"fam": "dqn", "obs": "vec", "single": True, "n": n, "q": q, "masks": [m], "eps": eps,
                                  "coins": [0.0 if eps == 0.0 else 0.25], "u": [draws_for(m, rng, "adversarial")],
                                  "oseed": rng.randrange(10 ** 6)})
                cases.append({"fam": "dqn", "obs": "vec", "single": False, "n": n, "q": q, "masks": None, "eps": 0.5,
                              "coins": [0.25, 0.75], "u": [draws_for([1] * n, rng, "random") for _ in range(2)],
                              "oseed": rng.randrange(10 ** 6)})
        return cases

    BOXES = {
        "sym": [(-1.0, 1.0), (-1.0, 1.0)],
        "asym": [(0.0, 2.0), (-2.0, 5.0)],
        "perdim": [(-5.0, 5.0), (0.0, 1.0), (-0.5, 0.25)],
        "one": [(-2.0, 6.0)],
        "inf": [(None, None), (None, None)],
        "halfinf": [(None, None), (0.0, 2.0)],
        # bounds that are not float32-representable: float32(0.1) > 0.1, float32(-0.3) < -0.3, float32(-1.1) < -1.1
        "f64": FBox([(-0.3, 0.1), (-1.1, 0.7), (0.1, 0.9)], np.float64),
        "f32nd": FBox([(-0.3, 0.1), (-1.1, 0.7), (0.1, 0.9)], np.float32),
    }
    PRE = {"Tanh": [-30.0, 0.0, 30.0], "Sigmoid": [-200.0, 0.0, 200.0], "Softsign": [-3.0, -1.0, 0.0, 1.0, 3.0],
           None: [-7.0, -0.5, 0.0, 0.75, 9.0]}

    def gen_ddpg(self, tier, rng):
        cases = []
        for fam in ("ddpg", "td3"):
            for bname, box in self.BOXES.items():
                for act in ("Tanh", "Sigmoid", "Softsign", None):
                    if tier == "quick" and fam == "td3" and act in ("Sigmoid",):
                        continue
                    for training in (False, True):
                        for single in (False, True):
                            B = 1 if single else rng.choice([2, 3])
                            reps = 1 if tier == "quick" else 5
                            for _ in range(reps):
                                pre = [rng.choice(self.PRE[act]) for _ in box]
                                noise = [[rng.choice([-16.0, -1.0, -0.25, 0.0, 0.5, 2.0, 16.0]) for _ in box] for _ in range(B)]
                                kind = "vec"
                                if bname == "asym" and act == "Tanh":
                                    kind = ["dict", "disc", "tuple", "vec"][(int(training) * 2 + int(single)) % 4]
                                cases.append({"fam": fam, "box": bname, "act": act, "pre": pre, "noise": noise,
                                              "training": training, "ou": rng.random() < 0.3, "single": single, "B": B,
                                              "obs": kind, "oseed": rng.randrange(10 ** 6)})
        return cases

    # ---------------------------------------------------------------- implementation
    def run_impl(self, case):
        self._hist = case.get("hist")
        self._wrap = case.get("wrap")
        self._argstyle = case.get("args", "kw")
        self._applied = []
        CTX.update(latent=case.get("latent"), pin=case.get("pin", True), seed=case.get("oseed", 0), maskdtype=case.get("maskdtype"))
        self._argmod = []
        try:
            obs = getattr(self, "run_" + case["fam"].split("_")[0])(case)
        finally:
            self._hist = self._wrap = None
            self._argstyle = "kw"
            CTX.update(latent=None, pin=True, maskdtype=None)
            self._callee = None
        if case.get("hist"):
            obs["hist_applied"] = list(self._applied)
        if self._argmod:
            obs["args_modified"] = list(self._argmod)
        if case.get("twice") and "error" not in obs:          # identical inputs in consecutive calls on the same object
            self._hist, self._wrap, self._argstyle = case.get("hist"), case.get("wrap"), case.get("args", "kw")
            CTX.update(latent=case.get("latent"), pin=case.get("pin", True), seed=case.get("oseed", 0), maskdtype=case.get("maskdtype"))
            try:
                o2 = getattr(self, "run_" + case["fam"].split("_")[0])(case)
            finally:
                self._hist = self._wrap = None
                self._argstyle = "kw"
                CTX.update(latent=None, pin=True, maskdtype=None)
            k = "actions" if "actions" in obs else "action"
            obs["repeat_equal"] = ("error" not in o2) and o2.get(k) == obs.get(k)
        return obs

    def call(self, f):
        """run the implementation's get_action; an exception of the implementation is an observation"""
        try:
            return f(), None
        except AssertionError as e:
            if "scripted" in str(e):
                raise
            return None, f"{type(e).__name__}: {e}"
        except Exception as e:  # noqa: BLE001
            return None, f"{type(e).__name__}: {e}"

    def run_dqn(self, case):
        from agilerl.algorithms.dqn import DQN
        n, kind = case["n"], case["obs"]
        ag = self.agent(("dqn", kind, n), lambda: self.make(DQN, obs_space_of(kind), spaces.Discrete(n), net_config=small_cfg(kind)))
        pin(ag.actor, case["q"])
        B = len(case["coins"])
        obs = make_obs(kind, B, case["single"], random.Random(case["oseed"]))
        mask = mask_array(case["masks"], case["single"], case.get("maskfmt"))
        script = torch_uniform_script({(B, n): case["u"], (B,): case["coins"]})
        with wrap_forward(ag.actor) as rec, script:
            out, err = self.call(lambda: self.act(ag, obs, epsilon=case["eps"], action_mask=mask))
        if err:
            return {"error": err}
        return {"action": np.asarray(out).tolist(), "shape": list(np.asarray(out).shape),
                "dtype_kind": np.asarray(out).dtype.kind, "q": rec.outs[-1].reshape(B, n).tolist()}

    def ddpg_agent(self, fam, bname, act, B, ou, kind="vec"):
        from agilerl.algorithms.ddpg import DDPG
        from agilerl.algorithms.td3 import TD3
        cls = {"ddpg": DDPG, "td3": TD3}[fam]

        def build():
            cfg = small_cfg(kind)
            cfg["head_config"]["output_activation"] = act
            return self.make(cls, obs_space_of(kind), np_box(self.BOXES[bname]), net_config=cfg, share_encoders=False,
                       vect_noise_dim=B, O_U_noise=True, expl_noise=1.0, dt=1.0, theta=0.25)
        ag = self.agent((fam, bname, act, B, kind), build)
        ag.O_U_noise = ou
        return ag

    def run_ddpg(self, case):
        fam, box = case["fam"], self.BOXES[case["box"]]
        B, d = case["B"], len(box)
        ag = self.ddpg_agent(fam, case["box"], case["act"], B, case["ou"], case["obs"])
        pin(ag.actor, case["pre"])
        ag.current_noise = np.zeros((B, d))
        obs = make_obs(case["obs"], B, case["single"], random.Random(case["oseed"]))
        noise = np.array(case["noise"], dtype=np.float64)

        def normal(*a, size=None, **k):
            assert size is None or tuple(size) == noise.shape, f"unscripted normal draw of size {size}"
            return noise.copy()
        head_seq = ag.actor.head_net.model
        ys = []
        h = head_seq.register_forward_hook(lambda m, i, o: ys.append(o.detach().clone()))
        try:
            with record_attr_call(ag, "action_noise") as rn, patched((np.random, "normal", normal)):
                out, err = self.call(lambda: self.act(ag, obs, training=case["training"]))
        finally:
            h.remove()
        if err:
            return {"error": err}
        out = np.asarray(out)
        used = rn.rets[-1][1].reshape(B, d).tolist() if rn.rets else [[0.0] * d for _ in range(B)]
        return {"action": out.reshape(-1, d).tolist() if out.size == B * d else out.tolist(), "shape": list(out.shape),
                "dtype": str(out.dtype), "y": ys[-1].reshape(B, d).tolist(), "noise": used,
                "out_act": ag.actor.output_activation}

    run_td3 = run_ddpg

    def run_rainbow(self, case):
        from agilerl.algorithms.dqn_rainbow import RainbowDQN
        n, kind = case["n"], case["obs"]
        cfg = {"encoder_config": {"hidden_size": [8]}} if kind in ("vec", "disc") else {}
        ag = self.agent(("rainbow", kind, n), lambda: self.make(RainbowDQN, obs_space_of(kind), spaces.Discrete(n), net_config=cfg))
        B = len(case["vals"])
        obs = make_obs(kind, B, case["single"], random.Random(case["oseed"]))
        mask = mask_array(case["masks"], case["single"], case.get("maskfmt"))
        with wrap_forward(ag.actor, replace=case["vals"]) as rec:
            out, err = self.call(lambda: self.act(ag, obs, action_mask=mask, training=case["training"]))
        if err:
            return {"error": err}
        out = np.asarray(out)
        return {"action": out.reshape(-1).tolist(), "shape": list(out.shape), "dtype_kind": out.dtype.kind,
                "vals": rec.outs[-1].reshape(B, n).tolist()}

    def run_cqn(self, case):
        from agilerl.algorithms.cqn import CQN
        n, kind = case["n"], case["obs"]
        ag = self.agent(("cqn", kind, n), lambda: self.make(CQN, obs_space_of(kind), spaces.Discrete(n), net_config=small_cfg(kind)))
        pin(ag.actor, case["q"])
        B = len(case["u"])
        obs = make_obs(kind, B, case["single"], random.Random(case["oseed"]))
        mask = mask_array(case["masks"], case["single"])
        used = {"uniform": 0, "randint": 0, "coin": 0}

        def coin():
            used["coin"] += 1
            return case["coin"]

        def uniform(low=0.0, high=1.0, size=None):
            used["uniform"] += 1
            if tuple(size) != (B, n):           # the code asks for another batch size: serve it, the shape clause reports it
                used["size_mismatch"] = list(size)
                return np.zeros(size)
            return np.array(case["u"], dtype=np.float64)

        def randint(low, high=None, size=None, **k):
            used["randint"] += 1
            if (np.prod(size) if size is not None else 1) != B:
                used["size_mismatch"] = [int(size)] if np.isscalar(size) else list(size)
                return np.zeros(size, dtype=np.int64)
            return np.array(case["r"])
        with wrap_forward(ag.actor) as rec, patched((random, "random", coin), (np.random, "uniform", uniform),
                                                    (np.random, "randint", randint)):
            out, err = self.call(lambda: self.act(ag, obs, epsilon=case["eps"], action_mask=mask))
        if err:
            return {"error": err}
        out = np.asarray(out)
        q = rec.outs[-1].reshape(B, n).tolist() if rec.outs else [case["q"]] * B
        return {"action": out.reshape(-1).tolist(), "shape": list(out.shape), "dtype_kind": out.dtype.kind, "q": q, "used": used}

    def run_bandit(self, case):
        from agilerl.algorithms.neural_ts_bandit import NeuralTS
        from agilerl.algorithms.neural_ucb_bandit import NeuralUCB
        n, fam = case["n"], case["fam"]
        cls = {"ucb": NeuralUCB, "ts": NeuralTS}[fam]
        ag = self.agent((fam, n), lambda: self.make(cls, spaces.Box(-1, 1, (4,), np.float32), spaces.Discrete(n), net_config=small_cfg()))
        ctx = np.random.RandomState(case["oseed"]).uniform(-1, 1, (n, 4)).astype(np.float32)
        mask = None if case["mask"] is None else as_mask(case["mask"])
        with wrap_forward(ag.actor, replace=[[v] for v in case["vals"]]) as rec:
            out, err = self.call(lambda: self.act(ag, ctx, action_mask=mask))
        if err:
            return {"error": err}
        out = np.asarray(out)
        return {"action": out.reshape(-1).tolist(), "shape": list(out.shape), "dtype_kind": out.dtype.kind,
                "vals": rec.outs[-1].reshape(n).tolist()}

    run_ucb = run_bandit

    MA_IDS = ["a_0", "b_0"]

    def ma_agent(self, fam, act_spaces, key, act, B, ou):
        from agilerl.algorithms.maddpg import MADDPG
        from agilerl.algorithms.matd3 import MATD3
        cls = {"maddpg": MADDPG, "matd3": MATD3}[fam]

        def build():
            cfg = small_cfg()
            if act != "default":
                cfg["head_config"]["output_activation"] = act
            return self.make(cls, [obs_space_of("vec"), obs_space_of("vec")], act_spaces,
                       agent_ids=self.MA_IDS, net_config=cfg, vect_noise_dim=B, O_U_noise=True, expl_noise=1.0, dt=1.0, theta=0.25)
        ag = self.agent((fam, key, act, B), build)
        ag.O_U_noise = ou
        return ag

    def ma_noise_script(self, noise_per_agent):
        """torch.normal(mean, std, out=...) and Tensor.normal_() deliver the scripted matrices in call order"""
        queue = [torch.tensor(nz, dtype=torch.float32) for nz in noise_per_agent]
        state = {"i": 0}

        def nxt(shape):
            assert state["i"] < len(queue), "unscripted gaussian draw"
            v = queue[state["i"]]
            state["i"] += 1
            assert tuple(v.shape) == tuple(shape), f"unscripted gaussian draw of shape {tuple(shape)}"
            return v

        def normal(mean, std, *a, out=None, **k):
            v = nxt(out.shape if out is not None else torch.as_tensor(mean).shape)
            if out is not None:
                out.copy_(v)
                return out
            return v.clone()

        def normal_(self, *a, **k):
            with torch.no_grad():
                self.copy_(nxt(self.shape))
            return self
        return patched((torch, "normal", normal), (torch.Tensor, "normal_", normal_))

    def run_ma(self, case):
        fam, kind = case["fam"].split("_")
        B = case["B"]
        nag = 2
        if kind == "cont":
            boxes = [self.BOXES[b] for b in case["boxes"]]
            ag = self.ma_agent(fam, [np_box(b) for b in boxes], tuple(case["boxes"]), case["act"], B, case["ou"])
            dims = [len(b) for b in boxes]
            for i in range(nag):
                pin(ag.actors[i], case["pre"][i])
        else:
            n = case["n"]
            ag = self.ma_agent(fam, [spaces.Discrete(n), spaces.Discrete(n)], ("disc", n), "default", B, case["ou"])
            dims = [n, n]
            for i in range(nag):
                pin(ag.actors[i], case["logits"][i])
        for i in range(nag):
            ag.current_noise[i] = torch.zeros_like(ag.current_noise[i])
        rng = random.Random(case["oseed"])
        obs = {a: make_obs("vec", B, case["single"], rng) for a in self.MA_IDS}
        rev = case.get("korder") == "rev"        # caller-side key order differs from agent_ids
        if rev:
            obs = dict(reversed(list(obs.items())))
        infos = {a: {} for a in self.MA_IDS}
        if kind == "disc" and case["masks"] is not None:
            for i, a in enumerate(self.MA_IDS):
                if case["masks"][i] is not None:
                    infos[a]["action_mask"] = as_mask(case["masks"][i][0] if case["single"] else case["masks"][i])
        if case["eda"] is not None:
            for i, a in enumerate(self.MA_IDS):
                rows = case["eda"][i]
                if kind == "cont":
                    arr = np.array([[np.nan] * dims[i] if r is None else r for r in rows], dtype=np.float64)
                    infos[a]["env_defined_actions"] = (None if rows[0] is None else arr[0]) if case["single"] else arr
                else:
                    arr = np.array([np.nan if r is None else float(r) for r in rows])
                    infos[a]["env_defined_actions"] = (None if rows[0] is None else int(rows[0])) if case["single"] else arr
        if all(not v for v in infos.values()):
            infos = None
        elif rev:
            infos = dict(reversed(list(infos.items())))
        ys = [[] for _ in range(nag)]
        hooks = [ag.actors[i].head_net.model.register_forward_hook(lambda m, inp, o, i=i: ys[i].append(o.detach().clone()))
                 for i in range(nag)]
        gumbel = torch_uniform_script({(B, dims[0]): [[0.5] * dims[0]] * B})
        try:
            with record_attr_call(ag, "action_noise") as rn, self.ma_noise_script(case["noise"]), gumbel:
                out, err = self.call(lambda: self.act(ag, obs, training=case["training"], infos=infos))
        finally:
            for h in hooks:
                h.remove()
        if err:
            return {"error": err}
        cont, disc = out
        used = [[[0.0] * dims[i] for _ in range(B)] for i in range(nag)]
        for a, r in rn.rets:
            used[a[0]] = r.reshape(B, dims[a[0]]).tolist()
        res = {"y": [ys[i][-1].reshape(B, dims[i]).tolist() for i in range(nag)], "noise": used,
               "out_act": [ag.actors[i].output_activation for i in range(nag)]}
        if kind == "cont":
            res["action"] = [np.asarray(cont[a]).reshape(-1, dims[i]).tolist() for i, a in enumerate(self.MA_IDS)]
            res["shape"] = [list(np.asarray(cont[a]).shape) for a in self.MA_IDS]
            res["disc_is_none"] = disc is None
        else:
            res["action"] = [np.asarray(disc[a]).reshape(-1).tolist() for a in self.MA_IDS]
            res["shape"] = [list(np.asarray(disc[a]).shape) for a in self.MA_IDS]
            res["dtype_kind"] = [np.asarray(disc[a]).dtype.kind for a in self.MA_IDS]
        return res

    run_maddpg = run_ma

    def normal_sample_script(self, z, rec):
        """Normal.sample returns loc + z * scale for the scripted standard draws z (recorded in rec)"""
        zt = torch.tensor(z, dtype=torch.float32)

        def sample(dist, sample_shape=torch.Size()):
            assert tuple(dist.loc.shape) == tuple(zt.shape), f"unscripted Normal sample of shape {tuple(dist.loc.shape)}"
            s = dist.loc + zt * dist.scale
            rec.append(s.detach().clone())
            return s.detach()
        return patched((torch.distributions.Normal, "sample", sample), (torch.distributions.Normal, "rsample", sample))

    def run_ppo(self, case):
        from agilerl.algorithms.ppo import PPO
        if case["fam"] == "ppo_box":
            bname, sq = case["box"], case["squash"]
            box = self.BOXES[bname]
            B, d = case["B"], len(box)

            okind = case.get("obs", "vec")

            def build():
                cfg = small_cfg(okind)
                if sq:
                    cfg["squash_output"] = True
                return self.make(PPO, obs_space_of(okind), np_box(box), net_config=cfg, share_encoders=False)
            ag = self.agent(("ppo_box", bname, sq, okind), build)
            pin(ag.actor, case["loc"])
            if case.get("log_std") is not None:               # extreme but legal spread of the Gaussian head
                with torch.no_grad():
                    ag.actor.head_net.log_std.fill_(case["log_std"])
            ag.set_training_mode(case["training"])
            obs = make_obs(okind, B, case["single"], random.Random(case["oseed"]))
            rec = []
            with self.normal_sample_script(case["z"], rec):
                out, err = self.call(lambda: self.act(ag, obs))
            ag.set_training_mode(True)
            if err:
                return {"error": err}
            a = np.asarray(out[0])
            s = rec[-1].reshape(B, d)
            return {"action": a.reshape(-1, d).tolist() if a.size == B * d else fl(a), "shape": list(a.shape),
                    "s": s.tolist(), "t": torch.tanh(s).tolist(), "logp_shape": list(np.asarray(out[1]).shape)}
        # discrete heads
        kind, nvec = case["space"], case["nvec"]
        sp = {"discrete": lambda: spaces.Discrete(nvec[0]), "multidiscrete": lambda: spaces.MultiDiscrete(nvec),
              "multibinary": lambda: spaces.MultiBinary(nvec[0])}[kind]()
        okind = case.get("obs", "vec")
        ag = self.agent(("ppo_disc", kind, tuple(nvec), okind),
                        lambda: self.make(PPO, obs_space_of(okind), sp, net_config=small_cfg(okind), share_encoders=False))
        pin(ag.actor, case["logits"])
        ag.set_training_mode(case["training"])
        B = len(case["masks"]) if case["masks"] is not None else case["B"]
        obs = make_obs(okind, B, case["single"], random.Random(case["oseed"]))
        mask = mask_array(case["masks"], case["single"], case.get("maskfmt"))
        if case.get("after_masks") is not None:      # an earlier call on the same agent WITH a mask must not leak into this one
            self.call(lambda: ag.get_action(obs, action_mask=np.array(case["after_masks"])))
        acts, support, err = [], None, None
        for sd in range(case["seeds"]):
            torch.manual_seed(case["oseed"] + sd)
            out, err = self.call(lambda: self.act(ag, obs, action_mask=mask))
            if err:
                break
            a = np.asarray(out[0])
            acts.append(a.reshape(B, -1).tolist())
            if support is None:
                shape = list(a.shape)
                support = self.head_support(ag.actor.head_net.dist.distribution, B)
        ag.set_training_mode(True)
        if err:
            return {"error": err}
        return {"actions": acts, "shape": shape, "support": support}

    def head_support(self, dist, B):
        """per row: indices (or bits) whose probability is > 0 in the distribution the action was sampled from"""
        if isinstance(dist, list):
            return [[[int(j) for j in torch.nonzero(c.probs[r] > 0).reshape(-1)] for c in dist] for r in range(B)]
        if isinstance(dist, torch.distributions.Bernoulli):
            return [[bool(x) for x in (dist.probs[r] > 0)] for r in range(B)]
        return [[int(j) for j in torch.nonzero(dist.probs[r] > 0).reshape(-1)] for r in range(B)]

    IPPO_IDS = ["a_0", "a_1", "b_0"]

    def run_ippo(self, case):
        from agilerl.algorithms.ippo import IPPO
        n, bname = case["n"], case["box"]
        box = self.BOXES[bname]
        B, d = case["B"], len(box)
        vec = obs_space_of("vec")
        ag = self.agent(("ippo", n, bname), lambda: self.make(IPPO, [vec, vec, vec],
                                                               [spaces.Discrete(n), spaces.Discrete(n), np_box(box)],
                                                               agent_ids=self.IPPO_IDS, net_config=small_cfg()))
        pin(ag.actors[0], case["logits"])
        pin(ag.actors[1], case["loc"])
        ag.set_training_mode(case["training"])
        rng = random.Random(case["oseed"])
        obs = {a: make_obs("vec", B, case["single"], rng) for a in self.IPPO_IDS}
        infos = None
        if case["masks"] is not None:
            infos = {"b_0": {}}
            for i, a in enumerate(("a_0", "a_1")):
                infos[a] = {"action_mask": as_mask(case["masks"][i][0] if case["single"] else case["masks"][i])}
        if case.get("korder") == "rev":          # caller-side key order differs from agent_ids (obs and infos differently)
            obs = dict(reversed(list(obs.items())))
            if infos is not None:
                infos = {a: infos[a] for a in ("a_1", "b_0", "a_0")}
        acts, support, err, rec = [], None, None, []
        with self.normal_sample_script(case["z"], rec):
            for sd in range(case["seeds"]):
                torch.manual_seed(case["oseed"] + sd)
                out, err = self.call(lambda: self.act(ag, obs, infos=infos))
                if err:
                    break
                ad = out[0]
                acts.append({a: np.asarray(ad[a]).reshape(B, -1).tolist() for a in self.IPPO_IDS})
                if support is None:
                    shapes = {a: list(np.asarray(ad[a]).shape) for a in self.IPPO_IDS}
                    support = self.head_support(ag.actors[0].head_net.dist.distribution, 2 * B)
        ag.set_training_mode(True)
        if err:
            return {"error": err}
        return {"actions": acts, "shapes": shapes, "support": support, "s": rec[-1].reshape(B, d).tolist()}
    run_matd3 = run_ma
    run_ts = run_bandit

    # ---------------------------------------------------------------- model terms
    def coq_term(self, case, obs):
        if "error" in obs:
            return None
        try:
            return getattr(self, "term_" + case["fam"].split("_")[0])(case, obs)
        except (OverflowError, ValueError):
            return "false"          # a non-finite number in the observation: no model value can agree with it

    def term_dqn(self, case, obs):
        n = case["n"]
        B = len(case["coins"])
        masks = case["masks"] if case["masks"] is not None else [[1] * n] * B
        rows = [f"mk_dqn {qlist(obs['q'][r])} {qlist(case['u'][r])} {coq_Q(case['coins'][r])} {blist(masks[r])}"
                for r in range(B)]
        return f"check_dqn {coq_Q(case['eps'])} [{'; '.join(rows)}] {nlist(np.asarray(obs['action']).reshape(-1))}"

    def term_ddpg(self, case, obs):
        box = self.BOXES[case["box"]]
        if obs["shape"] != [case["B"], len(box)]:
            return "false"
        rows = "; ".join(f"({qlist(y)}, {qlist(nz)})" for y, nz in zip(obs["y"], obs["noise"]))
        o = "; ".join(qlist(r) for r in obs["action"])
        return (f"check_ddpg {TOL} {coq_bool(case['training'])} {ACT_CLASS[case['act']]} {coq_box(box)} "
                f"[{rows}] [{o}]")

    term_td3 = term_ddpg

    def term_rainbow(self, case, obs):
        B = len(case["vals"])
        masks = case["masks"] if case["masks"] is not None else [None] * B
        rows = "; ".join(f"({qlist(v)}, {omask(m)})" for v, m in zip(obs["vals"], masks))
        return f"check_greedy [{rows}] {nlist(obs['action'])}"

    def term_cqn(self, case, obs):
        B = len(case["u"])
        if obs["shape"] != [B]:
            return "false"
        masks = case["masks"] if case["masks"] is not None else [None] * B
        rows = "; ".join(f"mk_cqn {qlist(obs['q'][r])} {qlist(case['u'][r])} {coq_nat(case['r'][r])} {omask(masks[r])}"
                         for r in range(B))
        return f"check_cqn {coq_Q(case['coin'])} {coq_Q(case['eps'])} [{rows}] {nlist(obs['action'])}"

    def term_bandit(self, case, obs):
        if len(obs["action"]) != 1:
            return "false"
        return f"check_greedy [({qlist(obs['vals'])}, {omask(case['mask'])})] {nlist(obs['action'])}"

    term_ucb = term_bandit

    def term_ma(self, case, obs):
        fam, kind = case["fam"].split("_")
        B = case["B"]
        terms = []
        for i in range(2):
            eda = case["eda"][i] if case["eda"] is not None else [None] * B
            if kind == "cont":
                box = self.BOXES[case["boxes"][i]]
                d = len(box)
                if obs["shape"][i] != [B, d]:
                    return "false"
                rows = []
                for r in range(B):
                    e = "[" + "; ".join("None" if eda[r] is None else f"(Some {coq_Q(v)})" for v in (eda[r] or [0] * d)) + "]"
                    rows.append(f"({qlist(obs['y'][i][r])}, {qlist(obs['noise'][i][r])}, {e})")
                o = "; ".join(qlist(x) for x in obs["action"][i])
                terms.append(f"check_maddpg_cont {TOL} {coq_bool(case['training'])} {ACT_CLASS[obs['out_act'][i]]} {coq_box(box)} "
                             f"[{'; '.join(rows)}] [{o}]")
            else:
                masks = case["masks"][i] if (case["masks"] is not None and case["masks"][i] is not None) else [None] * B
                if len(obs["action"][i]) != B:
                    return "false"
                rows = "; ".join(f"({qlist(obs['y'][i][r])}, {qlist(obs['noise'][i][r])}, {omask(masks[r])}, "
                                 + ("None" if eda[r] is None else f"(Some {coq_nat(eda[r])})") + ")" for r in range(B))
                terms.append(f"check_maddpg_disc {coq_bool(case['training'])} [{rows}] {nlist(obs['action'][i])}")
        return "(" + " && ".join(terms) + ")%bool"

    term_maddpg = term_ma

    def term_ppo(self, case, obs):
        if case["fam"] == "ppo_box":
            if case["training"]:
                return None        # the property claims bounds for evaluation mode only
            box = self.BOXES[case["box"]]
            if obs["shape"] != [case["B"], len(box)]:
                return "false"
            rows = "; ".join(qlist(r) for r in (obs["t"] if case["squash"] else obs["s"]))
            o = "; ".join(qlist(r) for r in obs["action"])
            return f"check_ppo_eval {TOL} {coq_bool(case['squash'])} {coq_box(box)} [{rows}] [{o}]"
        nvec = case["nvec"]
        B = len(obs["support"])
        masks = case["masks"] if case["masks"] is not None else [[1] * sum(nvec)] * B
        lg = qlist(case["logits"])
        ts = []
        for r in range(B):
            if case["space"] == "discrete":
                ts.append(f"check_support {lg} {blist(masks[r])} {nlist(obs['support'][r])}")
            elif case["space"] == "multidiscrete":
                sup = "[" + "; ".join(nlist(c) for c in obs["support"][r]) + "]"
                ts.append(f"check_multi_support {nlist(nvec)} {lg} {blist(masks[r])} {sup}")
            else:
                ts.append(f"check_binary_support {lg} {blist(masks[r])} {blist(obs['support'][r])}")
        return "(" + " && ".join(ts) + ")%bool"

    def term_ippo(self, case, obs):
        n, B = case["n"], case["B"]
        lg = qlist(case["logits"])
        masks = case["masks"] if case["masks"] is not None else [[[1] * n] * B] * 2
        stacked = "[" + "; ".join("[" + "; ".join(blist(m) for m in per_agent) + "]" for per_agent in masks) + "]"
        sup = "[" + "; ".join(nlist(x) for x in obs["support"]) + "]"
        ts = [f"check_ippo_supports {lg} {stacked} {sup}"]
        if not case["training"]:
            box = self.BOXES[case["box"]]
            o = "; ".join(qlist(r) for r in obs["actions"][-1]["b_0"])
            rows = "; ".join(qlist(r) for r in obs["s"])
            ts.append(f"check_ppo_eval {TOL} false {coq_box(box)} [{rows}] [{o}]")
        return "(" + " && ".join(ts) + ")%bool"
    term_matd3 = term_ma
    term_ts = term_bandit

    # ---------------------------------------------------------------- oracle
    def oracle(self, case, obs):
        fam = case["fam"]
        if "error" in obs:
            et = obs["error"].split(":")[0]
            return [Violation("raises", f"{fam}:raises:{et}:{self.site(case)}",
                              f"get_action raised instead of returning a legal action: {obs['error']}")]
        out = getattr(self, "oracle_" + fam.split("_")[0])(case, obs)
        for n in obs.get("args_modified", []):
            out.append(Violation("arguments", f"{fam}:argument-modified:{n}",
                                 f"get_action wrote into the caller's `{n}` argument (compared with a deep copy taken before the call)"))
        if obs.get("repeat_equal") is False:
            out.append(Violation("repeat", f"{fam}:not-repeatable",
                                 "the same call with the same scripted draws on the same agent returned a different action the second time"))
        return out

    def site(self, case):
        fam = case["fam"]
        if fam in ("ppo_box",):
            return ("squash" if case.get("squash") else "clip") + ("-train" if case.get("training") else "-eval")
        if fam == "cqn" and case["obs"] in ("dict", "tuple"):
            return "composite-obs"
        if case.get("wrap"):
            return "rsnorm"
        if case.get("korder") == "rev":
            return "key-order"
        return "call"

    def oracle_dqn(self, case, obs):
        out = []
        n, B = case["n"], len(case["coins"])
        a = np.asarray(obs["action"])
        if obs["shape"] != [B] or obs["dtype_kind"] not in "iu":
            return [Violation("shape", "dqn:shape", f"action has shape {obs['shape']} kind {obs['dtype_kind']}, expected ({B},) integers")]
        masks = case["masks"] if case["masks"] is not None else [[1] * n] * B
        for r in range(B):
            q = np.asarray(case["q"] if case.get("pin", True) else obs["q"][r], dtype=np.float64)
            ar = int(a[r])
            if not (0 <= ar < n):
                out.append(Violation("member", "dqn:not-in-space", f"row {r}: action {ar} not in Discrete({n})"))
                continue
            if not masks[r][ar]:
                zero = case["u"][r][ar] is not None and any(case["u"][r][j] == 0.0 for j in range(n) if masks[r][j])
                out.append(Violation("mask", "dqn:masked-action" + (":zero-draw" if zero else ""),
                                     f"row {r}: masked action {ar} chosen (mask {masks[r]}, draws {case['u'][r]}, coin {case['coins'][r]}, eps {case['eps']})"))
                continue
            if case["eps"] == 0.0:
                best = max(q[j] for j in range(n) if masks[r][j])
                if q[ar] != best:
                    out.append(Violation("greedy", "dqn:not-greedy-eps0" + (":zero-coin" if case["coins"][r] == 0.0 else ""),
                                         f"row {r}: epsilon=0 but action {ar} (value {q[ar]}) is not the best legal action "
                                         f"(best value {best}, mask {masks[r]}, coin {case['coins'][r]})"))
        return out

    def oracle_ddpg(self, case, obs):
        fam = case["fam"]
        box = self.BOXES[case["box"]]
        sp = np_box(box)
        B, d = case["B"], len(box)
        if obs["shape"] != [B, d]:
            return [Violation("shape", f"{fam}:shape", f"action has shape {obs['shape']}, expected {[B, d]}")]
        a = np.asarray(obs["action"], dtype=np.float64)
        out = []
        for r in range(B):
            if not np.all(np.isfinite(a[r])):
                out.append(Violation("bounds", f"{fam}:non-finite", f"row {r}: action {a[r].tolist()} is not a finite vector (box {box})"))
            elif not in_space(sp, a[r]):
                bad = [j for j in range(d) if not (float(sp.low[j]) <= a[r][j] <= float(sp.high[j]))]
                out.append(Violation("bounds", f"{fam}:out-of-bounds", f"row {r}: action {[repr(x) for x in a[r].tolist()]} outside {box} "
                                     f"(dims {bad}, space dtype {sp.dtype}, returned dtype {obs.get('dtype')})"))
            elif self.out_of_act_range(case["act"], obs["y"][r]):
                out.append(Violation("activation", f"{fam}:activation-range", f"row {r}: the policy head advertises {case['act']} "
                                     f"but its output {obs['y'][r]} leaves that activation's range (rescale_action assumes it)"))
            elif not case["training"]:
                # exploration off: the policy's own (rescaled) action, wherever that lies inside the box, is returned unchanged
                pol = self.policy_action(case["act"], box, obs["y"][r])
                if all(sp.low[j] <= pol[j] <= sp.high[j] for j in range(d)) and \
                        any(abs(float(a[r][j]) - pol[j]) > 1e-5 * (1 + abs(pol[j])) for j in range(d)):
                    out.append(Violation("policy", f"{fam}:eval-not-policy-action",
                                         f"row {r}: training=False returned {a[r].tolist()} but the policy's action is {pol} (box {box})"))
        return out

    @staticmethod
    def out_of_act_range(act, y):
        rng_ = {"Tanh": (-1.0, 1.0), "Softsign": (-1.0, 1.0), "Sigmoid": (0.0, 1.0)}.get(act)
        return rng_ is not None and any(not (rng_[0] <= float(v) <= rng_[1]) for v in y)

    @staticmethod
    def policy_action(act, box, y):
        """float64 reference of DeterministicActor.rescale_action on the recorded activation output y"""
        rng_ = {"Tanh": (-1.0, 1.0), "Softsign": (-1.0, 1.0), "Sigmoid": (0.0, 1.0), "Softmax": (0.0, 1.0), "GumbelSoftmax": (0.0, 1.0)}.get(act)
        if rng_ is None or any(lo is None or hi is None for lo, hi in box):
            return [float(v) for v in y]
        return [lo + (hi - lo) * (float(v) - rng_[0]) / (rng_[1] - rng_[0]) for v, (lo, hi) in zip(y, box)]

    oracle_td3 = oracle_ddpg

    def discrete_rows(self, fam, n, actions, masks, vals, greedy, shape_ok, what=""):
        """membership, mask legality and (where greedy[r]) optimality of one discrete action per row"""
        out = []
        if not shape_ok:
            return [Violation("shape", f"{fam}:shape", f"action has the wrong shape/dtype {what}")]
        for r, a in enumerate(actions):
            m = masks[r] if masks[r] is not None else [1] * n
            if a != int(a) or not (0 <= int(a) < n):
                out.append(Violation("member", f"{fam}:not-in-space", f"row {r}: action {a} not in Discrete({n})"))
                continue
            a = int(a)
            if not m[a]:
                out.append(Violation("mask", f"{fam}:masked-action", f"row {r}: masked action {a} chosen (mask {m}) {what}"))
                continue
            if greedy[r]:
                v = np.asarray(vals[r], dtype=np.float64)
                best = max(v[j] for j in range(n) if m[j])
                if v[a] != best:
                    out.append(Violation("greedy", f"{fam}:not-greedy", f"row {r}: action {a} (value {v[a]}) is not the best "
                                         f"legal action (values {v.tolist()}, mask {m}) {what}"))
        return out

    def oracle_rainbow(self, case, obs):
        B = len(case["vals"])
        masks = case["masks"] if case["masks"] is not None else [None] * B
        return self.discrete_rows("rainbow", case["n"], obs["action"], masks, case["vals"], [True] * B,
                                  obs["shape"] == [B] and obs["dtype_kind"] in "iu")

    def oracle_cqn(self, case, obs):
        B = len(case["u"])
        masks = case["masks"] if case["masks"] is not None else [None] * B
        greedy = case["eps"] == 0.0 or case["coin"] >= case["eps"]
        if obs["shape"] != [B]:
            comp = ":composite-obs" if case["obs"] in ("dict", "tuple") else ""
            return [Violation("shape", f"cqn:shape{comp}", f"{B} observation(s) of kind {case['obs']} but the action has shape "
                              f"{obs['shape']} (eps {case['eps']}, coin {case['coin']}, draws requested {obs['used'].get('size_mismatch')})")]
        return self.discrete_rows("cqn", case["n"], obs["action"], masks, [case["q"]] * B if case.get("pin", True) else obs["q"], [greedy] * B,
                                  obs["shape"] == [B] and obs["dtype_kind"] in "iu",
                                  f"(eps {case['eps']}, coin {case['coin']}, draws {case['u']})")

    def oracle_bandit(self, case, obs):
        return self.discrete_rows(case["fam"], case["n"], obs["action"], [case["mask"]], [case["vals"]], [True],
                                  obs["shape"] == [] and obs["dtype_kind"] in "iu")

    oracle_ucb = oracle_bandit

    def oracle_ma(self, case, obs):
        fam, kind = case["fam"].split("_")
        B = case["B"]
        out = []
        for i, aid in enumerate(self.MA_IDS):
            eda = case["eda"][i] if case["eda"] is not None else [None] * B
            if kind == "cont":
                box = self.BOXES[case["boxes"][i]]
                sp = np_box(box)
                if obs["shape"][i] != [B, len(box)]:
                    out.append(Violation("shape", f"{fam}:shape", f"agent {aid}: action shape {obs['shape'][i]}, expected {[B, len(box)]}"))
                    continue
                a = np.asarray(obs["action"][i], dtype=np.float64)
                for r in range(B):
                    if not in_space(sp, a[r]):
                        out.append(Violation("bounds", f"{fam}:out-of-bounds" + ("" if case["training"] else ":eval")
                                             + (":nondyadic" if isinstance(box, FBox) else ""),
                                             f"agent {aid} row {r}: action {[repr(x) for x in a[r].tolist()]} outside {box} (space dtype {sp.dtype})"))
                    if eda[r] is not None and a[r].tolist() != [float(sp.dtype.type(v)) for v in eda[r]] \
                            and a[r].tolist() != [float(np.float32(v)) for v in eda[r]]:      # a float32 policy stores them as float32
                        out.append(Violation("env-defined", f"{fam}:env-defined-ignored",
                                             f"agent {aid} row {r}: env-defined action {eda[r]} not returned ({a[r].tolist()})"))
            else:
                n = case["n"]
                masks = case["masks"][i] if (case["masks"] is not None and case["masks"][i] is not None) else [None] * B
                shape_ok = obs["shape"][i] in ([B], [B, 1]) and obs["dtype_kind"][i] in "iu"
                # rows with an env-defined action are the environment's responsibility
                acts = [a if eda[r] is None else None for r, a in enumerate(obs["action"][i])]
                vals = obs["y"][i]
                vs = self.discrete_rows(fam, n, [a for a in acts if a is not None],
                                        [m for m, a in zip(masks, acts) if a is not None],
                                        [v for v, a in zip(vals, acts) if a is not None],
                                        [not case["training"]] * B, shape_ok, f"(agent {aid})")
                out += vs
                for r in range(min(B, len(obs["action"][i]))):
                    if eda[r] is not None and obs["action"][i][r] != eda[r]:
                        out.append(Violation("env-defined", f"{fam}:env-defined-ignored",
                                             f"agent {aid} row {r}: env-defined action {eda[r]} not returned ({obs['action'][i][r]})"))
        return out

    oracle_maddpg = oracle_ma

    def legal_sample(self, space, nvec, a, mask):
        """None if the sampled action a (flat list) is a legal member, else a description"""
        if space == "discrete":
            x = a[0]
            if x != int(x) or not (0 <= x < nvec[0]):
                return "not-in-space"
            return None if mask[int(x)] else "masked-action"
        if space == "multidiscrete":
            off = 0
            for c, k in enumerate(nvec):
                x = a[c]
                if x != int(x) or not (0 <= x < k):
                    return "not-in-space"
                if not mask[off + int(x)]:
                    return "masked-action"
                off += k
            return None
        for j, x in enumerate(a):
            if x not in (0, 1):
                return "not-in-space"
            if x == 1 and not mask[j]:
                return "masked-action"
        return None

    def oracle_ppo(self, case, obs):
        out = []
        if case["fam"] == "ppo_box":
            box = self.BOXES[case["box"]]
            B, d = case["B"], len(box)
            if obs["shape"] != [B, d]:
                return [Violation("shape", f"ppo_box:shape:dim{d}", f"action shape {obs['shape']}, expected {[B, d]}: the row of a "
                                  f"batch is not an element of the {d}-dimensional Box")]
            if not case["training"]:
                sp = np_box(box)
                a = np.asarray(obs["action"], dtype=np.float64)
                for r in range(B):
                    if not in_space(sp, a[r]):
                        out.append(Violation("bounds", "ppo_box:out-of-bounds:" + self.site(case),
                                             f"row {r}: evaluation-mode action {[repr(x) for x in a[r].tolist()]} outside {box}"))
            return out
        nvec, space = case["nvec"], case["space"]
        B = len(obs["support"])
        width = {"discrete": 1, "multidiscrete": len(nvec), "multibinary": nvec[0]}[space]
        want = [B] if space == "discrete" else [B, width]
        if obs["shape"] != want:
            return [Violation("shape", f"ppo_disc:shape:{space}", f"action shape {obs['shape']}, expected {want}")]
        masks = case["masks"] if case["masks"] is not None else [[1] * sum(nvec)] * B
        for sd, acts in enumerate(obs["actions"]):
            for r in range(B):
                why = self.legal_sample(space, nvec, acts[r], masks[r])
                if why:
                    out.append(Violation("sample", f"ppo_disc:{why}:{space}", f"seed {sd} row {r}: sampled action {acts[r]} "
                                         f"with mask {masks[r]} and logits {case['logits']}"))
                    return out
        return out

    def oracle_ippo(self, case, obs):
        out = []
        n, B = case["n"], case["B"]
        box = self.BOXES[case["box"]]
        sp = np_box(box)
        for a in self.IPPO_IDS:
            want = [[B, len(box)]] if a == "b_0" else [[B], [B, 1]]
            if obs["shapes"][a] not in want:
                return [Violation("shape", "ippo:shape", f"agent {a}: action shape {obs['shapes'][a]}, expected one of {want}")]
        for sd, acts in enumerate(obs["actions"]):
            for i, a in enumerate(("a_0", "a_1")):
                for r in range(B):
                    m = case["masks"][i][r] if case["masks"] is not None else [1] * n
                    why = self.legal_sample("discrete", [n], acts[a][r], m)
                    if why:
                        out.append(Violation("sample", f"ippo:{why}", f"seed {sd} agent {a} row {r}: sampled action {acts[a][r]} "
                                             f"with mask {m} and logits {case['logits']}"))
                        return out
            if not case["training"]:
                for r in range(B):
                    if not in_space(sp, acts["b_0"][r]):
                        out.append(Violation("bounds", "ippo:out-of-bounds:eval", f"agent b_0 row {r}: {acts['b_0'][r]} outside {box}"))
                        return out
        return out
    oracle_matd3 = oracle_ma
    oracle_ts = oracle_bandit

    # ---------------------------------------------------------------- evidence helpers
    def key(self, case):
        k = {x: v for x, v in case.items() if x not in ("oseed",)}
        return super().key(k)

    def nontrivial(self, case, obs):
        fam = case["fam"].split("_")[0]
        if fam in ("dqn",):
            masked = case["masks"] is not None and any(0 in m for m in case["masks"])
            return masked or len(case["coins"]) > 1 or len(set(case["q"])) < len(case["q"])
        if fam in ("ddpg", "td3"):
            if "error" in obs:
                return True
            box = self.BOXES[case["box"]]
            hit = any(x in (lo, hi) for row in obs["action"] for x, (lo, hi) in zip(row, box))
            return case["B"] > 1 or hit
        if fam in ("rainbow", "cqn"):
            masked = case["masks"] is not None and any(0 in m for m in case["masks"])
            vals = case["vals"] if fam == "rainbow" else [case["q"]]
            return masked or len(vals) > 1 or len(case.get("u", [])) > 1 or any(len(set(v)) < len(v) for v in vals)
        if fam == "ppo":
            if case["fam"] == "ppo_box":
                return case["B"] > 1 or not case["training"]
            return case["masks"] is not None and (len(case["masks"]) > 1 or any(0 in m for m in case["masks"]))
        if fam in ("maddpg", "matd3", "ippo"):
            return True         # two agents with different spaces / masks
        if fam in ("ucb", "ts"):
            return (case["mask"] is not None and 0 in case["mask"]) or len(set(case["vals"])) < len(case["vals"])
        return True

    def classify(self, case, obs):
        fam = case["fam"]
        labs = [f"fam={fam}", f"obs={case.get('obs', 'vec')}", "single" if case.get("single") else "batched"]
        labs += ["history=" + "+".join(obs.get("hist_applied", case["hist"]))] if case.get("hist") else ["history=fresh"]
        labs += [f"offset={case.get('offset', 0)}", f"maskdtype={case.get('maskdtype', 'default')}"]
        labs += [x for x in ("extreme", "twice") if case.get(x)] + ([f"log_std={case['log_std']}"] if case.get("log_std") is not None else [])
        labs += [f"wrapper={case.get('wrap', 'none')}", f"args={case.get('args', 'kw')}",
                 f"weights={'pinned' if case.get('pin', True) else 'random'}", f"key-order={case.get('korder', 'agent_ids')}",
                 f"latent={case.get('latent', 'default')}"]
        if fam == "dqn":
            labs += [f"n={case['n']}", f"eps={case['eps']}", "mask=none" if case["masks"] is None else "mask=given",
                     f"maskfmt={case.get('maskfmt', 'array')}"]
            for r, c in enumerate(case["coins"]):
                labs.append("branch=policy" if c >= case["eps"] else "branch=random")
                if c == 0.0 and case["eps"] == 0.0:
                    labs.append("coin==eps==0")
                if case["masks"] is not None and any(case["u"][r][j] == 0.0 for j, m in enumerate(case["masks"][r]) if m):
                    labs.append("legal-draw==0")
        if fam in ("rainbow", "cqn", "ucb", "ts"):
            labs += [f"n={case['n']}", "mask=none" if case.get("masks", case.get("mask")) is None else "mask=given"]
            if fam == "cqn":
                labs += [f"eps={case['eps']}", "branch=random" if case["coin"] < case["eps"] else "branch=policy"]
            if fam == "rainbow":
                labs.append("training" if case["training"] else "eval")
        if fam.startswith(("maddpg", "matd3")):
            labs += ["training" if case["training"] else "eval", "ou" if case["ou"] else "gauss",
                     "env-defined" if case["eda"] is not None else "no-env-defined"]
            if fam.endswith("disc"):
                labs += [f"n={case['n']}", "mask=both" if case["masks"][1] is not None else "mask=one-agent"]
            else:
                labs += [f"act={case['act']}", "boxes=" + "+".join(case["boxes"])]
        if fam == "ppo_box":
            labs += [f"box={case['box']}", "squash" if case["squash"] else "clip", "training" if case["training"] else "eval"]
        if fam == "ppo_disc":
            labs += [f"space={case['space']}", "mask=none" if case["masks"] is None else "mask=given",
                     "training" if case["training"] else "eval"]
        if fam == "ippo":
            labs += [f"n={case['n']}", f"box={case['box']}", "mask=none" if case["masks"] is None else "mask=per-agent",
                     "training" if case["training"] else "eval"]
        if fam in ("ddpg", "td3"):
            labs += [f"box={case['box']}", f"act={case['act']}", "training" if case["training"] else "eval",
                     "ou" if case["ou"] else "gauss"]
        return labs

    def signature_of_case(self, case):
        return case["fam"]

    def neighbours(self, case, rng):
        """the case itself first (a K disagreement on an input whose oracle failure is a listed known finding is
        explained by that finding: the model describes the repaired semantics), then the same call with other value /
        draw patterns (a tie can hide a wrong branch from the oracle)"""
        yield case
        if case["fam"] == "dqn":
            n = case["n"]
            ms = case["masks"] if case["masks"] is not None else [[1] * n] * len(case["coins"])
            c = dict(case)          # most telling first: values increasing, draws decreasing
            c["q"] = [float(i) for i in range(n)]
            c["u"] = [[(n - j) / 8.0 for j in range(n)] for _ in ms]
            yield c
            for q in ([float(i) for i in range(n)], [float(n - i) for i in range(n)]):
                for style in ("random", "adversarial", "random"):
                    c = dict(case)
                    c["q"] = q
                    ms = case["masks"] if case["masks"] is not None else [[1] * n] * len(case["coins"])
                    c["u"] = [draws_for(m, rng, style) for m in ms]
                    yield c


if __name__ == "__main__":
    sys.exit(vlib.run_check(C14()))
