"""C03 helpers: driving the real evolvable modules, canonical observations, Coq terms, oracle."""
from __future__ import annotations

import copy
import hashlib
import json
import re

import numpy as np
import torch

torch.set_num_threads(1)

from vlib import Violation, coq_Z, coq_bool

from agilerl.modules.mlp import EvolvableMLP
from agilerl.modules.lstm import EvolvableLSTM
from agilerl.modules.simba import EvolvableSimBa
from agilerl.modules.resnet import EvolvableResNet


# ------------------------------------------------------------------ scripted numpy RNG
class Script:
    """Replaces np.random.randint / np.random.choice while a mutation method runs.
    raw draw r  ->  randint(lo, hi) = lo + r % (hi - lo);  choice(a) = a[r % len(a)]
    (return types as numpy's: Python int without `size`, int64 array with it).
    randint calls consume the raws in order; choice calls use the LAST raw: a method draws a layer index
    (randint) and an amount (choice) independently, so the order of these two statements is immaterial."""

    def __init__(self, raws):
        self.raws = list(raws)
        self.used = 0
        self.used_choice = 0

    def _next(self):
        if self.used >= len(self.raws):
            raise AssertionError("mutation method drew more random numbers than scripted")
        r = self.raws[self.used]
        self.used += 1
        return int(r)

    def randint(self, low, high=None, size=None, dtype=int):
        if high is None:
            low, high = 0, low
        if high <= low:
            raise ValueError("low >= high")
        v = int(low) + self._next() % (int(high) - int(low))
        if size is None:
            return v
        return np.full(size, v, dtype=np.int64)

    def choice(self, a, size=None, replace=True, p=None):
        a = list(a) if not isinstance(a, int) else list(range(a))
        if not self.raws:
            raise AssertionError("mutation method drew a random number but none was scripted")
        self.used_choice += 1
        v = a[int(self.raws[-1]) % len(a)]
        if size is None:
            return np.int64(v)
        return np.full(size, v, dtype=np.int64)

    def __enter__(self):
        self._orig = (np.random.randint, np.random.choice)
        np.random.randint, np.random.choice = self.randint, self.choice
        return self

    def __exit__(self, *a):
        np.random.randint, np.random.choice = self._orig


def canon_shapes(sd, strip):
    """state_dict -> [[canonical name, [numbers], shape]]; `strip` = regex removed from the front of every key"""
    out = []
    for k, v in sd.items():
        k2 = re.sub(strip, "", k, count=1)
        nums = [int(x) for x in re.findall(r"\d+", k2)]
        out.append([re.sub(r"\d+", "#", k2), nums, [int(x) for x in v.shape]])
    return out


def py(x):
    """numpy / torch scalars -> Python"""
    if isinstance(x, (list, tuple)):
        return [py(y) for y in x]
    if hasattr(x, "item"):
        return x.item()
    return x


# ------------------------------------------------------------------ Coq literals
def cz(n):
    return coq_Z(n)


def czl(l):
    return "[" + "; ".join(cz(x) for x in l) + "]"


def copt(x):
    return "None" if x is None else f"(Some {cz(x)})"


def cshapes(sh):
    return "[" + "; ".join(f'("{n}", {czl(i)}, {czl(s)})' for n, i, s in sh) + "]"


def cshapes0(case, obs):
    """initial layout: compared for walks and BFS roots (a BFS edge starts where another edge ended)"""
    if case.get("src", "").startswith("bfs") and not case.get("root"):
        return "None"
    return f"(Some {cshapes(obs['shapes0'])})"


def cobs(desc_term, rec):
    sh = "None" if rec.get("shapes") is None else f"(Some {cshapes(rec['shapes'])})"
    rb = rec.get("rebuilt")
    if rb is None:
        rbt = "RNone"
    elif isinstance(rb, str):
        rbt = "RRaised"
    elif rb == rec.get("shapes"):
        rbt = "RSame"
    else:
        rbt = f"(RShapes {cshapes(rb)})"
    return f'({desc_term}, "{rec["attr"]}", {czl(rec["ret"])}, {sh}, {rbt})'


class BadCallRaised(Exception):
    pass


class BadCallDidNotRaise(Exception):
    pass


def good_pairs(case, obs):
    """(step, record) pairs the model is run on: calls with an invalid argument raised and changed nothing"""
    return [(s, r) for s, r in zip(case["steps"], obs["steps"]) if s.get("bad") is None]


# ------------------------------------------------------------------ blocks
class Block:
    name = ""
    cls = None
    strip = r"^model\.[a-z]+_"
    layer_methods = ()      # (add, remove)
    node_methods = ()       # (add, remove)
    extra_methods = ()

    # -- to implement
    def kwargs(self, case):
        raise NotImplementedError

    def desc(self, m):
        """{'layers': int, 'widths': [...], ...} read from the constructor description"""
        raise NotImplementedError

    def make_input(self, case, b):
        raise NotImplementedError

    def bounds(self, case):
        """{'layers': (lo, hi), 'widths': (lo, hi)}"""
        raise NotImplementedError

    def coq(self, case, obs):
        raise NotImplementedError

    # -- shared
    def build(self, case):
        return self.cls(**self.kwargs(case))

    def advertised(self, case):
        return sorted(self.layer_methods + self.node_methods + self.extra_methods)

    def out_shape(self, case, b):
        return [b, case["static"]["num_outputs"]]

    def call(self, m, step):
        if step.get("bad") is not None:
            # a call with an invalid argument (documented assertion / type error of the method): must raise, is caught by the
            # caller like any user code would, and must leave the module exactly as it was — later mutations work as usual
            try:
                getattr(m, step["m"])(**step["bad"])
            except Exception as e:  # noqa
                raise BadCallRaised(f"{type(e).__name__}: {e}"[:200])
            raise BadCallDidNotRaise(f"{step['m']}(**{step['bad']}) did not raise")
        args = {k: (tuple(v) if isinstance(v, list) else v) for k, v in step.get("args", {}).items() if v is not None}
        return getattr(m, step["m"])(**args)

    def observe_full(self, m, case, rec):
        rec["shapes"] = canon_shapes(m.state_dict(), self.strip)
        fw = []
        for b in (1, 2, 3):
            try:
                with torch.no_grad():
                    y = m(self.make_input(case, b))
                fw.append({"shape": [int(x) for x in y.shape], "finite": bool(torch.isfinite(y).all())})
            except Exception as e:  # noqa
                fw.append({"error": f"{type(e).__name__}: {e}"[:300]})
        rec["fw"] = fw
        try:
            idict = m.init_dict
            rec["init_types"] = {k: type(v).__name__ for k, v in idict.items() if isinstance(v, (int, np.integer)) and not isinstance(v, bool)}
            clone = type(m)(**copy.deepcopy(idict))
            rec["rebuilt"] = canon_shapes(clone.state_dict(), self.strip)
            try:
                clone.load_state_dict(m.state_dict(), strict=True)
                rec["load"] = "ok"
                x = self.make_input(case, 3)
                with torch.no_grad():
                    rec["same_fn"] = bool(torch.allclose(m(x), clone(x), atol=1e-6))
            except Exception as e:  # noqa
                rec["load"] = f"{type(e).__name__}: {e}"[:300]
            d2 = self.desc(clone)
            rec["rebuilt_desc_same"] = (d2 == self.desc(m))
        except Exception as e:  # noqa
            rec["rebuilt"] = f"raised {type(e).__name__}: {e}"[:300]
            rec["load"] = None

    SIZE_KEYS = ("hidden_size", "channel_size", "kernel_size", "stride_size")

    def twin_replay(self, twin, rec, ret):
        """Mutations.architecture_mutate applies the mutation that was really applied to the policy to the other networks of the
        agent as getattr(net, last_mutation_attr)(**returned dict): on a copy of the pre-mutation module this must reproduce the
        same architecture without drawing anything"""
        if not rec.get("attr") or not isinstance(ret, dict) or not ret or rec.get("desc") is None:
            return
        try:
            with Script([]):
                getattr(twin, rec["attr"])(**ret)
            rec["twin_same"] = (self.desc(twin) == rec["desc"])
            rec["twin_desc"] = self.desc(twin)
        except Exception as e:  # noqa
            rec["twin_error"] = f"{type(e).__name__}: {e}"[:300]

    def end_checks(self, m, obs):
        """after the whole chain: still the same advertised methods; a final clone is an exact copy"""
        try:
            obs["methods_after"] = sorted(m.mutation_methods)
            c = m.clone()
            sd, cd = m.state_dict(), c.state_dict()
            obs["final_clone"] = {"desc_same": self.desc(c) == self.desc(m), "methods_same": sorted(c.mutation_methods) == obs["methods_after"],
                                  "weights_same": list(sd.keys()) == list(cd.keys()) and all(torch.equal(sd[k], cd[k]) for k in sd)}
        except Exception as e:  # noqa
            obs["final_clone"] = {"error": f"{type(e).__name__}: {e}"[:300]}

    def observe_sibling(self, sib, desc0, kw, kw0):
        """a second module built from the SAME configuration objects must not notice the mutations of the first"""
        out = {"desc_same": self.desc(sib) == desc0, "user_config_same": self.sizes_of(kw) == kw0}
        try:
            clone = type(sib)(**copy.deepcopy(sib.init_dict))
            clone.load_state_dict(sib.state_dict(), strict=True)
            out["load"] = "ok"
        except Exception as e:  # noqa
            out["load"] = f"{type(e).__name__}: {e}"[:300]
        return out

    def sizes_of(self, kw):
        return copy.deepcopy({k: v for k, v in kw.items() if k in self.SIZE_KEYS})

    def run(self, case):
        torch.manual_seed(0)
        kw = self.kwargs(case)
        kw0 = self.sizes_of(kw)
        m = self.cls(**kw)
        sib = self.cls(**kw) if case.get("sibling") else None
        every = case.get("every", 1)
        obs = {"methods": sorted(m.mutation_methods), "desc0": self.desc(m),
               "shapes0": canon_shapes(m.state_dict(), self.strip), "steps": []}
        n = len(case["steps"])
        for i, step in enumerate(case["steps"]):
            rec = {"error": None, "attr": None, "ret": [], "shapes": None, "rebuilt": None}
            sc = Script(step.get("r", []))
            twin = m.clone() if case.get("twin") else None
            ret = None
            try:
                with sc:
                    ret = self.call(m, step)
                rec["attr"] = m.last_mutation_attr
                rec["ret"] = [int(v) for v in ret.values()] if isinstance(ret, dict) else []
            except BadCallRaised as e:
                rec["bad_raised"] = str(e)
                rec["attr"] = rec["attr"] or ""
            except Exception as e:  # noqa
                rec["error"] = f"{type(e).__name__}: {e}"[:400]
            rec["used"] = sc.used
            try:
                rec["desc"] = self.desc(m)
            except Exception as e:  # noqa
                rec["desc"] = None
                rec["error"] = rec["error"] or f"descriptor: {type(e).__name__}: {e}"[:300]
            if twin is not None and rec["error"] is None:
                self.twin_replay(twin, rec, ret)
            if rec["error"] is None and every > 0 and (i % every == 0 or i == n - 1):
                self.observe_full(m, case, rec)
            obs["steps"].append(rec)
            if rec["error"] is not None:
                break
        if sib is not None:
            obs["sibling"] = self.observe_sibling(sib, obs["desc0"], kw, kw0)
        if not any(r["error"] for r in obs["steps"]):
            self.end_checks(m, obs)
        return obs

    # -- oracle: the property stated on the implementation's behaviour
    def effect(self, case, step, pre, post, rec):
        """(clause, detail) list for the 'advertised mutation is effective' clause"""
        out = []
        bd = self.bounds(case)
        m, attr = step["m"], rec["attr"]
        lo, hi = bd["layers"]
        if m in self.layer_methods:
            d = 1 if m == self.layer_methods[0] else -1
            tgt = pre["layers"] + d
            blocked = self.layer_blocked(case, m, pre)
            if lo <= tgt <= hi and not blocked:
                if post["layers"] != tgt or attr != m:
                    out.append(("effective", f"{m} not stopped by a bound (layers {pre['layers']} in [{lo},{hi}]) but layers={post['layers']}, applied={attr}"))
            elif not (lo <= tgt <= hi):
                if post["layers"] != pre["layers"]:
                    out.append(("bounds", f"{m} at the bound changed layers {pre['layers']} -> {post['layers']} (bounds [{lo},{hi}])"))
                if attr == m:
                    out.append(("resolved-method", f"{m} was stopped by the bound but last_mutation_attr still reports {attr}"))
        if attr in self.node_methods and rec["ret"] and post.get("widths") is not None:
            wlo, whi = bd["widths"]
            if len(rec["ret"]) == 2:
                i, n = rec["ret"]
            else:
                i, n = 0, rec["ret"][0]
            sign = 1 if attr == self.node_methods[0] else -1
            if n > 0 and 0 <= i < len(pre["widths"]) and len(pre["widths"]) == len(post["widths"]):
                tgt = pre["widths"][i] + sign * n
                exp = list(pre["widths"])
                if wlo < tgt < whi:
                    exp[i] = tgt
                    if post["widths"] != exp:
                        out.append(("effective", f"{attr}({i},{n}) not stopped by a bound ({pre['widths'][i]} -> {tgt} inside ({wlo},{whi})) but widths {pre['widths']} -> {post['widths']}"))
                elif (sign > 0 and tgt > whi) or (sign < 0 and tgt < wlo):
                    if post["widths"] != exp:
                        out.append(("bounds", f"{attr}({i},{n}) must be stopped by the bound [{wlo},{whi}] but widths {pre['widths']} -> {post['widths']}"))
        return out

    def layer_blocked(self, case, m, pre):
        return False

    def quantities(self, case, d):
        """[(name, value, lo, hi)]"""
        bd = self.bounds(case)
        q = [("layers", d["layers"], *bd["layers"])]
        q += [(f"width[{i}]", w, *bd["widths"]) for i, w in enumerate(d["widths"])]
        return q

    def oracle(self, case, obs):
        out = []
        sig = f"{self.name}"
        if self.advertised(case) is not None and obs["methods"] != self.advertised(case):
            out.append(Violation("advertised-methods", f"{sig}:advertised-methods",
                                 f"mutation_methods = {obs['methods']}, expected {self.advertised(case)}"))
        pre = obs["desc0"]
        for i, (step, rec) in enumerate(zip(case["steps"], obs["steps"])):
            where = f"step {i} {step['m']}({step.get('args', {})}) draws {step.get('r')} from {pre}"
            if rec["error"] is not None:
                kind = "raised:kernel-larger-than-input" if "Kernel size can't be greater than actual input size" in rec["error"] else "raised"
                out.append(Violation("valid", f"{sig}:{step['m']}:{kind}", f"{where}: {rec['error']}"))
                break
            post = rec["desc"]
            if step.get("bad") is not None:
                if post != pre:
                    out.append(Violation("valid", f"{sig}:{step['m']}:failed-call-changed-architecture",
                                         f"{where}: the call with the invalid argument {step['bad']} raised ({rec.get('bad_raised')}) but changed the description to {post}"))
                    break
                continue
            if rec["attr"] and rec["attr"] not in obs["methods"]:
                out.append(Violation("resolved-method", f"{sig}:{step['m']}:resolved", f"{where}: last_mutation_attr={rec['attr']} is not advertised"))
            # bounds: inside stays inside; outside never moves further out
            qa, qb = self.quantities(case, pre), self.quantities(case, post)
            for (nm, v, lo, hi) in qb:
                prev = [x for x in qa if x[0] == nm]
                pv = prev[0][1] if prev else None
                inside_before = all(l <= x <= h for (_, x, l, h) in qa)
                if inside_before and not (lo <= v <= hi):
                    out.append(Violation("bounds", f"{sig}:{step['m']}:bounds:{nm.split('[')[0]}", f"{where}: {nm}={v} outside [{lo},{hi}]"))
                elif pv is not None and ((v > hi and v > pv) or (v < lo and v < pv)):
                    out.append(Violation("bounds", f"{sig}:{step['m']}:bounds-further-out:{nm.split('[')[0]}", f"{where}: {nm} {pv} -> {v} moves away from [{lo},{hi}]"))
            if rec.get("twin_error"):
                out.append(Violation("effective", f"{sig}:{step['m']}:twin-raised",
                                     f"{where}: applying the applied mutation {rec['attr']}(**returned dict) to a copy of the module (as "
                                     f"Mutations.architecture_mutate does for the other networks) raised {rec['twin_error']}"))
            elif rec.get("twin_same") is False:
                out.append(Violation("effective", f"{sig}:{step['m']}:twin-differs",
                                     f"{where}: {rec['attr']}(**returned dict) on a copy of the module gave {rec.get('twin_desc')} instead of {post}"))
            for item in self.effect(case, step, pre, post, rec):
                cl, det = item[0], item[1]
                out.append(Violation(cl, item[2] if len(item) > 2 else f"{sig}:{step['m']}:{cl}", f"{where}: {det}"))
            if rec.get("fw") is not None:
                for b, f in zip((1, 2, 3), rec["fw"]):
                    if "error" in f:
                        out.append(Violation("valid", f"{sig}:{step['m']}:forward-raised", f"{where}: forward(batch {b}) at {post}: {f['error']}"))
                        break
                    if f["shape"] != self.out_shape(case, b) or not f["finite"]:
                        out.append(Violation("valid", f"{sig}:{step['m']}:forward-shape", f"{where}: forward(batch {b}) at {post} gave shape {f['shape']} finite={f['finite']}, declared {self.out_shape(case, b)}"))
                        break
                if isinstance(rec["rebuilt"], str):
                    out.append(Violation("rebuild", f"{sig}:{step['m']}:ctor-raised", f"{where}: type(m)(**m.init_dict) at {post}: {rec['rebuilt']} (int field types {rec.get('init_types')})"))
                elif rec.get("load") != "ok":
                    out.append(Violation("rebuild", f"{sig}:{step['m']}:load-state-dict", f"{where}: rebuilt module does not accept the weights at {post}: {rec.get('load')}"))
                elif rec.get("rebuilt_desc_same") is False:
                    out.append(Violation("rebuild", f"{sig}:{step['m']}:ctor-not-fixed-point", f"{where}: the rebuilt module reports a different constructor description"))
                elif rec.get("same_fn") is False:
                    out.append(Violation("rebuild", f"{sig}:{step['m']}:rebuilt-different-function", f"{where}: the module rebuilt from init_dict computes different outputs with the same weights"))
            if out:
                break
            pre = post
        if not out and obs.get("methods_after") is not None and obs["methods_after"] != obs["methods"]:
            added, removed = set(obs["methods_after"]) - set(obs["methods"]), set(obs["methods"]) - set(obs["methods_after"])
            kind = ("encoder-layer-mutations-reenabled" if not removed and added and
                    all(a.startswith("encoder.") and a.split(".")[-1] in ("add_layer", "remove_layer", "add_block", "remove_block") for a in added)
                    else "changed")
            out.append(Violation("advertised-methods", f"{sig}:advertised-methods-after-chain:{kind}",
                                 f"after the chain {[s['m'] for s in case['steps']][:8]} mutation_methods = {obs['methods_after']}, before {obs['methods']}"))
        fc = obs.get("final_clone")
        if not out and fc:
            if fc.get("error"):
                out.append(Violation("rebuild", f"{sig}:final-clone:raised", f"clone() after the chain raised {fc['error']}"))
            elif not (fc["desc_same"] and fc["methods_same"] and fc["weights_same"]):
                out.append(Violation("rebuild", f"{sig}:final-clone:differs", f"clone() after the chain is not an exact copy: {fc}"))
        sb = obs.get("sibling")
        if sb and not out:
            what = f"two {self.name} modules built from one configuration, chain {[s['m'] for s in case['steps']]} applied to the first"
            if not sb["desc_same"]:
                out.append(Violation("rebuild", f"{sig}:sibling:descriptor-changed", f"{what}: the constructor description of the second changed"))
            elif sb["load"] != "ok":
                out.append(Violation("rebuild", f"{sig}:sibling:load-state-dict", f"{what}: the second no longer rebuilds from its description: {sb['load']}"))
            elif not sb["user_config_same"]:
                out.append(Violation("rebuild", f"{sig}:sibling:user-config-changed", f"{what}: the caller's size lists were modified"))
        return out


def meth_args(step, names):
    a = step.get("args", {})
    return " ".join(copt(a.get(n)) for n in names)


def draws(step, n):
    r = list(step.get("r", []))
    r = r + [r[-1] if r else 0] * n          # np.random.choice is fed the LAST scripted raw (see Script)
    return ", ".join(cz(x) for x in r[:n])


class MLP(Block):
    name = "mlp"
    cls = EvolvableMLP
    layer_methods = ("add_layer", "remove_layer")
    node_methods = ("add_node", "remove_node")

    def kwargs(self, case):
        kw = dict(case["static"]); kw.update(case["cfg"]); kw["hidden_size"] = list(case["init"])
        return kw

    def desc(self, m):
        h = py(m.init_dict["hidden_size"])
        return {"layers": len(h), "widths": [int(x) for x in h]}

    def make_input(self, case, b):
        return torch.randn(b, case["static"]["num_inputs"])

    def bounds(self, case):
        c = case["cfg"]
        return {"layers": (c["min_hidden_layers"], c["max_hidden_layers"]), "widths": (c["min_mlp_nodes"], c["max_mlp_nodes"])}

    def static_term(self, s):
        return (f"{{| ms_in := {cz(s['num_inputs'])}; ms_out := {cz(s['num_outputs'])}; ms_layer_norm := {coq_bool(s.get('layer_norm', True))}; "
                f"ms_out_layer_norm := {coq_bool(s.get('output_layernorm', False))}; ms_noisy := {coq_bool(s.get('noisy', False))} |}}")

    def cfg_term(self, c):
        return (f"{{| m_min_layers := {cz(c['min_hidden_layers'])}; m_max_layers := {cz(c['max_hidden_layers'])}; "
                f"m_min_nodes := {cz(c['min_mlp_nodes'])}; m_max_nodes := {cz(c['max_mlp_nodes'])} |}}")

    def meth_term(self, step):
        m = step["m"]
        if m == "add_layer":
            return "MAddLayer"
        if m == "remove_layer":
            return "MRemoveLayer"
        k = "MAddNode" if m == "add_node" else "MRemoveNode"
        return f"({k} {meth_args(step, ['hidden_layer', 'numb_new_nodes'])})"

    def steps_term(self, case, obs):
        return "[" + "; ".join(f"({self.meth_term(s)}, {draws(s, 2)}, {cobs(czl(r['desc']['widths']), r)})"
                               for s, r in good_pairs(case, obs)) + "]"

    def coq(self, case, obs):
        return (f"check_mlp {self.static_term(case['static'])} {self.cfg_term(case['cfg'])} {czl(case['init'])} "
                f"{cshapes0(case, obs)} {self.steps_term(case, obs)}")


class Scalar(Block):
    layer_key = "num_layers"
    width_key = "hidden_size"
    cfg_keys = ()

    def kwargs(self, case):
        kw = dict(case["static"]); kw.update(case["cfg"])
        kw[self.layer_key] = case["init"]["layers"]; kw[self.width_key] = case["init"]["width"]
        return kw

    def desc(self, m):
        d = m.init_dict
        return {"layers": int(d[self.layer_key]), "widths": [int(d[self.width_key])]}

    def bounds(self, case):
        c = case["cfg"]; k = self.cfg_keys
        return {"layers": (c[k[0]], c[k[1]]), "widths": (c[k[2]], c[k[3]])}

    def cfg_term(self, c):
        k = self.cfg_keys
        return (f"{{| s_min_layers := {cz(c[k[0]])}; s_max_layers := {cz(c[k[1]])}; s_min_width := {cz(c[k[2]])}; s_max_width := {cz(c[k[3]])} |}}")

    def meth_term(self, step):
        m = step["m"]
        if m == self.layer_methods[0]:
            return "SAddLayer"
        if m == self.layer_methods[1]:
            return "SRemoveLayer"
        k = "SAddNode" if m == self.node_methods[0] else "SRemoveNode"
        return f"({k} {copt(step.get('args', {}).get(self.amount_key))})"

    def coq(self, case, obs):
        steps = "[" + "; ".join(
            f"({self.meth_term(s)}, {draws(s, 1)}, {cobs('(' + cz(r['desc']['layers']) + ', ' + cz(r['desc']['widths'][0]) + ')', r)})"
            for s, r in good_pairs(case, obs)) + "]"
        a0 = f"{{| s_layers := {cz(case['init']['layers'])}; s_width := {cz(case['init']['width'])} |}}"
        return f"{self.check_fn} {self.static_term(case['static'])} {self.cfg_term(case['cfg'])} {a0} {cshapes0(case, obs)} {steps}"


class LSTM(Scalar):
    name = "lstm"
    cls = EvolvableLSTM
    layer_methods = ("add_layer", "remove_layer")
    node_methods = ("add_node", "remove_node")
    cfg_keys = ("min_layers", "max_layers", "min_hidden_size", "max_hidden_size")
    amount_key = "numb_new_nodes"
    check_fn = "check_lstm"

    def make_input(self, case, b):
        return torch.randn(b, 5, case["static"]["input_size"])

    def static_term(self, s):
        return f"{{| ls_in := {cz(s['input_size'])}; ls_out := {cz(s['num_outputs'])} |}}"


class SimBa(Scalar):
    name = "simba"
    cls = EvolvableSimBa
    layer_key = "num_blocks"
    layer_methods = ("add_block", "remove_block")
    node_methods = ("add_node", "remove_node")
    cfg_keys = ("min_blocks", "max_blocks", "min_mlp_nodes", "max_mlp_nodes")
    amount_key = "numb_new_nodes"
    check_fn = "check_simba"

    def make_input(self, case, b):
        return torch.randn(b, case["static"]["num_inputs"])

    def static_term(self, s):
        return f"{{| ss_in := {cz(s['num_inputs'])}; ss_out := {cz(s['num_outputs'])}; ss_scale := {cz(s.get('scale_factor', 4))} |}}"


class ResNet(Scalar):
    name = "resnet"
    cls = EvolvableResNet
    layer_key = "num_blocks"
    width_key = "channel_size"
    layer_methods = ("add_block", "remove_block")
    node_methods = ("add_channel", "remove_channel")
    cfg_keys = ("min_blocks", "max_blocks", "min_channel_size", "max_channel_size")
    amount_key = "numb_new_channels"
    check_fn = "check_resnet"

    def make_input(self, case, b):
        return torch.randn(b, *case["static"]["input_shape"])

    def static_term(self, s):
        c, h, w = s["input_shape"]
        return (f"{{| rs_in_ch := {cz(c)}; rs_h := {cz(h)}; rs_w := {cz(w)}; rs_out := {cz(s['num_outputs'])}; "
                f"rs_kernel := {cz(s['kernel_size'])}; rs_stride := {cz(s['stride_size'])}; rs_scale := {cz(s.get('scale_factor', 4))} |}}")


BLOCKS = {b.name: b for b in (MLP(), LSTM(), SimBa(), ResNet())}


def register(block):
    BLOCKS[block.name] = block


# ------------------------------------------------------------------ driver entry points
def run_case_uncached(case):
    return BLOCKS[case["block"]].run(case)


def run_case(case):
    import c03_gen
    k = key_case(case)
    if k in c03_gen.CACHE:
        return c03_gen.CACHE.pop(k)
    return run_case_uncached(case)


def coq_case(case, obs):
    if any(r["error"] is not None for r in obs["steps"]) or len(obs["steps"]) != len(case["steps"]):
        return None      # the oracle reports the failing call; nothing to compare
    return BLOCKS[case["block"]].coq(case, obs)


def oracle_case(case, obs):
    return BLOCKS[case["block"]].oracle(case, obs)


def key_case(case):
    k = {x: case.get(x) for x in ("block", "net", "obs", "img", "space", "spec", "vector_mlp", "clone", "sibling", "twin", "static", "cfg", "init", "steps", "every")}
    return hashlib.sha1(json.dumps(k, sort_keys=True, default=str).encode()).hexdigest()


def _changes(case, obs):
    pre = obs["desc0"]
    last_guard = {}
    flags = []
    for s, r in good_pairs(case, obs):
        changed = r.get("desc") != pre
        resolved_self = (r.get("attr") == s["m"])
        g = (changed, resolved_self)
        flags.append((s["m"], changed, resolved_self, last_guard.get(s["m"]) not in (None, g)))
        last_guard[s["m"]] = g
        pre = r.get("desc")
    return flags


def nontrivial_case(case, obs):
    return any(ch or differs for (_, ch, _, differs) in _changes(case, obs))


def classify_case(case, obs):
    labs = [f"block={case['block']}", f"src={case.get('src', '?')}", f"chain-length={'1' if len(case['steps']) == 1 else ('2-20' if len(case['steps']) <= 20 else '>20')}"]
    for (m, ch, rs, _) in _changes(case, obs):
        labs.append(f"{case['block']}.{m}:{'changed' if ch else 'unchanged'}:{'self' if rs else 'fallback'}")
    for s in case["steps"]:
        labs.append("args=" + ("explicit" if any(v is not None for v in s.get("args", {}).values()) else "drawn"))
    return labs


# ------------------------------------------------------------------ CNN
from agilerl.modules.cnn import EvolvableCNN  # noqa: E402


def py_fmaps(h, w, ks, ss):
    """feature-map sizes by plain arithmetic (oracle side, independent of the Coq model)"""
    out = []
    for k, s in zip(ks, ss):
        h, w = (h - k) // s + 1, (w - k) // s + 1
        out.append((h, w))
    return out


class CNN(Block):
    name = "cnn"
    cls = EvolvableCNN
    layer_methods = ("add_layer", "remove_layer")
    node_methods = ("add_channel", "remove_channel")
    extra_methods = ("change_kernel",)

    def kwargs(self, case):
        kw = dict(case["static"]); kw.update(case["cfg"])
        kw["channel_size"] = list(case["init"]["channels"]); kw["kernel_size"] = list(case["init"]["kernels"])
        kw["stride_size"] = list(case["init"]["strides"])
        if kw.pop("tuple_kernels", False):        # kernel sizes given as (k, k) tuples: MutableKernelSizes.tuple_sizes branch
            kw["kernel_size"] = [(k, k) for k in kw["kernel_size"]]
        return kw

    def desc(self, m):
        d = m.init_dict
        ch = [int(x) for x in py(d["channel_size"])]
        return {"layers": len(ch), "widths": ch, "kernels": [int(x) for x in py(d["kernel_size"])],
                "strides": [int(x) for x in py(d["stride_size"])]}

    def make_input(self, case, b):
        return torch.randn(b, *case["static"]["input_shape"])

    def bounds(self, case):
        c = case["cfg"]
        return {"layers": (c["min_hidden_layers"], c["max_hidden_layers"]), "widths": (c["min_channel_size"], c["max_channel_size"])}

    def quantities(self, case, d):
        q = super().quantities(case, d)
        q += [(f"kernel[{i}]", k, 1, 9) for i, k in enumerate(d["kernels"])]
        q += [(f"stride[{i}]", s, 1, 10 ** 6) for i, s in enumerate(d["strides"])]
        q += [("len(kernels)-len(channels)", len(d["kernels"]) - len(d["widths"]), 0, 0),
              ("len(strides)-len(channels)", len(d["strides"]) - len(d["widths"]), 0, 0)]
        return q

    def layer_blocked(self, case, m, pre):
        if m != "add_layer":
            return False
        _, h, w = case["static"]["input_shape"]
        fm = py_fmaps(h, w, pre["kernels"], pre["strides"])
        ho, wo = fm[-1]
        return ho <= 2 or wo <= 2 or min(ho, wo) // 4 <= 2

    def effect(self, case, step, pre, post, rec):
        out = super().effect(case, step, pre, post, rec)
        if rec["attr"] == "change_kernel" and len(rec["ret"]) == 2:
            i, k = rec["ret"]
            exp = list(pre["kernels"])
            if 0 <= i < len(exp):
                exp[i] = k
            if post["kernels"] != exp or post["widths"] != pre["widths"] or post["strides"] != pre["strides"]:
                out.append(("effective", f"change_kernel reported layer {i} -> kernel {k} but kernels {pre['kernels']} -> {post['kernels']}"))
        ks = step.get("args", {}).get("kernel_size")
        hl = step.get("args", {}).get("hidden_layer")
        if rec["attr"] == "change_kernel" and ks is not None and hl is not None and 0 <= hl < len(post["kernels"]):
            edge = ks[-1] if isinstance(ks, (list, tuple)) else ks
            if post["kernels"][hl] not in (edge, pre["kernels"][hl]):
                out.append(("effective", f"change_kernel(kernel_size={ks}, hidden_layer={hl}) installed edge length {post['kernels'][hl]}, advertised {edge}"))
        if rec["attr"] == "add_layer" and post["layers"] == pre["layers"] + 1:
            if post["widths"][:-1] != pre["widths"] or post["kernels"][:-1] != pre["kernels"] or post["strides"][:-1] != pre["strides"]:
                out.append(("effective", f"add_layer changed existing layers: {pre} -> {post}"))
        if rec["attr"] == "remove_layer" and post["layers"] == pre["layers"] - 1:
            if post["widths"] != pre["widths"][:-1] or post["kernels"] != pre["kernels"][:-1] or post["strides"] != pre["strides"][:-1]:
                out.append(("effective", f"remove_layer did not drop exactly the last layer: {pre} -> {post}"))
        return out

    def static_term(self, s):
        c, h, w = s["input_shape"]
        return (f"{{| cs_in_ch := {cz(c)}; cs_h := {cz(h)}; cs_w := {cz(w)}; cs_out := {cz(s['num_outputs'])}; "
                f"cs_layer_norm := {coq_bool(s.get('layer_norm', False))} |}}")

    def cfg_term(self, c):
        return (f"{{| c_min_layers := {cz(c['min_hidden_layers'])}; c_max_layers := {cz(c['max_hidden_layers'])}; "
                f"c_min_ch := {cz(c['min_channel_size'])}; c_max_ch := {cz(c['max_channel_size'])} |}}")

    def arch_term(self, d):
        return f"{{| channels := {czl(d['channels'])}; kernels := {czl(d['kernels'])}; strides := {czl(d['strides'])} |}}"

    def meth_term(self, step):
        m = step["m"]
        if m == "add_layer":
            return "CAddLayer"
        if m == "remove_layer":
            return "CRemoveLayer"
        if m == "change_kernel":
            a = dict(step.get("args", {}))
            if isinstance(a.get("kernel_size"), (list, tuple)):
                a["kernel_size"] = a["kernel_size"][-1]       # the advertised meaning of a tuple: its edge length
            return f"(CChangeKernel {meth_args({'args': a}, ['kernel_size', 'hidden_layer'])})"
        k = "CAddChannel" if m == "add_channel" else "CRemoveChannel"
        return f"({k} {meth_args(step, ['hidden_layer', 'numb_new_channels'])})"

    def coq(self, case, obs):
        steps = "[" + "; ".join(
            f"({self.meth_term(s)}, {draws(s, 2)}, "
            f"{cobs('(' + czl(r['desc']['widths']) + ', ' + czl(r['desc']['kernels']) + ', ' + czl(r['desc']['strides']) + ')', r)})"
            for s, r in good_pairs(case, obs)) + "]"
        return (f"check_cnn {self.static_term(case['static'])} {self.cfg_term(case['cfg'])} {self.arch_term(case['init'])} "
                f"{cshapes0(case, obs)} {steps}")


register(CNN())


# ------------------------------------------------------------------ networks (clone-and-mutate steps)
from gymnasium import spaces  # noqa: E402
from agilerl.networks.q_networks import QNetwork, RainbowQNetwork, ContinuousQNetwork  # noqa: E402
from agilerl.networks.value_networks import ValueNetwork  # noqa: E402
from agilerl.networks.actors import DeterministicActor, StochasticActor  # noqa: E402

OBS = {
    "vector": lambda: spaces.Box(-1, 1, (4,)),
    "simba": lambda: spaces.Box(-1, 1, (4,)),
    "image": lambda: spaces.Box(0, 1, (2, 16, 16)),
    "lstm": lambda: spaces.Box(-1, 1, (5, 4)),
    "dict": lambda: spaces.Dict({"a": spaces.Box(-1, 1, (4,)), "b": spaces.Box(0, 1, (2, 16, 16))}),
    "tuple": lambda: spaces.Tuple((spaces.Box(-1, 1, (3,)), spaces.Discrete(3))),
}
MLP_DEFAULT_BOUNDS = {"min_hidden_layers": 1, "max_hidden_layers": 3, "min_mlp_nodes": 64, "max_mlp_nodes": 500}


def net_canon(sd):
    out = []
    for k, v in sd.items():
        if k.startswith("encoder.model."):
            k2 = "enc:" + re.sub(r"^encoder\.model\.encoder_", "", k)
        elif k.startswith("encoder."):
            k2 = "enc:" + k[len("encoder."):]
        elif k.startswith("head_net.advantage_net."):
            k2 = "adv:" + re.sub(r"^head_net\.advantage_net\.[a-z]+_", "", k)
        elif k.startswith("head_net."):
            k2 = "head:" + re.sub(r"^head_net\.(_wrapped\.)?(model\.[a-z]+_)?", "", k)
        else:
            k2 = k
        nums = [int(x) for x in re.findall(r"\d+", k2)]
        out.append([re.sub(r"\d+", "#", k2), nums, [int(x) for x in v.shape]])
    return out


class Net(Block):
    name = "net"

    # ---- construction
    def space(self, case):
        if case["obs"] == "image" and case.get("img"):
            return spaces.Box(0, 1, tuple(case["img"]))       # non-square images
        return OBS[case["obs"]]()

    def action_space(self, case):
        return spaces.Box(-1, 1, (2,)) if case["net"] in ("det", "stoch", "contq") else spaces.Discrete(3)

    def kwargs(self, case):
        kw = {"observation_space": self.space(case), "latent_dim": case["init"]["latent"],
              "min_latent_dim": case["cfg"]["min_latent_dim"], "max_latent_dim": case["cfg"]["max_latent_dim"]}
        enc = copy.deepcopy(case["cfg"]["encoder_config"])
        e = case["init"]["enc"]
        if case["obs"] in ("vector", "tuple_vec"):
            enc["hidden_size"] = list(e["widths"])
        elif case["obs"] == "image":
            enc.update(channel_size=list(e["widths"]), kernel_size=list(e["kernels"]), stride_size=list(e["strides"]))
        elif case["obs"] == "simba":
            enc.update(hidden_size=e["widths"][0], num_blocks=e["layers"]); kw["simba"] = True
        elif case["obs"] == "lstm":
            enc.update(hidden_size=e["widths"][0], num_layers=e["layers"]); kw["recurrent"] = True
        kw["encoder_config"] = enc
        head = copy.deepcopy(case["cfg"]["head_config"]); head["hidden_size"] = list(case["init"]["head"])
        kw["head_config"] = head
        n = case["net"]
        if n != "value":
            kw["action_space"] = self.action_space(case)
        if n == "rainbow":
            kw["support"] = torch.linspace(0.0, 1.0, 5); kw["num_atoms"] = 5
            kw.pop("simba", None); kw.pop("recurrent", None)
        return kw

    def cls_of(self, case):
        return {"q": QNetwork, "rainbow": RainbowQNetwork, "contq": ContinuousQNetwork, "value": ValueNetwork,
                "det": DeterministicActor, "stoch": StochasticActor}[case["net"]]

    def build(self, case):
        return self.cls_of(case)(**self.kwargs(case))

    def enc_desc(self, case, cfg):
        if case["obs"] == "image":
            ch = [int(x) for x in py(cfg["channel_size"])]
            return {"layers": len(ch), "widths": ch, "kernels": [int(x) for x in py(cfg["kernel_size"])], "strides": [int(x) for x in py(cfg["stride_size"])]}
        if case["obs"] == "simba":
            return {"layers": int(cfg["num_blocks"]), "widths": [int(cfg["hidden_size"])]}
        if case["obs"] == "lstm":
            return {"layers": int(cfg["num_layers"]), "widths": [int(cfg["hidden_size"])]}
        h = [int(x) for x in py(cfg["hidden_size"])]
        return {"layers": len(h), "widths": h}

    def desc(self, m):
        d = m.init_dict
        h = [int(x) for x in py(d["head_config"]["hidden_size"])]
        return {"latent": int(d["latent_dim"]), "enc": self.enc_desc(self._case, d["encoder_config"]),
                "head": {"layers": len(h), "widths": h}}

    def advertised(self, case):
        enc = {"vector": ["add_node", "remove_node"], "simba": ["add_node", "remove_node"], "lstm": ["add_node", "remove_node"],
               "image": ["add_channel", "change_kernel", "remove_channel"]}[case["obs"]]
        return sorted(["add_latent_node", "remove_latent_node"] + ["encoder." + x for x in enc]
                      + ["head_net." + x for x in ("add_layer", "remove_layer", "add_node", "remove_node")])

    def make_input(self, case, b):
        sp = self.space(case)
        x = torch.rand(b, *sp.shape)
        if case["net"] == "contq":
            return (x, torch.rand(b, 2))
        return (x,)

    def out_shape(self, case, b):
        return {"q": [b, 3], "rainbow": [b, 3], "contq": [b, 1], "value": [b, 1], "det": [b, 2], "stoch": [b, 2]}[case["net"]]

    def enc_full(self, net):
        d = net.encoder.init_dict
        return {k: d.get(k) for k in ("activation", "output_activation", "layer_norm", "output_layernorm", "output_vanish")}

    def run(self, case):
        torch.manual_seed(0)
        self._case = case
        user_cfg = copy.deepcopy(case["cfg"])
        kw = self.kwargs(case)
        def sizes(kw):
            return {c: {k: v for k, v in kw[c].items() if k in ("hidden_size", "channel_size", "kernel_size", "stride_size")}
                    for c in ("encoder_config", "head_config")}
        kw_snapshot = copy.deepcopy(sizes(kw))
        m = self.cls_of(case)(**kw)
        sib = self.cls_of(case)(**kw) if case.get("sibling") else None
        obs = {"methods": sorted(m.mutation_methods), "desc0": self.desc(m), "shapes0": net_canon(m.state_dict()), "steps": [],
               "config_untouched": True, "bounds": self.declared_bounds(case, m)}
        if case["obs"] == "vector" and case["net"] != "rainbow":
            obs["enc_full"] = self.enc_full(m)
            try:
                obs["enc_full_rebuilt"] = self.enc_full(type(m)(**copy.deepcopy(m.init_dict)))
            except Exception as e:  # noqa
                obs["enc_full_rebuilt"] = f"raised {type(e).__name__}: {e}"[:200]
        rec0 = {"error": None, "attr": None, "ret": []}
        self.observe_full(m, case, rec0)
        obs["full0"] = {k: rec0.get(k) for k in ("fw", "rebuilt", "load", "same_fn", "rebuilt_desc_same")}
        if isinstance(obs["full0"]["rebuilt"], list):
            obs["full0"]["rebuilt"] = "ok" if obs["full0"]["rebuilt"] == obs["shapes0"] else obs["full0"]["rebuilt"]
        every = case.get("every", 1)
        n = len(case["steps"])
        seen_latent = False
        if case.get("clone") == "once":          # clone first, then every mutation of the chain on that same clone
            m = m.clone()
        for i, step in enumerate(case["steps"]):
            rec = {"error": None, "attr": None, "ret": [], "shapes": None, "rebuilt": None}
            sc = Script(step.get("r", []))
            try:
                twin = m.clone() if case.get("twin") else None
                ret = None
                rec["after_latent"] = seen_latent
                seen_latent = seen_latent or (case.get("clone") == "once" and step["m"] in ("add_latent_node", "remove_latent_node") and step.get("bad") is None)
                if case.get("clone", True) is True:
                    parent_sd = {k: v.clone() for k, v in m.state_dict().items()}
                    m = m.clone()                         # clone-and-mutate
                    csd = m.state_dict()
                    rec["clone_same_weights"] = (list(csd.keys()) == list(parent_sd.keys())
                                                 and all(torch.equal(csd[k], parent_sd[k]) for k in csd))
                with sc:
                    ret = self.call(m, step)
                rec["attr"] = m.last_mutation_attr or ""
                rec["ret"] = [int(v) for v in ret.values()] if isinstance(ret, dict) else []
            except BadCallRaised as e:
                rec["bad_raised"] = str(e)
                rec["attr"] = rec["attr"] or ""
            except Exception as e:  # noqa
                rec["error"] = f"{type(e).__name__}: {e}"[:400]
            rec["used"] = sc.used
            try:
                rec["desc"] = self.desc(m)
            except Exception as e:  # noqa
                rec["desc"] = None
                rec["error"] = rec["error"] or f"descriptor: {type(e).__name__}: {e}"[:300]
            if twin is not None and rec["error"] is None:
                self.twin_replay(twin, rec, ret)
            if rec["error"] is None and every > 0 and (i % every == 0 or i == n - 1):
                self.observe_full(m, case, rec)
            obs["steps"].append(rec)
            if rec["error"] is not None:
                break
        if not any(r["error"] for r in obs["steps"]):
            self.end_checks(m, obs)
        obs["config_untouched"] = (kw_snapshot == sizes(kw))      # the caller's size lists after the whole chain
        if sib is not None:
            sb = {"desc_same": self.desc(sib) == obs["desc0"], "user_config_same": obs["config_untouched"]}
            try:
                clone = type(sib)(**copy.deepcopy(sib.init_dict))
                clone.load_state_dict(sib.state_dict(), strict=True)
                sb["load"] = "ok"
            except Exception as e:  # noqa
                sb["load"] = f"{type(e).__name__}: {e}"[:300]
            obs["sibling"] = sb
        return obs

    def observe_full(self, m, case, rec):
        rec["shapes"] = net_canon(m.state_dict())
        fw, ys = [], []
        xs = [self.make_input(case, b) for b in (1, 2, 3)]
        for b, x in zip((1, 2, 3), xs):
            try:
                with torch.no_grad():
                    y = m(*x)
                if isinstance(y, tuple):
                    y = y[0]
                ys.append(y)
                fw.append({"shape": [int(v) for v in y.shape], "finite": bool(torch.isfinite(y).all())})
            except Exception as e:  # noqa
                ys.append(None)
                fw.append({"error": f"{type(e).__name__}: {e}"[:300]})
        rec["fw"] = fw
        try:
            clone = type(m)(**copy.deepcopy(m.init_dict))
            rec["rebuilt"] = net_canon(clone.state_dict())
            try:
                clone.load_state_dict(m.state_dict(), strict=True)
                rec["load"] = "ok"
                if case["net"] != "stoch" and ys[2] is not None:
                    with torch.no_grad():
                        y2 = clone(*xs[2])
                    rec["same_fn"] = bool(torch.allclose(y2, ys[2], atol=1e-6))
            except Exception as e:  # noqa
                rec["load"] = f"{type(e).__name__}: {e}"[:300]
            rec["rebuilt_desc_same"] = (self.desc(clone) == self.desc(m))
        except Exception as e:  # noqa
            rec["rebuilt"] = f"raised {type(e).__name__}: {e}"[:300]
            rec["load"] = None

    # ---- oracle
    BOUND_KEYS = {"mlp": ("min_hidden_layers", "max_hidden_layers", "min_mlp_nodes", "max_mlp_nodes"),
                  "cnn": ("min_hidden_layers", "max_hidden_layers", "min_channel_size", "max_channel_size"),
                  "simba": ("min_blocks", "max_blocks", "min_mlp_nodes", "max_mlp_nodes"),
                  "lstm": ("min_layers", "max_layers", "min_hidden_size", "max_hidden_size")}

    def declared_bounds(self, case, m):
        """the bounds the built network declares in its constructor description"""
        d = m.init_dict
        kind = {"vector": "mlp", "image": "cnn", "simba": "simba", "lstm": "lstm"}[case["obs"]]
        return {"enc": {k: int(d["encoder_config"][k]) for k in self.BOUND_KEYS[kind]},
                "head": {k: int(d["head_config"][k]) for k in self.BOUND_KEYS["mlp"]}}

    def sub(self, case, which):
        """(block used for the sub-architecture, pseudo-case carrying its declared bounds)"""
        b = self._obs["bounds"][which]
        if which == "head":
            return BLOCKS["mlp"], {"cfg": b, "static": {}}
        kind = {"vector": "mlp", "image": "cnn", "simba": "simba", "lstm": "lstm"}[case["obs"]]
        return BLOCKS[kind], {"cfg": b, "static": {"input_shape": list(case.get("img") or [2, 16, 16])}}

    def quantities(self, case, d):
        q = [("latent", d["latent"], case["cfg"]["min_latent_dim"], case["cfg"]["max_latent_dim"])]
        for which in ("enc", "head"):
            blk, pc = self.sub(case, which)
            q += [(f"{which}.{nm}", v, lo, hi) for (nm, v, lo, hi) in blk.quantities(pc, d[which])]
        return q

    def effect(self, case, step, pre, post, rec):
        out = []
        m, attr = step["m"], rec["attr"]
        lo, hi = case["cfg"]["min_latent_dim"], case["cfg"]["max_latent_dim"]
        if m in ("add_latent_node", "remove_latent_node"):
            if attr != m:
                out.append(("resolved-method", f"{m} reported as {attr!r}"))
            n = rec["ret"][0] if rec["ret"] else 0
            tgt = pre["latent"] + (n if m == "add_latent_node" else -n)
            if n > 0 and lo < tgt < hi and post["latent"] != tgt:
                out.append(("effective", f"{m}({n}) not stopped by a bound ({pre['latent']} -> {tgt} inside ({lo},{hi})) but latent={post['latent']}"))
            if ((m == "add_latent_node" and tgt > hi) or (m == "remove_latent_node" and tgt < lo)) and post["latent"] != pre["latent"]:
                out.append(("bounds", f"{m}({n}) must be stopped by [{lo},{hi}] but latent {pre['latent']} -> {post['latent']}"))
            if post["enc"] != pre["enc"] or post["head"] != pre["head"]:
                out.append(("effective", f"{m} changed more than the latent width: {pre} -> {post}"))
            return out
        which, inner = ("enc", m[len("encoder."):]) if m.startswith("encoder.") else ("head", m[len("head_net."):])
        blk, pc = self.sub(case, which)
        other = "head" if which == "enc" else "enc"
        if post[other] != pre[other] or post["latent"] != pre["latent"]:
            out.append(("effective", f"{m} changed another part of the network: {pre} -> {post}"))
        pref = "encoder." if which == "enc" else "head_net."
        if attr == "" and rec.get("after_latent") and post == pre:
            return out + [("effective", f"{m} on the same clone after a latent-width mutation changed nothing and reports no applied method "
                           f"(the wrapper bound at construction still calls the sub-module that the latent mutation replaced)",
                           f"net:same-clone-nested-after-latent:{which}")]
        if attr == "" and which == "head" and case["net"] == "stoch" and post == pre:
            blk0, pc0 = self.sub(case, "head")
            lo_l, hi_l = blk0.bounds(pc0)["layers"]
            return out + [("effective", f"{m} is advertised by the StochasticActor (EvolvableDistribution forwards the wrapped MLP's "
                           f"methods) but the call changed nothing and reports no applied method: head stays {pre['head']} "
                           f"(layer bounds [{lo_l},{hi_l}])", f"net:stoch-head-not-forwarded:{inner}")]
        if attr == "" and which == "enc" and case["obs"] == "image" and inner == "change_kernel" and pre["enc"]["layers"] == 1:
            return out          # one conv layer: there is no kernel the method may change (layer mutations are disabled)
        if not attr.startswith(pref):
            out.append(("resolved-method", f"{m} reported as {attr!r}"))
            return out
        rec2 = dict(rec); rec2["attr"] = attr[len(pref):]
        out += blk.effect(pc, {"m": inner, "args": step.get("args", {})}, pre[which], post[which], rec2)
        return out

    def oracle(self, case, obs):
        self._obs = obs
        out = super().oracle(case, obs)
        sig = "net"
        if not obs.get("config_untouched", True):
            out.append(Violation("config", f"{sig}:{case['net']}:config-mutated", "the size lists of the caller's encoder_config / head_config changed (shared with the network)"))
        f0 = obs.get("full0", {})
        where = f"{case['net']} network over {case['obs']} observations built from encoder_config={case['cfg']['encoder_config']}"
        if isinstance(f0.get("rebuilt"), str) and f0["rebuilt"] != "ok":
            out.append(Violation("rebuild", f"{sig}:init:ctor-raised", f"{where}: {f0['rebuilt']}"))
        elif f0.get("load") not in (None, "ok"):
            out.append(Violation("rebuild", f"{sig}:init:load-state-dict", f"{where}: {f0.get('load')}"))
        elif f0.get("same_fn") is False:
            out.append(Violation("rebuild", f"{sig}:init:rebuilt-different-function",
                                 f"{where}: type(net)(**net.init_dict) with the same weights computes different outputs "
                                 f"(encoder fields built {obs.get('enc_full')} vs rebuilt {obs.get('enc_full_rebuilt')})"))
        for i, rec in enumerate(obs["steps"]):
            if rec.get("clone_same_weights") is False:
                out.append(Violation("rebuild", f"{sig}:clone-weights", f"step {i}: clone() did not take over the weights"))
                break
        return out

    # ---- Coq
    def enc_arch_term(self, case, e):
        if case["obs"] == "image":
            return f"(ECnn {{| channels := {czl(e['widths'])}; kernels := {czl(e['kernels'])}; strides := {czl(e['strides'])} |}})"
        if case["obs"] in ("simba", "lstm"):
            k = "ESimba" if case["obs"] == "simba" else "ELstm"
            return f"({k} {{| s_layers := {cz(e['layers'])}; s_width := {cz(e['widths'][0])} |}})"
        return f"(EMlp {czl(e['widths'])})"

    def arch_term(self, case, d):
        return f"{{| n_latent := {cz(d['latent'])}; n_enc := {self.enc_arch_term(case, d['enc'])}; n_head := {czl(d['head']['widths'])} |}}"

    def static_term(self, case):
        ec, hc = case["cfg"]["encoder_config"], case["cfg"]["head_config"]
        o = case["obs"]
        if o == "image":
            ic, ih, iw = case.get("img") or [2, 16, 16]
            es = f"(SCnn {ic} {ih} {iw} {coq_bool(ec.get('layer_norm', False))})"
        elif o == "simba":
            es = f"(SSimba 4 {cz(ec.get('scale_factor', 4))})"
        elif o == "lstm":
            es = "(SLstm 4)"
        else:
            ln = True if case["net"] == "rainbow" else ec.get("layer_norm", True)
            es = f"(SMlp 4 {coq_bool(ln)})"
        n = case["net"]
        out = {"q": 3, "rainbow": 5, "contq": 1, "value": 1, "det": 2, "stoch": 2}[n]
        rainbow = n == "rainbow"
        return (f"{{| ns_enc := {es}; ns_head_in_extra := {cz(2 if n == 'contq' else 0)}; ns_head_out := {cz(out)}; "
                f"ns_head_layer_norm := {coq_bool(True if rainbow else hc.get('layer_norm', True))}; ns_head_noisy := {coq_bool(rainbow)}; "
                f"ns_wrapped_head := {coq_bool(n == 'stoch')}; ns_log_std := {'(Some 2)' if n == 'stoch' else 'None'}; ns_dueling := {'(Some 15)' if rainbow else 'None'} |}}")

    def cfg_term(self, case):
        blk, pc = self.sub(case, "enc")
        if case["obs"] == "image":
            ek = f"(KCnn {blk.cfg_term(pc['cfg'])})"
        elif case["obs"] in ("simba", "lstm"):
            ek = f"(KScalar {blk.cfg_term(pc['cfg'])})"
        else:
            ek = f"(KMlp {blk.cfg_term(pc['cfg'])})"
        hb, hp = self.sub(case, "head")
        return (f"{{| n_min_latent := {cz(case['cfg']['min_latent_dim'])}; n_max_latent := {cz(case['cfg']['max_latent_dim'])}; "
                f"n_enc_cfg := {ek}; n_head_cfg := {hb.cfg_term(hp['cfg'])} |}}")

    def meth_term(self, case, step):
        m = step["m"]
        a = step.get("args", {})
        if m == "add_latent_node":
            return f"(NAddLatent {copt(a.get('numb_new_nodes'))})"
        if m == "remove_latent_node":
            return f"(NRemoveLatent {copt(a.get('numb_new_nodes'))})"
        if m.startswith("head_net."):
            return f"(NHead {BLOCKS['mlp'].meth_term({'m': m[9:], 'args': a})})"
        inner = m[len("encoder."):]
        o = case["obs"]
        if o == "image":
            t = {"change_kernel": f"ECChangeKernel {meth_args(step, ['kernel_size', 'hidden_layer'])}",
                 "add_channel": f"ECAddChannel {meth_args(step, ['hidden_layer', 'numb_new_channels'])}",
                 "remove_channel": f"ECRemoveChannel {meth_args(step, ['hidden_layer', 'numb_new_channels'])}"}[inner]
        elif o in ("simba", "lstm"):
            t = ("ESAddNode " if inner == "add_node" else "ESRemoveNode ") + copt(a.get("numb_new_nodes"))
        else:
            t = ("EMAddNode " if inner == "add_node" else "EMRemoveNode ") + meth_args(step, ["hidden_layer", "numb_new_nodes"])
        return f"(NEnc ({t}))"

    def full_term(self, f):
        oa = "None" if f["output_activation"] is None else f'(Some "{f["output_activation"]}")'
        return (f'{{| f_activation := "{f["activation"]}"; f_output_activation := {oa}; f_layer_norm := {coq_bool(f["layer_norm"])}; '
                f'f_output_layernorm := {coq_bool(f["output_layernorm"])}; f_output_vanish := {coq_bool(f["output_vanish"])} |}}')

    def coq(self, case, obs):
        self._case = case
        self._obs = obs
        steps = "[" + "; ".join(
            f"({self.meth_term(case, s)}, {draws(s, 2)}, {cobs(self.arch_term(case, r['desc']), r)})"
            for s, r in good_pairs(case, obs)) + "]"
        t = (f"check_net {self.static_term(case)} {self.cfg_term(case)} {self.arch_term(case, case_init_desc(case))} "
             f"(Some {cshapes(obs['shapes0'])}) {steps}")
        if obs.get("enc_full") is not None and isinstance(obs.get("enc_full_rebuilt"), dict):
            ec = case["cfg"]["encoder_config"]

            def o(k, f):
                return "None" if ec.get(k) is None else f"(Some {f(ec[k])})"
            u = (f"{{| u_activation := {o('activation', lambda x: chr(34) + x + chr(34))}; u_output_activation := {o('output_activation', lambda x: chr(34) + x + chr(34))}; "
                 f"u_layer_norm := {o('layer_norm', coq_bool)}; u_output_layernorm := {o('output_layernorm', coq_bool)}; u_output_vanish := {o('output_vanish', coq_bool)} |}}")
            t = f"({t}) && check_cfg {u} {self.full_term(obs['enc_full'])} {self.full_term(obs['enc_full_rebuilt'])}"
        return t


def case_init_desc(case):
    i = case["init"]
    return {"latent": i["latent"], "enc": i["enc"], "head": {"layers": len(i["head"]), "widths": i["head"]}}


register(Net())
