"""C03 helpers: driving the real evolvable modules, canonical observations, Coq terms, oracle."""
from __future__ import annotations

import copy
import hashlib
import json
import re

import numpy as np
import torch

from vlib import Violation, coq_Z, coq_bool

from agilerl.modules.mlp import EvolvableMLP
from agilerl.modules.lstm import EvolvableLSTM
from agilerl.modules.simba import EvolvableSimBa
from agilerl.modules.resnet import EvolvableResNet


# ------------------------------------------------------------------ scripted numpy RNG
class Script:
    """Replaces np.random.randint / np.random.choice while a mutation method runs.
    raw draw r  ->  randint(lo, hi) = lo + r % (hi - lo);  choice(a) = a[r % len(a)]
    (return types as numpy's: Python int without `size`, int64 array with it)."""

    def __init__(self, raws):
        self.raws = list(raws)
        self.used = 0

    def _next(self):
        if self.used >= len(self.raws):
            raise AssertionError("mutation method drew more random numbers than scripted")
        r = self.raws[self.used]
        self.used += 1
        return int(r)

    def randint(self, low, high=None, size=None, dtype=int):
        if high is None:
            low, high = 0, low
        if high <= low:
            raise ValueError("low >= high")
        v = int(low) + self._next() % (int(high) - int(low))
        if size is None:
            return v
        return np.full(size, v, dtype=np.int64)

    def choice(self, a, size=None, replace=True, p=None):
        a = list(a) if not isinstance(a, int) else list(range(a))
        v = a[self._next() % len(a)]
        if size is None:
            return np.int64(v)
        return np.full(size, v, dtype=np.int64)

    def __enter__(self):
        self._orig = (np.random.randint, np.random.choice)
        np.random.randint, np.random.choice = self.randint, self.choice
        return self

    def __exit__(self, *a):
        np.random.randint, np.random.choice = self._orig


def canon_shapes(sd, strip):
    """state_dict -> [[canonical name, [numbers], shape]]; `strip` = regex removed from the front of every key"""
    out = []
    for k, v in sd.items():
        k2 = re.sub(strip, "", k, count=1)
        nums = [int(x) for x in re.findall(r"\d+", k2)]
        out.append([re.sub(r"\d+", "#", k2), nums, [int(x) for x in v.shape]])
    return out


def py(x):
    """numpy / torch scalars -> Python"""
    if isinstance(x, (list, tuple)):
        return [py(y) for y in x]
    if hasattr(x, "item"):
        return x.item()
    return x


# ------------------------------------------------------------------ Coq literals
def cz(n):
    return coq_Z(n)


def czl(l):
    return "[" + "; ".join(cz(x) for x in l) + "]"


def copt(x):
    return "None" if x is None else f"(Some {cz(x)})"


def cshapes(sh):
    return "[" + "; ".join(f'("{n}", {czl(i)}, {czl(s)})' for n, i, s in sh) + "]"


def cshapes0(case, obs):
    """initial layout: compared for walks and BFS roots (a BFS edge starts where another edge ended)"""
    if case.get("src", "").startswith("bfs") and not case.get("root"):
        return "None"
    return f"(Some {cshapes(obs['shapes0'])})"


def cobs(desc_term, rec):
    sh = "None" if rec.get("shapes") is None else f"(Some {cshapes(rec['shapes'])})"
    rb = rec.get("rebuilt")
    if rb is None:
        rbt = "RNone"
    elif isinstance(rb, str):
        rbt = "RRaised"
    elif rb == rec.get("shapes"):
        rbt = "RSame"
    else:
        rbt = f"(RShapes {cshapes(rb)})"
    return f'({desc_term}, "{rec["attr"]}", {czl(rec["ret"])}, {sh}, {rbt})'


# ------------------------------------------------------------------ blocks
class Block:
    name = ""
    cls = None
    strip = r"^model\.[a-z]+_"
    layer_methods = ()      # (add, remove)
    node_methods = ()       # (add, remove)
    extra_methods = ()

    # -- to implement
    def kwargs(self, case):
        raise NotImplementedError

    def desc(self, m):
        """{'layers': int, 'widths': [...], ...} read from the constructor description"""
        raise NotImplementedError

    def make_input(self, case, b):
        raise NotImplementedError

    def bounds(self, case):
        """{'layers': (lo, hi), 'widths': (lo, hi)}"""
        raise NotImplementedError

    def coq(self, case, obs):
        raise NotImplementedError

    # -- shared
    def build(self, case):
        return self.cls(**self.kwargs(case))

    def advertised(self, case):
        return sorted(self.layer_methods + self.node_methods + self.extra_methods)

    def out_shape(self, case, b):
        return [b, case["static"]["num_outputs"]]

    def call(self, m, step):
        return getattr(m, step["m"])(**{k: v for k, v in step.get("args", {}).items() if v is not None})

    def observe_full(self, m, case, rec):
        rec["shapes"] = canon_shapes(m.state_dict(), self.strip)
        fw = []
        for b in (1, 2, 3):
            try:
                with torch.no_grad():
                    y = m(self.make_input(case, b))
                fw.append({"shape": [int(x) for x in y.shape], "finite": bool(torch.isfinite(y).all())})
            except Exception as e:  # noqa
                fw.append({"error": f"{type(e).__name__}: {e}"[:300]})
        rec["fw"] = fw
        try:
            idict = m.init_dict
            rec["init_types"] = {k: type(v).__name__ for k, v in idict.items() if isinstance(v, (int, np.integer)) and not isinstance(v, bool)}
            clone = type(m)(**copy.deepcopy(idict))
            rec["rebuilt"] = canon_shapes(clone.state_dict(), self.strip)
            try:
                clone.load_state_dict(m.state_dict(), strict=True)
                rec["load"] = "ok"
            except Exception as e:  # noqa
                rec["load"] = f"{type(e).__name__}: {e}"[:300]
            d2 = self.desc(clone)
            rec["rebuilt_desc_same"] = (d2 == self.desc(m))
        except Exception as e:  # noqa
            rec["rebuilt"] = f"raised {type(e).__name__}: {e}"[:300]
            rec["load"] = None

    def run(self, case):
        torch.manual_seed(0)
        m = self.build(case)
        every = case.get("every", 1)
        obs = {"methods": sorted(m.mutation_methods), "desc0": self.desc(m),
               "shapes0": canon_shapes(m.state_dict(), self.strip), "steps": []}
        n = len(case["steps"])
        for i, step in enumerate(case["steps"]):
            rec = {"error": None, "attr": None, "ret": [], "shapes": None, "rebuilt": None}
            sc = Script(step.get("r", []))
            try:
                with sc:
                    ret = self.call(m, step)
                rec["attr"] = m.last_mutation_attr
                rec["ret"] = [int(v) for v in ret.values()] if isinstance(ret, dict) else []
            except Exception as e:  # noqa
                rec["error"] = f"{type(e).__name__}: {e}"[:400]
            rec["used"] = sc.used
            try:
                rec["desc"] = self.desc(m)
            except Exception as e:  # noqa
                rec["desc"] = None
                rec["error"] = rec["error"] or f"descriptor: {type(e).__name__}: {e}"[:300]
            if rec["error"] is None and every > 0 and (i % every == 0 or i == n - 1):
                self.observe_full(m, case, rec)
            obs["steps"].append(rec)
            if rec["error"] is not None:
                break
        return obs

    # -- oracle: the property stated on the implementation's behaviour
    def effect(self, case, step, pre, post, rec):
        """(clause, detail) list for the 'advertised mutation is effective' clause"""
        out = []
        bd = self.bounds(case)
        m, attr = step["m"], rec["attr"]
        lo, hi = bd["layers"]
        if m in self.layer_methods:
            d = 1 if m == self.layer_methods[0] else -1
            tgt = pre["layers"] + d
            blocked = self.layer_blocked(case, m, pre)
            if lo <= tgt <= hi and not blocked:
                if post["layers"] != tgt or attr != m:
                    out.append(("effective", f"{m} not stopped by a bound (layers {pre['layers']} in [{lo},{hi}]) but layers={post['layers']}, applied={attr}"))
            elif not (lo <= tgt <= hi):
                if post["layers"] != pre["layers"]:
                    out.append(("bounds", f"{m} at the bound changed layers {pre['layers']} -> {post['layers']} (bounds [{lo},{hi}])"))
                if attr == m:
                    out.append(("resolved-method", f"{m} was stopped by the bound but last_mutation_attr still reports {attr}"))
        if attr in self.node_methods and rec["ret"] and post.get("widths") is not None:
            wlo, whi = bd["widths"]
            if len(rec["ret"]) == 2:
                i, n = rec["ret"]
            else:
                i, n = 0, rec["ret"][0]
            sign = 1 if attr == self.node_methods[0] else -1
            if n > 0 and 0 <= i < len(pre["widths"]) and len(pre["widths"]) == len(post["widths"]):
                tgt = pre["widths"][i] + sign * n
                exp = list(pre["widths"])
                if wlo < tgt < whi:
                    exp[i] = tgt
                    if post["widths"] != exp:
                        out.append(("effective", f"{attr}({i},{n}) not stopped by a bound ({pre['widths'][i]} -> {tgt} inside ({wlo},{whi})) but widths {pre['widths']} -> {post['widths']}"))
                elif tgt < wlo or tgt > whi:
                    if post["widths"] != exp:
                        out.append(("bounds", f"{attr}({i},{n}) must be stopped by the bound [{wlo},{whi}] but widths {pre['widths']} -> {post['widths']}"))
        return out

    def layer_blocked(self, case, m, pre):
        return False

    def quantities(self, case, d):
        """[(name, value, lo, hi)]"""
        bd = self.bounds(case)
        q = [("layers", d["layers"], *bd["layers"])]
        q += [(f"width[{i}]", w, *bd["widths"]) for i, w in enumerate(d["widths"])]
        return q

    def oracle(self, case, obs):
        out = []
        sig = f"{self.name}"
        if obs["methods"] != self.advertised(case):
            out.append(Violation("advertised-methods", f"{sig}:advertised-methods",
                                 f"mutation_methods = {obs['methods']}, expected {self.advertised(case)}"))
        pre = obs["desc0"]
        for i, (step, rec) in enumerate(zip(case["steps"], obs["steps"])):
            where = f"step {i} {step['m']}({step.get('args', {})}) draws {step.get('r')} from {pre}"
            if rec["error"] is not None:
                out.append(Violation("valid", f"{sig}:{step['m']}:raised", f"{where}: {rec['error']}"))
                break
            post = rec["desc"]
            if rec["attr"] is not None and rec["attr"] not in obs["methods"]:
                out.append(Violation("resolved-method", f"{sig}:{step['m']}:resolved", f"{where}: last_mutation_attr={rec['attr']} is not advertised"))
            # bounds: inside stays inside; outside never moves further out
            qa, qb = self.quantities(case, pre), self.quantities(case, post)
            for (nm, v, lo, hi) in qb:
                prev = [x for x in qa if x[0] == nm]
                pv = prev[0][1] if prev else None
                inside_before = all(l <= x <= h for (_, x, l, h) in qa)
                if inside_before and not (lo <= v <= hi):
                    out.append(Violation("bounds", f"{sig}:{step['m']}:bounds:{nm.split('[')[0]}", f"{where}: {nm}={v} outside [{lo},{hi}]"))
                elif pv is not None and ((v > hi and v > pv) or (v < lo and v < pv)):
                    out.append(Violation("bounds", f"{sig}:{step['m']}:bounds-further-out:{nm.split('[')[0]}", f"{where}: {nm} {pv} -> {v} moves away from [{lo},{hi}]"))
            for cl, det in self.effect(case, step, pre, post, rec):
                out.append(Violation(cl, f"{sig}:{step['m']}:{cl}", f"{where}: {det}"))
            if rec.get("fw") is not None:
                for b, f in zip((1, 2, 3), rec["fw"]):
                    if "error" in f:
                        out.append(Violation("valid", f"{sig}:{step['m']}:forward-raised", f"{where}: forward(batch {b}) at {post}: {f['error']}"))
                        break
                    if f["shape"] != self.out_shape(case, b) or not f["finite"]:
                        out.append(Violation("valid", f"{sig}:{step['m']}:forward-shape", f"{where}: forward(batch {b}) at {post} gave shape {f['shape']} finite={f['finite']}, declared {self.out_shape(case, b)}"))
                        break
                if isinstance(rec["rebuilt"], str):
                    out.append(Violation("rebuild", f"{sig}:{step['m']}:ctor-raised", f"{where}: type(m)(**m.init_dict) at {post}: {rec['rebuilt']} (int field types {rec.get('init_types')})"))
                elif rec.get("load") != "ok":
                    out.append(Violation("rebuild", f"{sig}:{step['m']}:load-state-dict", f"{where}: rebuilt module does not accept the weights at {post}: {rec.get('load')}"))
                elif rec.get("rebuilt_desc_same") is False:
                    out.append(Violation("rebuild", f"{sig}:{step['m']}:ctor-not-fixed-point", f"{where}: the rebuilt module reports a different constructor description"))
            if out:
                break
            pre = post
        return out


def meth_args(step, names):
    a = step.get("args", {})
    return " ".join(copt(a.get(n)) for n in names)


def draws(step, n):
    r = list(step.get("r", [])) + [0, 0]
    return ", ".join(cz(x) for x in r[:n])


class MLP(Block):
    name = "mlp"
    cls = EvolvableMLP
    layer_methods = ("add_layer", "remove_layer")
    node_methods = ("add_node", "remove_node")

    def kwargs(self, case):
        kw = dict(case["static"]); kw.update(case["cfg"]); kw["hidden_size"] = list(case["init"])
        return kw

    def desc(self, m):
        h = py(m.init_dict["hidden_size"])
        return {"layers": len(h), "widths": [int(x) for x in h]}

    def make_input(self, case, b):
        return torch.randn(b, case["static"]["num_inputs"])

    def bounds(self, case):
        c = case["cfg"]
        return {"layers": (c["min_hidden_layers"], c["max_hidden_layers"]), "widths": (c["min_mlp_nodes"], c["max_mlp_nodes"])}

    def static_term(self, s):
        return (f"{{| ms_in := {cz(s['num_inputs'])}; ms_out := {cz(s['num_outputs'])}; ms_layer_norm := {coq_bool(s.get('layer_norm', True))}; "
                f"ms_out_layer_norm := {coq_bool(s.get('output_layernorm', False))}; ms_noisy := {coq_bool(s.get('noisy', False))} |}}")

    def cfg_term(self, c):
        return (f"{{| m_min_layers := {cz(c['min_hidden_layers'])}; m_max_layers := {cz(c['max_hidden_layers'])}; "
                f"m_min_nodes := {cz(c['min_mlp_nodes'])}; m_max_nodes := {cz(c['max_mlp_nodes'])} |}}")

    def meth_term(self, step):
        m = step["m"]
        if m == "add_layer":
            return "MAddLayer"
        if m == "remove_layer":
            return "MRemoveLayer"
        k = "MAddNode" if m == "add_node" else "MRemoveNode"
        return f"({k} {meth_args(step, ['hidden_layer', 'numb_new_nodes'])})"

    def steps_term(self, case, obs):
        return "[" + "; ".join(f"({self.meth_term(s)}, {draws(s, 2)}, {cobs(czl(r['desc']['widths']), r)})"
                               for s, r in zip(case["steps"], obs["steps"])) + "]"

    def coq(self, case, obs):
        return (f"check_mlp {self.static_term(case['static'])} {self.cfg_term(case['cfg'])} {czl(case['init'])} "
                f"{cshapes0(case, obs)} {self.steps_term(case, obs)}")


class Scalar(Block):
    layer_key = "num_layers"
    width_key = "hidden_size"
    cfg_keys = ()

    def kwargs(self, case):
        kw = dict(case["static"]); kw.update(case["cfg"])
        kw[self.layer_key] = case["init"]["layers"]; kw[self.width_key] = case["init"]["width"]
        return kw

    def desc(self, m):
        d = m.init_dict
        return {"layers": int(d[self.layer_key]), "widths": [int(d[self.width_key])]}

    def bounds(self, case):
        c = case["cfg"]; k = self.cfg_keys
        return {"layers": (c[k[0]], c[k[1]]), "widths": (c[k[2]], c[k[3]])}

    def cfg_term(self, c):
        k = self.cfg_keys
        return (f"{{| s_min_layers := {cz(c[k[0]])}; s_max_layers := {cz(c[k[1]])}; s_min_width := {cz(c[k[2]])}; s_max_width := {cz(c[k[3]])} |}}")

    def meth_term(self, step):
        m = step["m"]
        if m == self.layer_methods[0]:
            return "SAddLayer"
        if m == self.layer_methods[1]:
            return "SRemoveLayer"
        k = "SAddNode" if m == self.node_methods[0] else "SRemoveNode"
        return f"({k} {copt(step.get('args', {}).get(self.amount_key))})"

    def coq(self, case, obs):
        steps = "[" + "; ".join(
            f"({self.meth_term(s)}, {draws(s, 1)}, {cobs('(' + cz(r['desc']['layers']) + ', ' + cz(r['desc']['widths'][0]) + ')', r)})"
            for s, r in zip(case["steps"], obs["steps"])) + "]"
        a0 = f"{{| s_layers := {cz(case['init']['layers'])}; s_width := {cz(case['init']['width'])} |}}"
        return f"{self.check_fn} {self.static_term(case['static'])} {self.cfg_term(case['cfg'])} {a0} {cshapes0(case, obs)} {steps}"


class LSTM(Scalar):
    name = "lstm"
    cls = EvolvableLSTM
    layer_methods = ("add_layer", "remove_layer")
    node_methods = ("add_node", "remove_node")
    cfg_keys = ("min_layers", "max_layers", "min_hidden_size", "max_hidden_size")
    amount_key = "numb_new_nodes"
    check_fn = "check_lstm"

    def make_input(self, case, b):
        return torch.randn(b, 5, case["static"]["input_size"])

    def static_term(self, s):
        return f"{{| ls_in := {cz(s['input_size'])}; ls_out := {cz(s['num_outputs'])} |}}"


class SimBa(Scalar):
    name = "simba"
    cls = EvolvableSimBa
    layer_key = "num_blocks"
    layer_methods = ("add_block", "remove_block")
    node_methods = ("add_node", "remove_node")
    cfg_keys = ("min_blocks", "max_blocks", "min_mlp_nodes", "max_mlp_nodes")
    amount_key = "numb_new_nodes"
    check_fn = "check_simba"

    def make_input(self, case, b):
        return torch.randn(b, case["static"]["num_inputs"])

    def static_term(self, s):
        return f"{{| ss_in := {cz(s['num_inputs'])}; ss_out := {cz(s['num_outputs'])}; ss_scale := {cz(s.get('scale_factor', 4))} |}}"


class ResNet(Scalar):
    name = "resnet"
    cls = EvolvableResNet
    layer_key = "num_blocks"
    width_key = "channel_size"
    layer_methods = ("add_block", "remove_block")
    node_methods = ("add_channel", "remove_channel")
    cfg_keys = ("min_blocks", "max_blocks", "min_channel_size", "max_channel_size")
    amount_key = "numb_new_channels"
    check_fn = "check_resnet"

    def make_input(self, case, b):
        return torch.randn(b, *case["static"]["input_shape"])

    def static_term(self, s):
        c, h, w = s["input_shape"]
        return (f"{{| rs_in_ch := {cz(c)}; rs_h := {cz(h)}; rs_w := {cz(w)}; rs_out := {cz(s['num_outputs'])}; "
                f"rs_kernel := {cz(s['kernel_size'])}; rs_stride := {cz(s['stride_size'])}; rs_scale := {cz(s.get('scale_factor', 4))} |}}")


BLOCKS = {b.name: b for b in (MLP(), LSTM(), SimBa(), ResNet())}


def register(block):
    BLOCKS[block.name] = block


# ------------------------------------------------------------------ driver entry points
def run_case_uncached(case):
    return BLOCKS[case["block"]].run(case)


def run_case(case):
    import c03_gen
    k = key_case(case)
    if k in c03_gen.CACHE:
        return c03_gen.CACHE.pop(k)
    return run_case_uncached(case)


def coq_case(case, obs):
    if any(r["error"] is not None for r in obs["steps"]) or len(obs["steps"]) != len(case["steps"]):
        return None      # the oracle reports the failing call; nothing to compare
    return BLOCKS[case["block"]].coq(case, obs)


def oracle_case(case, obs):
    return BLOCKS[case["block"]].oracle(case, obs)


def key_case(case):
    k = {x: case.get(x) for x in ("block", "static", "cfg", "init", "steps", "every")}
    return hashlib.sha1(json.dumps(k, sort_keys=True, default=str).encode()).hexdigest()


def _changes(case, obs):
    pre = obs["desc0"]
    last_guard = {}
    flags = []
    for s, r in zip(case["steps"], obs["steps"]):
        changed = r.get("desc") != pre
        resolved_self = (r.get("attr") == s["m"])
        g = (changed, resolved_self)
        flags.append((s["m"], changed, resolved_self, last_guard.get(s["m"]) not in (None, g)))
        last_guard[s["m"]] = g
        pre = r.get("desc")
    return flags


def nontrivial_case(case, obs):
    return any(ch or differs for (_, ch, _, differs) in _changes(case, obs))


def classify_case(case, obs):
    labs = [f"block={case['block']}", f"src={case.get('src', '?')}", f"chain-length={'1' if len(case['steps']) == 1 else ('2-20' if len(case['steps']) <= 20 else '>20')}"]
    for (m, ch, rs, _) in _changes(case, obs):
        labs.append(f"{case['block']}.{m}:{'changed' if ch else 'unchanged'}:{'self' if rs else 'fallback'}")
    for s in case["steps"]:
        labs.append("args=" + ("explicit" if any(v is not None for v in s.get("args", {}).values()) else "drawn"))
    return labs


# ------------------------------------------------------------------ CNN
from agilerl.modules.cnn import EvolvableCNN  # noqa: E402


def py_fmaps(h, w, ks, ss):
    """feature-map sizes by plain arithmetic (oracle side, independent of the Coq model)"""
    out = []
    for k, s in zip(ks, ss):
        h, w = (h - k) // s + 1, (w - k) // s + 1
        out.append((h, w))
    return out


class CNN(Block):
    name = "cnn"
    cls = EvolvableCNN
    layer_methods = ("add_layer", "remove_layer")
    node_methods = ("add_channel", "remove_channel")
    extra_methods = ("change_kernel",)

    def kwargs(self, case):
        kw = dict(case["static"]); kw.update(case["cfg"])
        kw["channel_size"] = list(case["init"]["channels"]); kw["kernel_size"] = list(case["init"]["kernels"])
        kw["stride_size"] = list(case["init"]["strides"])
        return kw

    def desc(self, m):
        d = m.init_dict
        ch = [int(x) for x in py(d["channel_size"])]
        return {"layers": len(ch), "widths": ch, "kernels": [int(x) for x in py(d["kernel_size"])],
                "strides": [int(x) for x in py(d["stride_size"])]}

    def make_input(self, case, b):
        return torch.randn(b, *case["static"]["input_shape"])

    def bounds(self, case):
        c = case["cfg"]
        return {"layers": (c["min_hidden_layers"], c["max_hidden_layers"]), "widths": (c["min_channel_size"], c["max_channel_size"])}

    def quantities(self, case, d):
        q = super().quantities(case, d)
        q += [(f"kernel[{i}]", k, 1, 9) for i, k in enumerate(d["kernels"])]
        q += [(f"stride[{i}]", s, 1, 10 ** 6) for i, s in enumerate(d["strides"])]
        q += [("len(kernels)-len(channels)", len(d["kernels"]) - len(d["widths"]), 0, 0),
              ("len(strides)-len(channels)", len(d["strides"]) - len(d["widths"]), 0, 0)]
        return q

    def layer_blocked(self, case, m, pre):
        if m != "add_layer":
            return False
        _, h, w = case["static"]["input_shape"]
        fm = py_fmaps(h, w, pre["kernels"], pre["strides"])
        ho, wo = fm[-1]
        return ho <= 2 or wo <= 2 or min(ho, wo) // 4 <= 2

    def effect(self, case, step, pre, post, rec):
        out = super().effect(case, step, pre, post, rec)
        if rec["attr"] == "change_kernel" and len(rec["ret"]) == 2:
            i, k = rec["ret"]
            exp = list(pre["kernels"])
            if 0 <= i < len(exp):
                exp[i] = k
            if post["kernels"] != exp or post["widths"] != pre["widths"] or post["strides"] != pre["strides"]:
                out.append(("effective", f"change_kernel reported layer {i} -> kernel {k} but kernels {pre['kernels']} -> {post['kernels']}"))
        if rec["attr"] == "add_layer" and post["layers"] == pre["layers"] + 1:
            if post["widths"][:-1] != pre["widths"] or post["kernels"][:-1] != pre["kernels"] or post["strides"][:-1] != pre["strides"]:
                out.append(("effective", f"add_layer changed existing layers: {pre} -> {post}"))
        if rec["attr"] == "remove_layer" and post["layers"] == pre["layers"] - 1:
            if post["widths"] != pre["widths"][:-1] or post["kernels"] != pre["kernels"][:-1] or post["strides"] != pre["strides"][:-1]:
                out.append(("effective", f"remove_layer did not drop exactly the last layer: {pre} -> {post}"))
        return out

    def static_term(self, s):
        c, h, w = s["input_shape"]
        return (f"{{| cs_in_ch := {cz(c)}; cs_h := {cz(h)}; cs_w := {cz(w)}; cs_out := {cz(s['num_outputs'])}; "
                f"cs_layer_norm := {coq_bool(s.get('layer_norm', False))} |}}")

    def cfg_term(self, c):
        return (f"{{| c_min_layers := {cz(c['min_hidden_layers'])}; c_max_layers := {cz(c['max_hidden_layers'])}; "
                f"c_min_ch := {cz(c['min_channel_size'])}; c_max_ch := {cz(c['max_channel_size'])} |}}")

    def arch_term(self, d):
        return f"{{| channels := {czl(d['channels'])}; kernels := {czl(d['kernels'])}; strides := {czl(d['strides'])} |}}"

    def meth_term(self, step):
        m = step["m"]
        if m == "add_layer":
            return "CAddLayer"
        if m == "remove_layer":
            return "CRemoveLayer"
        if m == "change_kernel":
            return f"(CChangeKernel {meth_args(step, ['kernel_size', 'hidden_layer'])})"
        k = "CAddChannel" if m == "add_channel" else "CRemoveChannel"
        return f"({k} {meth_args(step, ['hidden_layer', 'numb_new_channels'])})"

    def coq(self, case, obs):
        steps = "[" + "; ".join(
            f"({self.meth_term(s)}, {draws(s, 2)}, "
            f"{cobs('(' + czl(r['desc']['widths']) + ', ' + czl(r['desc']['kernels']) + ', ' + czl(r['desc']['strides']) + ')', r)})"
            for s, r in zip(case["steps"], obs["steps"])) + "]"
        return (f"check_cnn {self.static_term(case['static'])} {self.cfg_term(case['cfg'])} {self.arch_term(case['init'])} "
                f"{cshapes0(case, obs)} {steps}")


register(CNN())
