"""C15 — observation handling is value-correct and batch-, agent- and env-consistent."""
from __future__ import annotations

import itertools
import math
import random
import sys

import numpy as np
import torch

import vlib
from vlib import Violation, coq_Q

import c15_agents as ag_level          # agent-level cases (IPPO / MADDPG / MATD3 / single-agent get_action)
from c15_common import (build_space, leaf_lead_ok, make_obs_arrays, net_input_shape, np_dtype, ref_rows,
                        space_shape, to_input, tensor_out, coq_space, coq_obs, coq_tq, coq_pobs, is_md_rank3,
                        TOL_NORM, uses_inexact_norm)

from agilerl.utils.algo_utils import preprocess_observation, get_vect_dim


# ------------------------------------------------------------------ the driver
class C15(vlib.Driver):
    pid = "C15"
    preamble = ("From Coq Require Import ZArith QArith.\nFrom AgileV Require Import C15.Model C15.Check.\n"
                "Open Scope nat_scope.")
    rule = ("function level: (space, input shape = lead ++ space shape, input kind, normalisation flag, value pattern) over an "
            "exhaustive grid of Box rank 0-4 / Discrete / MultiDiscrete / MultiBinary / one-level Dict and Tuple spaces and leads "
            "(), (1), (B), (1,1), (1,E), (T,1), (T,E) plus malformed ranks and classes; agent level: (algorithm, agent grouping, "
            "envs, order of the observation dict). Distinct = distinct canonical key. Non-trivial = a batch dimension is present "
            "(batch > 1, batch-of-one or (step, env)) or >= 2 agents share the call.")
    trusted_base = ["hand-written model coq/theories/C15/Model.v",
                    "correspondence harness harness/c15.py, c15_common.py, c15_agents.py (space/observation construction, exact float->Q "
                    "conversion, tagging of (agent, env) rows by reference outputs of the real networks)"]
    assumptions = ["torch semantics modelled, validated by K only: unsqueeze / view(-1, *s) / squeeze() / F.one_hot / split / cat / stack / "
                   "broadcasting, np.reshape / np.stack row-major order",
                   "obs_to_tensor's .float() is the identity on the generated values (all exactly representable in float32)",
                   "image normalisation with non-dyadic ranges (0..255, -3..3) and float64 inputs that float32 cannot represent are compared with "
                   "relative tolerance 2^-22 (float32 rounding)",
                   "row-wise networks: evaluation-mode MLP/CNN encoders without BatchNorm (hypothesis of batch_independent)"]
    shard = 120

    # ---------- generation
    def generate(self, tier, rng):
        cases = []
        thorough = tier == "thorough"
        self.exhaustive = True
        leads = [[], [1], [2], [3], [1, 1], [1, 3], [2, 1], [2, 3]]
        if thorough:
            leads += [[4], [3, 2], [5, 1]]
        box_shapes = [[], [1], [2], [3], [1, 1], [2, 3], [3, 1], [1, 2, 2], [3, 2, 2], [2, 1, 3], [1, 1, 1], [2, 1, 2, 2], [1, 2, 2, 1]]
        if thorough:
            box_shapes += [[4], [1, 3], [2, 2, 1], [1, 1, 2], [3, 3, 3], [1, 1, 1, 1], [2, 2, 2, 2]]

        def add(space, lead, inp="numpy", nz=True, trail=None, bad=None, pat=0):
            c = {"kind": "prep", "space": space, "lead": lead, "input": inp, "normalize": nz, "pat": pat}
            if trail:
                c["trail"] = trail
            if bad:
                c["bad"] = bad
            cases.append(c)

        # Box
        for shape in box_shapes:
            r = len(shape)
            if r == 3:
                variants = [("uint8", 0, 255), ("float32", 0, 1), ("float32", -1, 1), ("float32", 0, "inf"),
                            ("float32", "-inf", "inf"), ("float32", "per", "per"), ("float64", -2, 2), ("int64", 0, 4)]
            else:
                variants = [("float32", -1, 1), ("uint8", 0, 255), ("float64", -2, 2), ("int64", -5, 5)]
            for (dt, lo, hi) in variants:
                sp = {"t": "box", "shape": shape, "dtype": dt, "low": lo, "high": hi}
                for lead in leads:
                    for nz in ((True, False) if r == 3 else (True,)):
                        inps = ["numpy", "tensor"] if (dt in ("float32", "uint8") or thorough) else ["numpy"]
                        for inp in inps:
                            add(sp, lead, inp, nz)
                if r == 0:
                    add(sp, [], "number")
                add(sp, [2, 2, 2], "numpy", True)            # malformed: three leading dimensions
        # float64 observations that are rounded by obs_to_tensor's .float() (compared with relative tolerance 2^-22)
        for shape in [[], [3], [1, 2, 2]]:
            sp = {"t": "box", "shape": shape, "dtype": "float64", "low": -3, "high": 3}
            for lead in leads:
                for inp in ["numpy", "tensor"]:
                    add(sp, lead, inp, True)
        # Discrete
        for n in [1, 2, 3, 5]:
            sp = {"t": "discrete", "n": n}
            for lead in leads:
                for inp in ["numpy", "tensor"]:
                    add(sp, lead, inp)
                if len(lead) == 1:
                    add(sp, lead, "numpy", trail=[1])        # (B, 1): a column of class indices
                if len(lead) == 2 and thorough:
                    add(sp, lead, "numpy", trail=[1])
            add(sp, [], "number")
            add(sp, [2, 2, 2], "numpy")                      # malformed rank
            add(sp, [2], "numpy", bad="class_high")          # class == n
            add(sp, [2], "numpy", bad="class_neg")
        # MultiDiscrete
        for nvec in [[1, 3], [2, 3], [3], [1, 1], [2, 2, 2]] + ([[4, 1, 2], [1]] if thorough else []):
            sp = {"t": "md", "nvec": nvec}
            for lead in leads:
                for inp in ["numpy", "tensor"]:
                    add(sp, lead, inp)
            add(sp, [2, 2, 2], "numpy")
            add(sp, [2], "numpy", bad="class_high")
        # MultiBinary
        for n in [1, 2, 3]:
            sp = {"t": "mb", "n": n}
            for lead in leads:
                for inp in ["numpy", "tensor"]:
                    add(sp, lead, inp)
            add(sp, [2, 2, 2], "numpy")
        # second value pattern on a sub-grid (different classes / pixel values in each row)
        for sp in [{"t": "discrete", "n": 3}, {"t": "md", "nvec": [2, 3]}, {"t": "mb", "n": 3},
                   {"t": "box", "shape": [1, 2, 2], "dtype": "uint8", "low": 0, "high": 255},
                   {"t": "box", "shape": [2], "dtype": "float32", "low": -1, "high": 1}]:
            for lead in leads:
                for pat in ([1, 2] if not thorough else [1, 2, 3, 4]):
                    add(sp, lead, "numpy", pat=pat)
        # Dict / Tuple of the above, one level
        leafs = {
            "d3": {"t": "discrete", "n": 3}, "d1": {"t": "discrete", "n": 1}, "v2": {"t": "box", "shape": [2], "dtype": "float32", "low": -1, "high": 1},
            "s0": {"t": "box", "shape": [], "dtype": "float32", "low": -1, "high": 1},
            "img": {"t": "box", "shape": [1, 2, 2], "dtype": "uint8", "low": 0, "high": 255},
            "md": {"t": "md", "nvec": [2, 3]}, "mb2": {"t": "mb", "n": 2},
        }
        combos = [["d3", "v2"], ["img", "mb2"], ["md", "d1", "s0"], ["v2", "img", "d3"]]
        if thorough:
            combos += [["d3", "d1"], ["mb2", "md", "v2", "s0"]]
        for combo in combos:
            fields = [[i, leafs[k]] for i, k in enumerate(combo)]
            for lead in leads:
                for order in (list(range(len(combo))), list(reversed(range(len(combo))))):
                    for inp in ["numpy", "tensordict"]:
                        for nz in ((True, False) if "img" in combo else (True,)):
                            cases.append({"kind": "prep", "space": {"t": "dict", "fields": fields}, "lead": lead, "input": inp,
                                          "normalize": nz, "order": order, "pat": 0})
                for inp in ["numpy", "tensor"]:
                    cases.append({"kind": "prep", "space": {"t": "tuple", "members": [leafs[k] for k in combo]}, "lead": lead,
                                  "input": inp, "normalize": True, "pat": 0})
        # get_vect_dim: every space kind, unbatched / vectorised
        vleads = [[], [1], [2], [4], [2, 3]]
        vspaces = ([{"t": "box", "shape": s, "dtype": "float32", "low": -1, "high": 1} for s in ([], [2], [1], [2, 3], [1, 2, 2], [2, 1, 2, 2])]
                   + [{"t": "discrete", "n": n} for n in (1, 3)] + [{"t": "md", "nvec": v} for v in ([2, 3], [3])]
                   + [{"t": "mb", "n": n} for n in (1, 2, 3)])
        for sp in vspaces:
            for lead in vleads:
                for inp in ["numpy", "tensor"]:
                    cases.append({"kind": "vect", "space": sp, "lead": lead, "input": inp, "pat": 0})
        for sp in [{"t": "discrete", "n": 3}, {"t": "discrete", "n": 1}, {"t": "box", "shape": [], "dtype": "float32", "low": -1, "high": 1}]:
            cases.append({"kind": "vect", "space": sp, "lead": [], "input": "number", "pat": 0})     # a Python int / float
        for combo in [["mb2", "d3"], ["d3", "mb2"], ["img", "v2"], ["md", "s0"]]:
            for lead in vleads:
                cases.append({"kind": "vect", "space": {"t": "dict", "fields": [[i, leafs[k]] for i, k in enumerate(combo)]},
                              "lead": lead, "input": "numpy", "order": list(range(len(combo))), "pat": 0})
                cases.append({"kind": "vect", "space": {"t": "dict", "fields": [[i, leafs[k]] for i, k in enumerate(combo)]},
                              "lead": lead, "input": "numpy", "order": list(reversed(range(len(combo)))), "pat": 0})
                cases.append({"kind": "vect", "space": {"t": "tuple", "members": [leafs[k] for k in combo]},
                              "lead": lead, "input": "numpy", "pat": 0})
        # seeded stream: random space x lead x value pattern x input kind (replays exactly from the seed)
        for _ in range(150 if not thorough else 5000):
            kind = rng.choice(["box", "box", "discrete", "md", "mb"])
            if kind == "box":
                shape = [rng.randint(1, 3) for _ in range(rng.randint(0, 4))]
                if len(shape) == 3:
                    dt, lo, hi = rng.choice([("uint8", 0, 255), ("float32", 0, 1), ("float32", -1, 1), ("float32", 0, "inf"),
                                             ("float32", "per", "per"), ("float64", -2, 2), ("int64", 0, 4)])
                else:
                    dt, lo, hi = rng.choice([("float32", -1, 1), ("uint8", 0, 255), ("float64", -2, 2), ("int64", -5, 5)])
                sp = {"t": "box", "shape": shape, "dtype": dt, "low": lo, "high": hi}
            elif kind == "discrete":
                sp = {"t": "discrete", "n": rng.choice([1, 2, 3, 4, 7])}
            elif kind == "md":
                sp = {"t": "md", "nvec": [rng.randint(1, 4) for _ in range(rng.randint(1, 3))]}
            else:
                sp = {"t": "mb", "n": rng.randint(1, 4)}
            lead = rng.choice(leads + [[rng.randint(1, 4)], [rng.randint(1, 3), rng.randint(1, 3)]])
            add(sp, lead, rng.choice(["numpy", "tensor"]), rng.random() < 0.8, pat=rng.randint(0, 60))
        cases += ag_level.generate(tier, rng)
        return cases

    # ---------- implementation
    def run_impl(self, case):
        if case["kind"] in ag_level.KINDS:
            return ag_level.run_impl(case)
        space = build_space(case["space"])
        arrays = make_obs_arrays(case)                       # numpy arrays (leaf / per member), with their row structure
        obs = to_input(case, arrays)
        if case["kind"] == "vect":
            try:
                return {"ok": int(get_vect_dim(obs, space))}
            except Exception as e:
                return {"err": type(e).__name__, "msg": str(e)[:200]}
        nz = case["normalize"]
        prep = _prep_callable(case, space)
        try:
            out = prep(obs)
            res = {"ok": tensor_out(case, out)}
        except Exception as e:
            res = {"err": type(e).__name__, "msg": str(e)[:200]}
        # per-element runs: every row of the batch prepared on its own (unbatched observation)
        lead = case["lead"]
        if "ok" in res and len(lead) >= 1 and not case.get("bad") and len(lead) <= 2:
            B = int(np.prod(lead))
            mism, single_err = [], None
            for i in range(B):
                one = to_input(case, arrays, row=i)
                try:
                    o1 = tensor_out(case, prep(one))
                except Exception as e:
                    single_err = f"{type(e).__name__}: {e}"[:200]
                    break
                if not _row_equal(res["ok"], o1, i):
                    mism.append(i)
            res["rowwise_mismatch"] = mism
            res["single_err"] = single_err
        return res

    # ---------- model term
    def coq_term(self, case, obs):
        if case["kind"] in ag_level.KINDS:
            return ag_level.coq_term(case, obs)
        arrays = make_obs_arrays(case)
        sp = coq_space(case["space"])
        o = coq_obs(case, arrays)
        if case["kind"] == "vect":
            if case["input"] == "number" and "err" in obs:
                return None          # `.shape` of a Python number: not a tensor-level behaviour, reported by the oracle only
            seen = f"(Some {obs['ok']})" if "ok" in obs else "None"
            return f"check_vect true {sp} {o} {seen}"
        # the MultiDiscrete (step, env) defect: pinned semantics when the tree raises, repaired semantics otherwise
        mdf = "true" if (is_md_rank3(case) and "ok" in obs) else "false"
        tol = TOL_NORM if uses_inexact_norm(case) else "0"
        seen = f"(Some {coq_pobs(case, obs['ok'])})" if "ok" in obs else "None"
        return f"check_prep {mdf} {'true' if case['normalize'] else 'false'} {tol} {sp} {o} {seen}"

    # ---------- oracle: the property stated directly on the implementation's behaviour
    def oracle(self, case, obs):
        if case["kind"] in ag_level.KINDS:
            return ag_level.oracle(case, obs)
        out = []
        lead = case["lead"]
        kind = case["space"]["t"]
        if case.get("bad") or len(lead) > 2 or (case.get("trail") and len(lead) == 2):
            return out                                       # outside the property's inputs ((T,E,1) columns, bad ranks/classes): K only
        if case["kind"] == "vect":
            if len(lead) <= 1:
                want = lead[0] if lead else 1
                if "err" in obs:
                    out.append(Violation("vect-dim", f"vect:{_vect_kind(case)}:{'number-' if case['input'] == 'number' else ''}raises",
                                         f"get_vect_dim raised {obs['err']}: {obs.get('msg')} for lead {lead}"))
                elif obs["ok"] != want:
                    out.append(Violation("vect-dim", f"vect:{_vect_kind(case)}:wrong", f"get_vect_dim = {obs['ok']}, expected {want}"))
            return out
        site = kind if kind not in ("dict", "tuple") else kind
        if "err" in obs:
            sig = f"prep:{site}:raises"
            if is_md_rank3(case) or (kind in ("dict", "tuple") and _has_md(case) and len(lead) == 2):
                sig = "prep:multidiscrete:step-env-raises"
            out.append(Violation("prep-total", sig, f"preprocess_observation raised {obs['err']}: {obs.get('msg')} on a supported input "
                                                    f"(lead {lead}, space {case['space']})"))
            return out
        B = int(np.prod(lead)) if lead else 1
        arrays = make_obs_arrays(case)
        members = _members(case, obs["ok"])
        for name, leafspec, arr, got in members:
            want_shape = [B] + net_input_shape(leafspec)
            if got["shape"] != want_shape:
                out.append(Violation("prep-shape", f"prep:{site}:shape", f"member {name}: shape {got['shape']}, expected {want_shape} (lead {lead})"))
                continue
            if got["dtype"] != "torch.float32":
                out.append(Violation("prep-dtype", f"prep:{site}:dtype", f"member {name}: dtype {got['dtype']}"))
            want = ref_rows(leafspec, arr, B, case["normalize"])       # independent NumPy reference, float64
            g = np.asarray(got["data"], dtype=np.float64).reshape(B, -1)
            if not np.allclose(g, want.reshape(B, -1), rtol=1e-6, atol=1e-7):
                bad = int(np.argmax(np.abs(g - want.reshape(B, -1)).max(axis=1) > 1e-6))
                out.append(Violation("prep-values", f"prep:{site}:values",
                                     f"member {name}: row {bad} = {g[bad].tolist()}, expected {want.reshape(B, -1)[bad].tolist()}"))
        if obs.get("single_err"):
            out.append(Violation("prep-rowwise", f"prep:{site}:single-raises", f"a single row raised {obs['single_err']}"))
        elif obs.get("rowwise_mismatch"):
            out.append(Violation("prep-rowwise", f"prep:{site}:rowwise", f"rows {obs['rowwise_mismatch']} of the prepared batch differ from the same observation prepared on its own"))
        return out

    def key(self, case):
        return super().key(case)

    def nontrivial(self, case, obs):
        if case["kind"] in ag_level.KINDS:
            return ag_level.nontrivial(case, obs)
        return len(case["lead"]) >= 1

    def classify(self, case, obs):
        if case["kind"] in ag_level.KINDS:
            return ag_level.classify(case, obs)
        lead = case["lead"]
        lk = {0: "unbatched", 1: "batch-of-one" if lead == [1] else "batch", 2: "step-env", 3: "malformed-rank"}[len(lead)]
        if len(lead) == 2 and 1 in lead:
            lk = "step-env-with-1"
        labs = [f"kind={case['kind']}", f"space={case['space']['t']}", f"lead={lk}", f"input={case['input']}",
                "result=" + ("ok" if "ok" in obs else "raises"), "entry=" + case.get("algo", "module-function")]
        if case["space"]["t"] == "box":
            labs.append(f"box-rank={len(case['space']['shape'])}")
            if len(case["space"]["shape"]) == 3 and case["kind"] == "prep":
                labs.append("norm=" + (_norm_branch(case)))
        if case["space"]["t"] == "discrete":
            labs.append("discrete-n=" + ("1" if case["space"]["n"] == 1 else ">1"))
        if case.get("trail"):
            labs.append("trailing-singleton")
        if case.get("bad"):
            labs.append("bad=" + case["bad"])
        return labs

    def neighbours(self, case, rng):
        if case["kind"] in ag_level.KINDS:
            return
        for lead in ([], [1], [2], [2, 3]):
            if lead != case["lead"]:
                c = dict(case); c["lead"] = lead
                yield c


def _prep_callable(case, space):
    """the entry point under test: the module-level function, or agent.preprocess_observation of a real agent"""
    nz = case["normalize"]
    if "algo" not in case:
        return lambda o: preprocess_observation(o, space, normalize_images=nz)
    if "names" in case:                                    # multi-agent: the dict keys are the agent ids
        names = case["names"]
        agent = ag_level.get_agent(case["algo"], case["space"]["fields"][0][1], names, nz)

        def call(o):
            out = agent.preprocess_observation({names[int(k[1:])]: v for k, v in o.items()})
            return {f"k{names.index(n)}": v for n, v in out.items()}
        return call
    return ag_level.get_agent(case["algo"], case["space"], None, nz).preprocess_observation


def _vect_kind(case):
    t = case["space"]["t"]
    if t == "dict":
        first = case["order"][0]
        return "dict-first-" + case["space"]["fields"][first][1]["t"]
    if t == "tuple":
        return "tuple-first-" + case["space"]["members"][0]["t"]
    return t


def _has_md(case):
    sp = case["space"]
    ls = [f[1] for f in sp["fields"]] if sp["t"] == "dict" else sp["members"]
    return any(l["t"] == "md" for l in ls)


def _norm_branch(case):
    sp = case["space"]
    if not case["normalize"]:
        return "off"
    if sp["low"] == "-inf" or sp["high"] == "inf":
        return "unbounded-skip"
    if sp["low"] == 0 and sp["high"] == 1:
        return "already-unit-skip"
    return "scaled"


def _members(case, okobs):
    """-> list of (name, leafspec, numpy input array, observed tensor)"""
    sp = case["space"]
    arrays = make_obs_arrays(case)
    if sp["t"] == "dict":
        got = {k: v for k, v in okobs["items"]}
        return [(f"key{k}", leaf, arrays[k], got[k]) for k, leaf in sp["fields"] if k in got]
    if sp["t"] == "tuple":
        return [(f"member{i}", leaf, arrays[i], okobs["items"][i]) for i, leaf in enumerate(sp["members"])]
    return [("", sp, arrays, okobs)]


def _row_equal(batch_out, single_out, i):
    def rows(t):
        b = t["shape"][0] if t["shape"] else 1
        return np.asarray(t["data"], dtype=np.float64).reshape(b, -1)

    def one(bt, st):
        if st["shape"][:1] != [1] or st["shape"][1:] != bt["shape"][1:]:
            return False
        return bool(np.array_equal(rows(bt)[i], rows(st)[0]))
    if "items" in batch_out:
        if isinstance(batch_out["items"][0], list):
            s = dict(single_out["items"])
            return all(one(v, s[k]) for k, v in batch_out["items"])
        return all(one(a, b) for a, b in zip(batch_out["items"], single_out["items"]))
    return one(batch_out, single_out)


if __name__ == "__main__":
    sys.exit(vlib.run_check(C15()))
