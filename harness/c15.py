"""C15 — observation handling is value-correct and batch-, agent- and env-consistent."""
from __future__ import annotations

import itertools
import math
import random
import sys

import numpy as np
import torch

import vlib
from vlib import Violation, coq_Q

import c15_agents as ag_level          # agent-level cases (IPPO / MADDPG / MATD3 / single-agent get_action)
from c15_common import (box_bounds, leaf_array, build_space, leaf_lead_ok, make_obs_arrays, net_input_shape, np_dtype, ref_rows,
                        space_shape, to_input, tensor_out, coq_space, coq_obs, coq_tq, coq_pobs, is_md_rank3,
                        TOL_NORM, uses_inexact_norm)

from agilerl.utils.algo_utils import preprocess_observation, get_vect_dim


# ------------------------------------------------------------------ the driver
class C15(vlib.Driver):
    pid = "C15"
    preamble = ("From Coq Require Import ZArith QArith.\nFrom AgileV Require Import C15.Model C15.Check.\n"
                "Open Scope nat_scope.")
    rule = ("function level: (space, input shape = lead ++ space shape, input kind, normalisation flag, value pattern) over an "
            "exhaustive grid of Box rank 0-4 / Discrete / MultiDiscrete / MultiBinary / one-level Dict and Tuple spaces and leads "
            "(), (1), (B), (1,1), (1,E), (T,1), (T,E) plus malformed ranks and classes; agent level: (algorithm, agent grouping, "
            "envs, order of the observation dict). Distinct = distinct canonical key. Non-trivial = a batch dimension is present "
            "(batch > 1, batch-of-one or (step, env)) or >= 2 agents share the call.")
    trusted_base = ["hand-written model coq/theories/C15/Model.v",
                    "correspondence harness harness/c15.py, c15_common.py, c15_agents.py (space/observation construction, exact float->Q "
                    "conversion, tagging of (agent, env) rows by reference outputs of the real networks)"]
    assumptions = ["torch semantics modelled, validated by K only: unsqueeze / view(-1, *s) / squeeze() / F.one_hot / split / cat / stack / "
                   "broadcasting, np.reshape / np.stack row-major order",
                   "obs_to_tensor's .float() is the identity on the generated values (all exactly representable in float32)",
                   "image normalisation with non-dyadic ranges (0..255, -3..3) and float64 inputs that float32 cannot represent are compared with "
                   "relative tolerance 2^-22 (float32 rounding)",
                   "row-wise networks: evaluation-mode MLP/CNN encoders without BatchNorm (hypothesis of batch_independent)"]
    shard = 120

    # ---------- generation
    def generate(self, tier, rng):
        cases = []
        thorough = tier == "thorough"
        self.exhaustive = True
        leads = [[], [1], [2], [3], [1, 1], [1, 3], [2, 1], [2, 3]]
        if thorough:
            leads += [[4], [3, 2], [5, 1]]
        box_shapes = [[], [1], [2], [3], [1, 1], [2, 3], [3, 1], [1, 2, 2], [3, 2, 2], [2, 1, 3], [1, 1, 1], [2, 1, 2, 2], [1, 2, 2, 1]]
        if thorough:
            box_shapes += [[4], [1, 3], [2, 2, 1], [1, 1, 2], [3, 3, 3], [1, 1, 1, 1], [2, 2, 2, 2]]

        def add(space, lead, inp="numpy", nz=True, trail=None, bad=None, pat=0):
            c = {"kind": "prep", "space": space, "lead": lead, "input": inp, "normalize": nz, "pat": pat}
            if trail:
                c["trail"] = trail
            if bad:
                c["bad"] = bad
            cases.append(c)

        # Box
        for shape in box_shapes:
            r = len(shape)
            if r == 3:
                variants = [("uint8", 0, 255), ("float32", 0, 1), ("float32", -1, 1), ("float32", 0, "inf"),
                            ("float32", "-inf", "inf"), ("float32", "per", "per"), ("float64", -2, 2), ("int64", 0, 4)]
            else:
                variants = [("float32", -1, 1), ("uint8", 0, 255), ("float64", -2, 2), ("int64", -5, 5)]
            for (dt, lo, hi) in variants:
                sp = {"t": "box", "shape": shape, "dtype": dt, "low": lo, "high": hi}
                for lead in leads:
                    for nz in ((True, False) if r == 3 else (True,)):
                        inps = ["numpy", "tensor"] if (dt in ("float32", "uint8") or thorough) else ["numpy"]
                        for inp in inps:
                            add(sp, lead, inp, nz)
                if r == 0:
                    add(sp, [], "number")
                add(sp, [2, 2, 2], "numpy", True)            # malformed: three leading dimensions
        # float64 observations that are rounded by obs_to_tensor's .float() (compared with relative tolerance 2^-22)
        for shape in [[], [3], [1, 2, 2]]:
            sp = {"t": "box", "shape": shape, "dtype": "float64", "low": -3, "high": 3}
            for lead in leads:
                for inp in ["numpy", "tensor"]:
                    add(sp, lead, inp, True)
        # Discrete
        for n in [1, 2, 3, 5]:
            sp = {"t": "discrete", "n": n}
            for lead in leads:
                for inp in ["numpy", "tensor"]:
                    add(sp, lead, inp)
                if len(lead) == 1:
                    add(sp, lead, "numpy", trail=[1])        # (B, 1): a column of class indices
                if len(lead) == 2 and thorough:
                    add(sp, lead, "numpy", trail=[1])
            add(sp, [], "number")
            add(sp, [2, 2, 2], "numpy")                      # malformed rank
            add(sp, [2], "numpy", bad="class_high")          # class == n
            add(sp, [2], "numpy", bad="class_neg")
        # MultiDiscrete
        for nvec in [[1, 3], [2, 3], [3], [1, 1], [2, 2, 2]] + ([[4, 1, 2], [1]] if thorough else []):
            sp = {"t": "md", "nvec": nvec}
            for lead in leads:
                for inp in ["numpy", "tensor"]:
                    add(sp, lead, inp)
            add(sp, [2, 2, 2], "numpy")
            add(sp, [2], "numpy", bad="class_high")
        # MultiBinary
        for n in [1, 2, 3]:
            sp = {"t": "mb", "n": n}
            for lead in leads:
                for inp in ["numpy", "tensor"]:
                    add(sp, lead, inp)
            add(sp, [2, 2, 2], "numpy")
        # second value pattern on a sub-grid (different classes / pixel values in each row)
        for sp in [{"t": "discrete", "n": 3}, {"t": "md", "nvec": [2, 3]}, {"t": "mb", "n": 3},
                   {"t": "box", "shape": [1, 2, 2], "dtype": "uint8", "low": 0, "high": 255},
                   {"t": "box", "shape": [2], "dtype": "float32", "low": -1, "high": 1}]:
            for lead in leads:
                for pat in ([1, 2] if not thorough else [1, 2, 3, 4]):
                    add(sp, lead, "numpy", pat=pat)
        # Dict / Tuple of the above, one level
        leafs = {
            "d3": {"t": "discrete", "n": 3}, "d1": {"t": "discrete", "n": 1}, "v2": {"t": "box", "shape": [2], "dtype": "float32", "low": -1, "high": 1},
            "s0": {"t": "box", "shape": [], "dtype": "float32", "low": -1, "high": 1},
            "img": {"t": "box", "shape": [1, 2, 2], "dtype": "uint8", "low": 0, "high": 255},
            "md": {"t": "md", "nvec": [2, 3]}, "mb2": {"t": "mb", "n": 2},
        }
        combos = [["d3", "v2"], ["img", "mb2"], ["md", "d1", "s0"], ["v2", "img", "d3"]]
        if thorough:
            combos += [["d3", "d1"], ["mb2", "md", "v2", "s0"]]
        for combo in combos:
            fields = [[i, leafs[k]] for i, k in enumerate(combo)]
            for lead in leads:
                for order in (list(range(len(combo))), list(reversed(range(len(combo))))):
                    for inp in ["numpy", "tensordict"]:
                        for nz in ((True, False) if "img" in combo else (True,)):
                            cases.append({"kind": "prep", "space": {"t": "dict", "fields": fields}, "lead": lead, "input": inp,
                                          "normalize": nz, "order": order, "pat": 0})
                for inp in ["numpy", "tensor"]:
                    cases.append({"kind": "prep", "space": {"t": "tuple", "members": [leafs[k] for k in combo]}, "lead": lead,
                                  "input": inp, "normalize": True, "pat": 0})
        # get_vect_dim: every space kind, unbatched / vectorised
        vleads = [[], [1], [2], [4], [2, 3]]
        vspaces = ([{"t": "box", "shape": s, "dtype": "float32", "low": -1, "high": 1} for s in ([], [2], [1], [2, 3], [1, 2, 2], [2, 1, 2, 2])]
                   + [{"t": "discrete", "n": n} for n in (1, 3)] + [{"t": "md", "nvec": v} for v in ([2, 3], [3])]
                   + [{"t": "mb", "n": n} for n in (1, 2, 3)])
        for sp in vspaces:
            for lead in vleads:
                for inp in ["numpy", "tensor"]:
                    cases.append({"kind": "vect", "space": sp, "lead": lead, "input": inp, "pat": 0})
        for sp in [{"t": "discrete", "n": 3}, {"t": "discrete", "n": 1}, {"t": "box", "shape": [], "dtype": "float32", "low": -1, "high": 1}]:
            cases.append({"kind": "vect", "space": sp, "lead": [], "input": "number", "pat": 0})     # a Python int / float
        for combo in [["mb2", "d3"], ["d3", "mb2"], ["img", "v2"], ["md", "s0"]]:
            for lead in vleads:
                cases.append({"kind": "vect", "space": {"t": "dict", "fields": [[i, leafs[k]] for i, k in enumerate(combo)]},
                              "lead": lead, "input": "numpy", "order": list(range(len(combo))), "pat": 0})
                cases.append({"kind": "vect", "space": {"t": "dict", "fields": [[i, leafs[k]] for i, k in enumerate(combo)]},
                              "lead": lead, "input": "numpy", "order": list(reversed(range(len(combo)))), "pat": 0})
                cases.append({"kind": "vect", "space": {"t": "tuple", "members": [leafs[k] for k in combo]},
                              "lead": lead, "input": "numpy", "pat": 0})
        # seeded stream: random space x lead x value pattern x input kind (replays exactly from the seed)
        for _ in range(150 if not thorough else 5000):
            kind = rng.choice(["box", "box", "discrete", "md", "mb"])
            if kind == "box":
                shape = [rng.randint(1, 3) for _ in range(rng.randint(0, 4))]
                if len(shape) == 3:
                    dt, lo, hi = rng.choice([("uint8", 0, 255), ("float32", 0, 1), ("float32", -1, 1), ("float32", 0, "inf"),
                                             ("float32", "per", "per"), ("float64", -2, 2), ("int64", 0, 4)])
                else:
                    dt, lo, hi = rng.choice([("float32", -1, 1), ("uint8", 0, 255), ("float64", -2, 2), ("int64", -5, 5)])
                sp = {"t": "box", "shape": shape, "dtype": dt, "low": lo, "high": hi}
            elif kind == "discrete":
                sp = {"t": "discrete", "n": rng.choice([1, 2, 3, 4, 7])}
            elif kind == "md":
                sp = {"t": "md", "nvec": [rng.randint(1, 4) for _ in range(rng.randint(1, 3))]}
            else:
                sp = {"t": "mb", "n": rng.randint(1, 4)}
            lead = rng.choice(leads + [[rng.randint(1, 4)], [rng.randint(1, 3), rng.randint(1, 3)]])
            add(sp, lead, rng.choice(["numpy", "tensor"]), rng.random() < 0.8, pat=rng.randint(0, 60))
        # ---- generator audit (deepening): branches / defaults / input kinds no earlier case reached
        imgu8 = {"t": "box", "shape": [1, 2, 2], "dtype": "uint8", "low": 0, "high": 255}
        for lead in [[], [2], [2, 3]]:
            # default argument normalize_images (not passed), module function
            cases.append({"kind": "prep", "space": imgu8, "lead": lead, "input": "numpy", "normalize": True, "nz_default": True, "pat": 0})
            # -inf only in low (second guard of apply_image_normalization)
            add({"t": "box", "shape": [1, 2, 2], "dtype": "float32", "low": "-inf", "high": 1}, lead, "numpy", True)
            add({"t": "box", "shape": [1, 2, 2], "dtype": "float32", "low": "-inf", "high": 1}, lead, "tensor", False)
            # pixels exactly at the bounds
            add(imgu8, lead, "numpy", True, pat=99)
        for sp in [{"t": "discrete", "n": 3}, {"t": "box", "shape": [], "dtype": "float32", "low": -1, "high": 1},
                   {"t": "box", "shape": [], "dtype": "int64", "low": -5, "high": 5}]:
            add(sp, [], "npscalar")                                       # numpy scalars go through the Number branch
        for combo in [["d3", "v2"], ["img", "mb2"], ["md", "d1", "s0"]]:
            fields = [[i, leafs[k]] for i, k in enumerate(combo)]
            for lead in [[], [2], [2, 3]]:
                for inp in ["tensor", "tensordict_cpu"]:                  # dict of tensors; TensorDict already on the device
                    cases.append({"kind": "prep", "space": {"t": "dict", "fields": fields}, "lead": lead, "input": inp,
                                  "normalize": True, "order": list(range(len(combo))), "pat": 3})
            for lead in [[], [4]]:
                cases.append({"kind": "vect", "space": {"t": "dict", "fields": fields}, "lead": lead, "input": "tensordict",
                              "order": list(reversed(range(len(combo)))), "pat": 0})
        # structural mismatches between observation and space (K only: both sides must reject / truncate alike)
        for mis in ["leaf-for-dict", "dict-for-leaf", "leaf-for-tuple", "extra-key", "subset-keys", "tuple-short", "tuple-long"]:
            for lead in [[], [2]]:
                cases.append({"kind": "prep_mis", "mis": mis, "lead": lead})
        # maybe_add_batch_dim called directly, numpy arrays and tensors, every rank relation incl. non-divisible views
        for (shape, sshape) in [([3], [3]), ([2, 3], [3]), ([2, 2, 3], [3]), ([2, 2, 2, 3], [3]), ([], [3]), ([3], [2, 3]), ([], []),
                                ([4], []), ([2, 3], []), ([2, 3, 5], [4]), ([2, 3, 4], [6]), ([2, 3, 4], [3, 4]), ([5, 2, 3, 4], [3, 4]),
                                ([1, 1, 3], [3]), ([2, 3, 4], [4])]:
            for inp in ["numpy", "tensor"]:
                cases.append({"kind": "addbatch", "shape": shape, "sshape": sshape, "input": inp})
        # apply_image_normalization called directly (numpy branch is not reachable through preprocess_observation)
        for (lo, hi, dt) in [(0, 255, "uint8"), (-1, 1, "float32"), (0, 1, "float32"), (0, "inf", "float32"), ("-inf", 1, "float32"),
                             ("per", "per", "float32")]:
            for lead in [[], [2]]:
                for inp in ["numpy", "tensor"]:
                    cases.append({"kind": "norm", "space": {"t": "box", "shape": [1, 2, 2], "dtype": dt, "low": lo, "high": hi},
                                  "lead": lead, "input": inp, "pat": 2})
        # ---- round 3: signed-integer image spaces whose range does not fit their dtype (int8 255, int16 40000, int32 4e9):
        #      the range must be computed in floating point, never in the dtype of the Box
        wide = [("int8", -128, 127), ("int16", -20000, 20000), ("int32", -2000000000, 2000000000)]
        for (dt, lo, hi) in wide:
            sp = {"t": "box", "shape": [1, 2, 2], "dtype": dt, "low": lo, "high": hi}
            for lead in [[], [1], [2], [2, 3]]:
                for inp in ["numpy", "tensor"]:
                    add(sp, lead, inp, True, pat=1)
                add(sp, lead, "numpy", False, pat=1)
            add({"t": "box", "shape": [2, 1, 3], "dtype": dt, "low": lo, "high": hi}, [2], "numpy", True, pat=2)
            for lead in [[], [2], [2, 3]]:
                fields = [[0, sp], [1, leafs["d3"]], [2, leafs["v2"]]]
                for order in ([0, 1, 2], [2, 1, 0]):
                    cases.append({"kind": "prep", "space": {"t": "dict", "fields": fields}, "lead": lead, "input": "numpy",
                                  "normalize": True, "order": order, "pat": 1})
                cases.append({"kind": "prep", "space": {"t": "tuple", "members": [leafs["mb2"], sp]}, "lead": lead, "input": "numpy",
                              "normalize": True, "pat": 1})
            # the helper called directly: observation in the Box's own integer dtype, or as float32; numpy arrays and tensors
            for lead in [[], [2]]:
                for inp in ["numpy", "tensor"]:
                    for od in ["space", "float32"]:
                        cases.append({"kind": "norm", "space": sp, "lead": lead, "input": inp, "pat": 1, "obs_dtype": od})
        for algo in ["DQN", "PPO"]:                      # through a real agent's preprocess_observation
            for (dt, lo, hi) in wide[:2]:
                cases.append({"kind": "prep", "algo": algo, "space": {"t": "box", "shape": [2, 6, 6], "dtype": dt, "low": lo, "high": hi},
                              "lead": [2], "input": "numpy", "normalize": True, "pat": 1})
        # ---- round 4: non-uniform (per-channel / per-pixel) image bounds, in particular inside [0, 1] with max(high) == 1 and
        #      min(low) == 0: the "already normalised" shortcut must look at EVERY bound, not at the extremes
        def chan(shape, per_channel):
            hw = shape[1] * shape[2]
            return [x for x in per_channel for _ in range(hw)]
        nonuni = []
        for shape in ([2, 1, 2], [1, 2, 2]):
            C = shape[0]
            if C == 2:
                nonuni += [(shape, chan(shape, [0, 0.25]), chan(shape, [1, 0.75])),      # channel A [0,1], channel B [0.25,0.75]
                           (shape, chan(shape, [0, 0.5]), 1),                              # low: zeros and non-zeros, high all ones
                           (shape, 0, chan(shape, [1, 2])),                                # high: ones and twos, low all zeros
                           (shape, chan(shape, [0.25, 0]), chan(shape, [0.75, 1]))]        # same as the first, channels swapped
            else:
                nonuni += [(shape, [0, 0.25, 0.5, 0], [1, 0.75, 1, 0.5]),                  # per pixel, extremes exactly 0 and 1
                           (shape, [0, 0, 0.5, 0], 1), (shape, 0, [1, 1, 2, 1]),
                           (shape, [0, 0, 0, 0], [1, 1, 1, 1]),                            # explicit lists that ARE uniform [0,1]: shortcut applies
                           (shape, [-1, 0, 0, 0], [1, 2, 1, 1])]                           # other extremes
        for (shape, lo, hi) in nonuni:
            sp = {"t": "box", "shape": shape, "dtype": "float32", "low": lo, "high": hi}
            for lead in leads:
                for inp in (["numpy", "tensor"] if lead in ([], [2], [2, 3]) else ["numpy"]):
                    add(sp, lead, inp, True, pat=1)
            add(sp, [2], "numpy", False, pat=1)
            for lead in [[], [1], [2], [2, 3]]:
                for order in ([0, 1], [1, 0]):
                    cases.append({"kind": "prep", "space": {"t": "dict", "fields": [[0, sp], [1, leafs["d3"]]]}, "lead": lead,
                                  "input": "numpy" if order == [0, 1] else "tensordict", "normalize": True, "order": order, "pat": 1})
                cases.append({"kind": "prep", "space": {"t": "tuple", "members": [leafs["v2"], sp]}, "lead": lead, "input": "numpy",
                              "normalize": True, "pat": 1})
            for lead in [[], [2]]:
                for inp in ["numpy", "tensor"]:
                    cases.append({"kind": "norm", "space": sp, "lead": lead, "input": inp, "pat": 1})
        big = [2, 6, 6]
        for algo in ["DQN", "PPO", "DDPG"]:              # through a real agent (per-channel bounds of a 2-channel image)
            for (lo, hi) in [(chan(big, [0, 0.25]), chan(big, [1, 0.75])), (0, chan(big, [1, 2]))]:
                for lead in [[], [2]]:
                    cases.append({"kind": "prep", "algo": algo, "space": {"t": "box", "shape": big, "dtype": "float32", "low": lo, "high": hi},
                                  "lead": lead, "input": "numpy", "normalize": True, "pat": 1})
        # ---- round 5: every container family (plain / Dict member / Tuple member) x normalize_images in {True, False} x image bounds
        #      that are not [0,1] x all input forms: the flag must reach the members of a Tuple and of a Dict alike
        imgs5 = [{"t": "box", "shape": [1, 2, 2], "dtype": "uint8", "low": 0, "high": 255},
                 {"t": "box", "shape": [1, 2, 2], "dtype": "int8", "low": -128, "high": 127},
                 {"t": "box", "shape": [2, 1, 2], "dtype": "float32", "low": [0, 0, 0.25, 0.25], "high": [1, 1, 0.75, 0.75]},
                 {"t": "box", "shape": [1, 2, 2], "dtype": "float32", "low": -1, "high": 1}]
        for im in imgs5:
            for nz in (True, False):
                for lead in leads:
                    inps = ["numpy", "tensor"] if lead in ([], [2], [2, 3]) else ["numpy"]
                    for inp in inps:
                        cases.append({"kind": "prep", "space": {"t": "tuple", "members": [im, leafs["d3"]]}, "lead": lead, "input": inp,
                                      "normalize": nz, "pat": 2})
                    cases.append({"kind": "prep", "space": {"t": "tuple", "members": [leafs["v2"], im, leafs["mb2"]]}, "lead": lead,
                                  "input": "numpy", "normalize": nz, "pat": 2})
                    for (order, inp) in (([0, 1], "numpy"), ([1, 0], "tensordict")):
                        cases.append({"kind": "prep", "space": {"t": "dict", "fields": [[0, leafs["d3"]], [1, im]]}, "lead": lead,
                                      "input": inp, "normalize": nz, "order": order, "pat": 2})
            cases.append({"kind": "prep", "space": {"t": "tuple", "members": [im, leafs["d3"]]}, "lead": [2], "input": "numpy",
                          "normalize": True, "nz_default": True, "pat": 2})
        # MultiBinary with several dimensions (pinned behaviour: batched as a rank-1 space; known finding)
        for dims in ([[2, 3], [1, 2]] + ([[2, 2, 2], [3, 1]] if thorough else [])):
            for lead in [[], [1], [2], [2, 3]]:
                cases.append({"kind": "prep_mbnd", "dims": dims, "lead": lead, "input": "numpy"})
        cases += ag_level.generate(tier, rng)
        return cases

    # ---------- implementation
    def run_impl(self, case):
        if case["kind"] in ag_level.KINDS:
            return ag_level.run_impl(case)
        if case["kind"] in ("prep_mis", "addbatch", "norm"):
            return _run_small(case)
        if case["kind"] == "prep_mbnd":
            from gymnasium import spaces as gsp
            try:
                return {"ok": tensor_out(case, preprocess_observation(_mbnd_obs(case), gsp.MultiBinary(case["dims"])))}
            except Exception as e:
                return {"err": type(e).__name__, "msg": str(e)[:200]}
        space = build_space(case["space"])
        arrays = make_obs_arrays(case)                       # numpy arrays (leaf / per member), with their row structure
        obs = to_input(case, arrays)
        if case["kind"] == "vect":
            try:
                return {"ok": int(get_vect_dim(obs, space))}
            except Exception as e:
                return {"err": type(e).__name__, "msg": str(e)[:200]}
        nz = case["normalize"]
        prep = _prep_callable(case, space)
        try:
            out = prep(obs)
            res = {"ok": tensor_out(case, out)}
        except Exception as e:
            res = {"err": type(e).__name__, "msg": str(e)[:200]}
        # per-element runs: every row of the batch prepared on its own (unbatched observation)
        lead = case["lead"]
        if "ok" in res and len(lead) >= 1 and not case.get("bad") and len(lead) <= 2:
            B = int(np.prod(lead))
            mism, single_err = [], None
            for i in range(B):
                one = to_input(case, arrays, row=i)
                try:
                    o1 = tensor_out(case, prep(one))
                except Exception as e:
                    single_err = f"{type(e).__name__}: {e}"[:200]
                    break
                if not _row_equal(res["ok"], o1, i):
                    mism.append(i)
            res["rowwise_mismatch"] = mism
            res["single_err"] = single_err
        return res

    # ---------- model term
    def coq_term(self, case, obs):
        if case["kind"] in ag_level.KINDS:
            return ag_level.coq_term(case, obs)
        if case["kind"] in ("prep_mis", "addbatch", "norm"):
            return _term_small(case, obs)
        if case["kind"] == "prep_mbnd":
            a = _mbnd_obs(case)
            seen = f"(Some {coq_tq(obs['ok']['shape'], obs['ok']['data'])})" if "ok" in obs else "None"
            return f"check_mbnd {_nats(case['dims'])} {coq_tq(list(a.shape), a.reshape(-1).tolist())} {seen}"
        arrays = make_obs_arrays(case)
        sp = coq_space(case["space"])
        o = coq_obs(case, arrays)
        if case["kind"] == "vect":
            if case["input"] == "number" and "err" in obs:
                return None          # `.shape` of a Python number: not a tensor-level behaviour, reported by the oracle only
            seen = f"(Some {obs['ok']})" if "ok" in obs else "None"
            return f"check_vect true {sp} {o} {seen}"
        # the MultiDiscrete (step, env) defect: pinned semantics when the tree raises, repaired semantics otherwise
        mdf = "true"                     # MultiDiscrete is batched with the space's own shape since fff6764
        tol = TOL_NORM if uses_inexact_norm(case) else "0"
        seen = f"(Some {coq_pobs(case, obs['ok'])})" if "ok" in obs else "None"
        # rank-0 Box: the tree (since 69cb5f0) gives scalar Box observations an explicit feature axis, (B, 1)
        r0 = "true"
        return f"check_prep_r {r0} {mdf} {'true' if case['normalize'] else 'false'} {tol} {sp} {o} {seen}"

    # ---------- oracle: the property stated directly on the implementation's behaviour
    def oracle(self, case, obs):
        if case["kind"] in ag_level.KINDS:
            return ag_level.oracle(case, obs)
        out = []
        lead = case.get("lead", [])
        if case["kind"] == "prep_mis":
            return out                                       # K only
        if case["kind"] == "addbatch":
            shape, ss = case["shape"], case["sshape"]
            k = len(shape) - len(ss)
            if 0 <= k <= 2 and shape[k:] == ss:              # lead ++ space shape with at most two leading dimensions
                want = [int(np.prod(shape[:k])) if k else 1] + ss
                n = int(np.prod(shape)) if shape else 1
                data = (np.arange(n, dtype=np.float32) - 3).tolist()
                if "err" in obs or obs["ok"]["shape"] != want or obs["ok"]["data"] != data or not obs.get("type_kept", True):
                    out.append(Violation("batch-dim", f"addbatch:{case['input']}",
                                         f"maybe_add_batch_dim({case['input']} of shape {shape}, {ss}) -> {obs.get('ok', obs)}; expected shape {want}, data and array type unchanged"[:400]))
            return out
        if case["kind"] == "norm":
            sp = case["space"]
            arr = leaf_array(sp, lead, case["pat"])
            arr = (arr.astype(np.float32) if case.get("obs_dtype", "float32") == "float32" else arr).astype(np.float64)
            lo, hi = box_bounds(sp)
            want = arr
            if not (np.isinf(hi).any() or np.isinf(lo).any()) and not (np.all(hi == 1) and np.all(lo == 0)):
                want = (arr - lo) / (hi - lo)
            got = np.asarray(obs["ok"]["data"]).reshape(obs["ok"]["shape"]) if "ok" in obs else None
            if got is None or got.shape != want.shape or not np.allclose(got, want, rtol=1e-6, atol=1e-7):
                sig = "norm:direct"
                if sp["dtype"] in ("int8", "int16", "int32"):
                    sig = f"norm:direct:{case['input']}:{'int' if case.get('obs_dtype') == 'space' else 'float'}-obs:range-in-space-dtype"
                out.append(Violation("norm", sig, f"apply_image_normalization({case['input']}, observation dtype {case.get('obs_dtype', 'float32')}) wrong for "
                                                  f"{sp['dtype']} bounds {sp['low']}..{sp['high']}: got {str(obs)[:200]}, expected first values {want.reshape(-1)[:4].tolist()}"[:500]))
            return out
        if case["kind"] == "prep_mbnd":
            B = int(np.prod(lead)) if lead else 1
            want = [B] + case["dims"]
            if "err" in obs:
                out.append(Violation("prep-total", "prep:mb-nd:raises", f"preprocess_observation raised {obs['err']}: {obs['msg']} for a "
                                     f"MultiBinary({case['dims']}) observation with leading dims {lead}"))
            elif obs["ok"]["shape"] != want and obs["ok"]["shape"] != [B, int(np.prod(case["dims"]))]:
                out.append(Violation("prep-shape", "prep:mb-nd:shape", f"MultiBinary({case['dims']}) observation with leading dims {lead}: "
                                     f"prepared shape {obs['ok']['shape']}, expected {want} (or flattened)"))
            return out
        kind = case["space"]["t"]
        if case.get("bad") or len(lead) > 2 or (case.get("trail") and len(lead) == 2):
            return out                                       # outside the property's inputs ((T,E,1) columns, bad ranks/classes): K only
        if case["kind"] == "vect":
            if len(lead) <= 1:
                want = lead[0] if lead else 1
                if "err" in obs:
                    out.append(Violation("vect-dim", f"vect:{_vect_kind(case)}:{'number-' if case['input'] == 'number' else ''}raises",
                                         f"get_vect_dim raised {obs['err']}: {obs.get('msg')} for lead {lead}"))
                elif obs["ok"] != want:
                    out.append(Violation("vect-dim", f"vect:{_vect_kind(case)}:wrong", f"get_vect_dim = {obs['ok']}, expected {want}"))
            return out
        site = kind if kind not in ("dict", "tuple") else kind
        if "err" in obs:
            sig = f"prep:{site}:raises"
            if is_md_rank3(case) or (kind in ("dict", "tuple") and _has_md(case) and len(lead) == 2):
                sig = "prep:multidiscrete:step-env-raises"
            out.append(Violation("prep-total", sig, f"preprocess_observation raised {obs['err']}: {obs.get('msg')} on a supported input "
                                                    f"(lead {lead}, space {case['space']})"))
            return out
        B = int(np.prod(lead)) if lead else 1
        arrays = make_obs_arrays(case)
        members = _members(case, obs["ok"])
        for name, leafspec, arr, got in members:
            want_shape = [B] + net_input_shape(leafspec)
            if leafspec["t"] == "box" and leafspec["shape"] == []:
                want_shape = [B, 1]                          # a scalar Box is one input feature of the encoder
            if got["shape"] != want_shape:
                out.append(Violation("prep-shape", f"prep:{site}:shape", f"member {name}: shape {got['shape']}, expected {want_shape} (lead {lead})"))
                continue
            if got["dtype"] != "torch.float32":
                out.append(Violation("prep-dtype", f"prep:{site}:dtype", f"member {name}: dtype {got['dtype']}"))
            want = ref_rows(leafspec, arr, B, case["normalize"])       # independent NumPy reference, float64
            g = np.asarray(got["data"], dtype=np.float64).reshape(B, -1)
            if not np.allclose(g, want.reshape(B, -1), rtol=1e-6, atol=1e-7):
                bad = int(np.argmax(np.abs(g - want.reshape(B, -1)).max(axis=1) > 1e-6))
                out.append(Violation("prep-values", f"prep:{site}:values",
                                     f"member {name}: row {bad} = {g[bad].tolist()}, expected {want.reshape(B, -1)[bad].tolist()}"))
        if obs.get("single_err"):
            out.append(Violation("prep-rowwise", f"prep:{site}:single-raises", f"a single row raised {obs['single_err']}"))
        elif obs.get("rowwise_mismatch"):
            out.append(Violation("prep-rowwise", f"prep:{site}:rowwise", f"rows {obs['rowwise_mismatch']} of the prepared batch differ from the same observation prepared on its own"))
        return out

    def key(self, case):
        return super().key(case)

    def nontrivial(self, case, obs):
        if case["kind"] in ag_level.KINDS:
            return ag_level.nontrivial(case, obs)
        if case["kind"] in ("prep_mbnd", "prep_mis", "norm"):
            return len(case["lead"]) >= 1
        if case["kind"] == "addbatch":
            return len(case["shape"]) > len(case["sshape"])
        return len(case["lead"]) >= 1

    def classify(self, case, obs):
        if case["kind"] in ag_level.KINDS:
            return ag_level.classify(case, obs)
        if case["kind"] in ("prep_mis", "addbatch", "norm"):
            return [f"kind={case['kind']}", "result=" + ("ok" if "ok" in obs else "raises")] + \
                   ([f"mismatch={case['mis']}"] if "mis" in case else []) + ([f"input={case['input']}"] if "input" in case else [])
        lead = case["lead"]
        if case["kind"] == "prep_mbnd":
            return ["kind=prep_mbnd", "space=mb-nd", "result=" + ("ok" if "ok" in obs else "raises")]
        lk = {0: "unbatched", 1: "batch-of-one" if lead == [1] else "batch", 2: "step-env", 3: "malformed-rank"}[len(lead)]
        if len(lead) == 2 and 1 in lead:
            lk = "step-env-with-1"
        labs = [f"kind={case['kind']}", f"space={case['space']['t']}", f"lead={lk}", f"input={case['input']}",
                "result=" + ("ok" if "ok" in obs else "raises"), "entry=" + case.get("algo", "module-function")]
        if case["space"]["t"] == "box":
            labs.append(f"box-rank={len(case['space']['shape'])}")
            if len(case["space"]["shape"]) == 3 and case["kind"] == "prep":
                labs.append("norm=" + (_norm_branch(case)))
        if case["space"]["t"] == "discrete":
            labs.append("discrete-n=" + ("1" if case["space"]["n"] == 1 else ">1"))
        if case.get("trail"):
            labs.append("trailing-singleton")
        if case.get("bad"):
            labs.append("bad=" + case["bad"])
        return labs

    def neighbours(self, case, rng):
        if case["kind"] in ag_level.KINDS or case["kind"] in ("prep_mbnd", "prep_mis", "addbatch", "norm"):
            return
        for lead in ([], [1], [2], [2, 3]):
            if lead != case["lead"]:
                c = dict(case); c["lead"] = lead
                yield c


def _prep_callable(case, space):
    """the entry point under test: the module-level function, or agent.preprocess_observation of a real agent"""
    nz = case["normalize"]
    if "algo" not in case:
        if case.get("nz_default"):
            return lambda o: preprocess_observation(o, space)             # default argument
        return lambda o: preprocess_observation(o, space, normalize_images=nz)
    nzarg = None if case.get("nz_default") else nz
    if "names" in case:                                    # multi-agent: the dict keys are the agent ids
        names = case["names"]
        spec = [f[1] for f in case["space"]["fields"]] if case.get("hetero") else case["space"]["fields"][0][1]
        agent = ag_level.get_agent(case["algo"], spec, names, nzarg, case.get("variant"))

        def call(o):
            out = agent.preprocess_observation({names[int(k[1:])]: v for k, v in o.items()})
            return {f"k{names.index(n)}": v for n, v in out.items()}
        return call
    return ag_level.get_agent(case["algo"], case["space"], None, nzarg, case.get("variant")).preprocess_observation


D3 = {"t": "discrete", "n": 3}
V2 = {"t": "box", "shape": [2], "dtype": "float32", "low": -1, "high": 1}


def _mis_setup(case):
    """-> (gym space, python observation, Coq space term, Coq obs term) for a structural mismatch"""
    from gymnasium import spaces as gsp
    lead, mis = case["lead"], case["mis"]
    a0, a1 = leaf_array(D3, lead, 1), leaf_array(V2, lead, 2)
    tq0, tq1 = coq_tq(list(a0.shape), a0.reshape(-1).tolist()), coq_tq(list(a1.shape), a1.reshape(-1).tolist())
    dsp, dsp_c = gsp.Dict({"k0": gsp.Discrete(3), "k1": gsp.Box(-1, 1, (2,))}), "(DictS [(0, Discrete 3); (1, Box [2] true [] [])])"
    tsp, tsp_c = gsp.Tuple((gsp.Discrete(3), gsp.Box(-1, 1, (2,)))), "(TupleS [Discrete 3; Box [2] true [] []])"
    if mis == "leaf-for-dict":
        return dsp, a0, dsp_c, f"(OLeaf {tq0})"
    if mis == "dict-for-leaf":
        return gsp.Discrete(3), {"k0": a0}, "(Leaf (Discrete 3))", f"(ODict [(0, {tq0})])"
    if mis == "leaf-for-tuple":
        return tsp, a0, tsp_c, f"(OLeaf {tq0})"
    if mis == "extra-key":
        return dsp, {"k0": a0, "k7": a1}, dsp_c, f"(ODict [(0, {tq0}); (7, {tq1})])"
    if mis == "subset-keys":
        return dsp, {"k1": a1}, dsp_c, f"(ODict [(1, {tq1})])"
    if mis == "tuple-short":
        return tsp, (a0,), tsp_c, f"(OTuple [{tq0}])"
    if mis == "tuple-long":
        return tsp, (a0, a1, a1), tsp_c, f"(OTuple [{tq0}; {tq1}; {tq1}])"
    raise ValueError(mis)


def _run_small(case):
    from agilerl.utils.algo_utils import maybe_add_batch_dim, apply_image_normalization
    from c15_common import tensor1
    try:
        if case["kind"] == "prep_mis":
            space, o, _, _ = _mis_setup(case)
            out = preprocess_observation(o, space)
            if isinstance(out, dict):
                return {"ok": {"items": [[int(str(k)[1:]), tensor1(v)] for k, v in out.items()]}}
            if isinstance(out, tuple):
                return {"ok": {"items": [tensor1(v) for v in out]}}
            return {"ok": tensor1(out)}
        if case["kind"] == "addbatch":
            n = int(np.prod(case["shape"])) if case["shape"] else 1
            a = (np.arange(n, dtype=np.float32) - 3).reshape(case["shape"])
            x = a if case["input"] == "numpy" else torch.from_numpy(a)
            out = maybe_add_batch_dim(x, tuple(case["sshape"]))
            return {"ok": tensor1(torch.as_tensor(out)), "type_kept": isinstance(out, type(x))}
        if case["kind"] == "norm":
            space = build_space(case["space"])
            a = leaf_array(case["space"], case["lead"], case["pat"])
            if case.get("obs_dtype", "float32") == "float32":
                a = a.astype(np.float32)
            x = a if case["input"] == "numpy" else torch.from_numpy(a)
            out = apply_image_normalization(x, space)
            return {"ok": tensor1(torch.as_tensor(np.asarray(out, dtype=np.float64) if isinstance(out, np.ndarray) else out))}
    except Exception as e:
        return {"err": type(e).__name__, "msg": str(e)[:200]}


def _term_small(case, obs):
    if case["kind"] == "prep_mis":
        _, _, spc, oc = _mis_setup(case)
        if "err" in obs:
            seen = "None"
        elif "items" in obs["ok"] and obs["ok"]["items"] and isinstance(obs["ok"]["items"][0], list):
            seen = "(Some (PDict [" + "; ".join(f"({k}, {coq_tq(v['shape'], v['data'])})" for k, v in obs["ok"]["items"]) + "]))"
        elif "items" in obs["ok"]:
            seen = "(Some (PTuple [" + "; ".join(coq_tq(v["shape"], v["data"]) for v in obs["ok"]["items"]) + "]))"
        else:
            seen = f"(Some (PLeaf {coq_tq(obs['ok']['shape'], obs['ok']['data'])}))"
        return f"check_prep_r false true true 0 {spc} {oc} {seen}"
    if case["kind"] == "addbatch":
        n = int(np.prod(case["shape"])) if case["shape"] else 1
        data = (np.arange(n, dtype=np.float32) - 3).tolist()
        seen = f"(Some {coq_tq(obs['ok']['shape'], obs['ok']['data'])})" if "ok" in obs else "None"
        return f"check_addbatch {coq_tq(case['shape'], data)} {_nats(case['sshape'])} {seen}"
    if case["kind"] == "norm":
        if "err" in obs:
            return "false"
        sp = case["space"]
        a = leaf_array(sp, case["lead"], case["pat"])
        if case.get("obs_dtype", "float32") == "float32":
            a = a.astype(np.float32)
        lo, hi = box_bounds(sp)
        bounded = not (np.isinf(hi).any() or np.isinf(lo).any())
        los = "[" + "; ".join(coq_Q(x) for x in lo.reshape(-1)) + "]" if bounded else "[]"
        his = "[" + "; ".join(coq_Q(x) for x in hi.reshape(-1)) + "]" if bounded else "[]"
        tol = TOL_NORM if uses_inexact_norm({"space": sp, "normalize": True}) or case["input"] == "numpy" else "0"
        return (f"check_norm {tol} {'true' if bounded else 'false'} {los} {his} {coq_tq(list(a.shape), a.reshape(-1).tolist())} "
                f"{coq_tq(obs['ok']['shape'], obs['ok']['data'])}")


def self_oracle_fails(case, obs):
    return bool(C15().oracle(case, obs))


def _nats(l):
    return "[" + "; ".join(str(int(x)) for x in l) + "]"


def _mbnd_obs(case):
    shape = tuple(case["lead"]) + tuple(case["dims"])
    i = np.arange(int(np.prod(shape)), dtype=np.int64)
    return ((i + i // 3) % 2).astype(np.int8).reshape(shape)


def _rank0_has_feature_axis(case, okobs):
    for name, leaf, arr, got in _members(case, okobs):
        if leaf["t"] == "box" and leaf["shape"] == []:
            return len(got["shape"]) == 2
    return False


def _vect_kind(case):
    t = case["space"]["t"]
    if t == "dict":
        first = case["order"][0]
        return "dict-first-" + case["space"]["fields"][first][1]["t"]
    if t == "tuple":
        return "tuple-first-" + case["space"]["members"][0]["t"]
    return t


def _has_md(case):
    sp = case["space"]
    ls = [f[1] for f in sp["fields"]] if sp["t"] == "dict" else sp["members"]
    return any(l["t"] == "md" for l in ls)


def _norm_branch(case):
    sp = case["space"]
    if not case["normalize"]:
        return "off"
    if isinstance(sp["low"], list) or isinstance(sp["high"], list):
        lo, hi = box_bounds(sp)
        if np.all(hi == 1) and np.all(lo == 0):
            return "already-unit-skip"
        ext = float(hi.max()) == 1 and float(lo.min()) == 0
        return "scaled-nonuniform" + ("-extremes-0-1" if ext else "")
    if sp["low"] == "-inf" or sp["high"] == "inf":
        return "unbounded-skip"
    if sp["low"] == 0 and sp["high"] == 1:
        return "already-unit-skip"
    return "scaled"


def _members(case, okobs):
    """-> list of (name, leafspec, numpy input array, observed tensor)"""
    sp = case["space"]
    arrays = make_obs_arrays(case)
    if sp["t"] == "dict":
        got = {k: v for k, v in okobs["items"]}
        return [(f"key{k}", leaf, arrays[k], got[k]) for k, leaf in sp["fields"] if k in got]
    if sp["t"] == "tuple":
        return [(f"member{i}", leaf, arrays[i], okobs["items"][i]) for i, leaf in enumerate(sp["members"])]
    return [("", sp, arrays, okobs)]


def _row_equal(batch_out, single_out, i):
    def rows(t):
        b = t["shape"][0] if t["shape"] else 1
        return np.asarray(t["data"], dtype=np.float64).reshape(b, -1)

    def one(bt, st):
        if st["shape"][:1] != [1] or st["shape"][1:] != bt["shape"][1:]:
            return False
        return bool(np.array_equal(rows(bt)[i], rows(st)[0]))
    if "items" in batch_out:
        if isinstance(batch_out["items"][0], list):
            s = dict(single_out["items"])
            return all(one(v, s[k]) for k, v in batch_out["items"])
        return all(one(a, b) for a, b in zip(batch_out["items"], single_out["items"]))
    return one(batch_out, single_out)


if __name__ == "__main__":
    sys.exit(vlib.run_check(C15()))
