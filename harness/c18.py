"""C18 — Rainbow's distributional target conserves probability mass and expected value; priorities are the cross-entropy."""
from __future__ import annotations

import math
import os
import random as pyrandom
import sys
from fractions import Fraction

import numpy as np
import torch
from gymnasium import spaces
from tensordict import TensorDict

import vlib
from vlib import Violation, coq_Q

from agilerl.algorithms.dqn_rainbow import RainbowDQN
from agilerl.components.data import Transition
from agilerl.components.replay_buffer import MultiStepReplayBuffer, PrioritizedReplayBuffer
from agilerl.hpo.mutation import Mutations
from agilerl.algorithms.core.registry import HyperparameterConfig, RLParameter

OBS_DIM = 3

# (num_atoms, v_min, v_max); the non-dyadic ones are those for which float32 b(v_max) can exceed N-1 (DESIGN §9 R12)
DYADIC = [(2, 0.0, 1.0), (3, 0.0, 1.0), (5, 0.0, 4.0), (5, -2.0, 2.0), (11, 0.0, 10.0), (11, -5.0, 5.0),
          (51, 0.0, 200.0), (51, -10.0, 10.0), (3, -1.0, 0.0)]
NONDYADIC = [(51, 0.0, 13.1), (21, 0.0, 0.3), (51, -100.0, -99.7), (11, -1.3, 2.9), (3, 0.1, 0.7), (5, 0.0, 0.7),
             (21, 0.0, 13.1), (11, 0.0, 0.3), (2, -0.3, 0.6), (51, 0, 10)]
# large magnitudes, all-negative and narrow-at-large-offset ranges; num_atoms at the constructor edge that still works (2)
LARGE = [(11, -1000.0, 1000.0), (5, 1000.0, 1001.0), (21, -20000.0, -100.0), (2, -1.0e6, 1.0e6), (3, 0.0, 1.0e5)]
PREPS = ["fresh", "learned", "clone", "mutated", "mutated_param", "reloaded", "chain", "failed_learn", "learned_twice", "after_other_agent",
         # hyperparameters changed on the live agent after construction (round 5)
         "gamma_assigned", "gamma_mutated", "nstep_assigned"]
# dtypes of reward / done / action columns that learn() accepts (float64 and bool columns raise loudly: the buffers cast to float32)
R_DT = ["float32", "int64", "int32"]
D_DT = ["float32", "int64", "uint8"]
A_DT = ["int64", "float32", "int32"]
OBS_KINDS = ["vector", "image", "dict"]
GAMMAS = [0.99, 0.5, 1.0, 0.9, 0.25]
CLASSES = ["inside", "on_atom", "above", "below", "at_vmax", "at_vmin", "far_above", "far_below", "on_atom_shift", "inside"]


def f32(x) -> float:
    return float(np.float32(x))


def make_reward(rng, cls, N, vmin, vmax, gamma_eff):
    """-> (reward (float32-representable python float), done flag)"""
    rg = vmax - vmin
    dz = rg / (N - 1)
    d = rng.choice([0, 1])
    if cls == "inside":
        r = rng.uniform(vmin, vmax) if d else rng.uniform(vmin - gamma_eff * max(vmax, 0), vmax - gamma_eff * min(vmin, 0))
    elif cls == "on_atom":
        d = 1
        r = vmin + rng.randrange(N) * dz
    elif cls == "on_atom_shift":          # not done: r + gamma * z_j lands on atoms when gamma = 1 and r is a multiple of delta_z
        d = 0
        r = rng.randint(-(N - 1), N - 1) * dz
    elif cls == "above":
        r = vmax + rng.uniform(0, rg) + (0 if d else gamma_eff * abs(vmin))
    elif cls == "below":
        r = vmin - rng.uniform(0, 2 * rg) - (0 if d else gamma_eff * abs(vmax))
    elif cls == "at_vmax":
        d, r = 1, vmax
    elif cls == "at_vmin":
        d, r = 1, vmin
    elif cls == "far_above":
        r = 1.0e4
    elif cls == "far_below":
        r = -1.0e4
    else:
        raise ValueError(cls)
    return f32(r), d


class C18(vlib.Driver):
    pid = "C18"
    preamble = "From Coq Require Import ZArith QArith.\nFrom AgileV Require Import C18.Model C18.Check.\nOpen Scope Q_scope."
    rule = ("cases = (num_atoms, v_min, v_max, gamma, n_step, target mode, batch, per-row reward class and done flag) on real "
            "RainbowDQN agents with random tiny noisy networks; key = (N, range, gamma, n_step, mode, B, reward classes, done flags, importance weights and their shape). "
            "Non-trivial = at least one row whose target does not map onto a single interior atom (not done with gamma > 0, "
            "or reward outside / at an end of the support).")
    trusted_base = ["hand-written model coq/theories/C18/Model.v and comparison functions C18/Check.v (float32-vs-exact tolerances computed in Q)",
                    "correspondence harness harness/c18.py (float32 -> exact Q conversion; projection read off _dqn_loss with a one-hot "
                    "log-distribution stub installed as actor.forward)"]
    assumptions = ["batches have exactly agent.batch_size rows (precondition of _dqn_loss: range(self.batch_size))",
                   "num_atoms >= 2 and v_min < v_max (guards of the theorems)",
                   "float32 arithmetic of the implementation vs exact Q of the model: compared up to delta_b = 2^-19 (Mag/delta_z + N) on the fractional index",
                   "torch.index_add_ accumulates every (index, value) pair and raises on an out-of-range index (modelled)",
                   "softmax / log_softmax / network forward are opaque: their float32 outputs are inputs of the model",
                   "importance weights are not an input of the model: learn_priorities is weight-independent (that is the property); "
                   "learn(per=True) is driven with non-uniform weights of shape (B,1) and (B,) in ~70 % of the cases"]
    shard = 12

    # ---------------------------------------------------------------- generation
    def one_case(self, rng, cfg, B=None, mode=None, classes=None, gamma=None, nstep=None, A=None, prep=None,
                 source=None, obs_kind=None, dtypes=None, peaked=None):
        N, vmin, vmax = cfg
        B = B or (rng.randint(1, 3) if N > 21 else rng.randint(1, 8) if N <= 5 else rng.randint(1, 5))
        A = A or rng.choice([2, 3] if N <= 21 else [2])
        gamma = gamma if gamma is not None else rng.choice(GAMMAS)
        nstep = nstep or rng.choice([1, 2, 3])
        mode = mode or rng.choice(["one", "nstep", "combined"])
        rows1, rowsn = [], []
        for part, rows, g in (("1", rows1, gamma), ("n", rowsn, gamma ** nstep)):
            for k in range(B):
                cls = classes[k % len(classes)] if classes else rng.choice(CLASSES)
                if cls == "on_atom_shift" and gamma != 1.0:
                    cls = "on_atom"
                r, d = make_reward(rng, cls, N, float(vmin), float(vmax), g)
                rows.append({"r": r, "d": d, "a": rng.randrange(A), "cls": cls})
        # importance weights as PrioritizedReplayBuffer.sample delivers them: dyadic values in (0, 1], a (B,1) column
        # (or flat (B,)); about 30 % of the cases keep the all-ones weights of a freshly filled buffer
        if rng.random() < 0.3:
            weights = [1.0] * B
        else:
            weights = [rng.choice([1.0, 0.5, 0.25, 0.75, 0.125, 0.375, 0.0625]) for _ in range(B)]
            if all(w == 1.0 for w in weights):
                weights[rng.randrange(B)] = 0.5
        return {"N": N, "vmin": vmin, "vmax": vmax, "B": B, "A": A, "gamma": gamma, "nstep": nstep, "mode": mode,
                "prior_eps": rng.choice([1e-6, 1e-6, 0.01]), "partial": rng.random() < 0.5,
                "net_seed": rng.randrange(10 ** 6), "rows1": rows1, "rowsn": rowsn,
                "weights": weights, "wshape": rng.choice(["col", "col", "flat"]),
                # state of the agent when it is observed, how the batches reach learn(), kind of observation space
                "prep": prep or rng.choice(["fresh", "fresh", "fresh"] + PREPS),
                "source": source or ("buffer" if rng.random() < 0.2 else "direct"),
                "obs_kind": obs_kind or (rng.choice(["image", "dict"]) if (N <= 11 and rng.random() < 0.15) else "vector"),
                "stream_seed": rng.randrange(10 ** 6),
                "dtypes": dtypes or (["float32", "float32", "int64"] if rng.random() < 0.7
                                     else [rng.choice(R_DT), rng.choice(D_DT), rng.choice(A_DT)]),
                # peaked return distributions: many atoms below the 1e-3 clamp of the head
                "peaked": (rng.random() < 0.25) if peaked is None else peaked}

    @staticmethod
    def fix_int_rewards(case):
        if case["dtypes"][0] != "float32" and case.get("source", "direct") == "direct":
            for r in case["rows1"] + case["rowsn"]:
                r["r"] = float(round(max(-2.0e9, min(2.0e9, r["r"]))))
        return case

    def generate(self, tier, rng):
        return [self.fix_int_rewards(c) for c in self.generate_raw(tier, rng)]

    def generate_raw(self, tier, rng):
        cases = []
        # boundary-complete stream: every range x every reward class at the last row and at the first row
        for cfg in DYADIC + NONDYADIC:
            N = cfg[0]
            if tier == "quick" and N > 21 and cfg not in ((51, 0.0, 13.1), (51, 0.0, 200.0), (51, -100.0, -99.7)):
                continue
            for cls in ["on_atom", "above", "below", "at_vmax", "at_vmin", "inside"]:
                if tier == "quick" and N > 21 and cls in ("inside", "below"):
                    continue
                if tier == "quick" and cls == "inside" and cfg in NONDYADIC:      # B = 2 rows already carry an "inside" first row
                    continue
                B = 2 if N <= 21 else 1
                cases.append(self.one_case(rng, cfg, B=B, classes=["inside", cls] if B == 2 else [cls],
                                           mode=rng.choice(["one", "nstep", "combined"])))
        # gamma = 1 on dyadic supports: every atom of a not-done row lands exactly on an atom
        for cfg in DYADIC[:6]:
            cases.append(self.one_case(rng, cfg, gamma=1.0, classes=["on_atom_shift"], mode="combined"))
        # gamma = 0 (the bootstrap term vanishes for every row), 1-step / n-step / combined
        for cfg, mode in (((5, 0.0, 4.0), "one"), ((11, -5.0, 5.0), "nstep"), ((3, 0.1, 0.7), "combined"), ((2, 0.0, 1.0), "combined")):
            cases.append(self.one_case(rng, cfg, gamma=0.0, mode=mode, classes=["inside", "above", "on_atom"]))
        # large-magnitude / all-negative / narrow-at-offset ranges, N = 2
        for cfg in LARGE:
            for cls in (["inside", "at_vmax"], ["above", "at_vmin"]):
                cases.append(self.one_case(rng, cfg, B=2, classes=cls))
        # every agent state x every observation kind x both batch sources at least once, all three modes
        k = 0
        for prep in PREPS:
            for obs_kind in OBS_KINDS:
                source = ["direct", "buffer"][k % 2]
                mode = ["one", "nstep", "combined"][k % 3]
                k += 1
                cases.append(self.one_case(rng, rng.choice([(5, 0.0, 4.0), (3, 0.0, 1.0), (11, 0.0, 0.3), (5, -2.0, 2.0)]),
                                           prep=prep, obs_kind=obs_kind, source=source, mode=mode))
        for prep in ("fresh", "learned", "clone", "mutated"):       # the other source for the vector kind
            cases.append(self.one_case(rng, (5, 0.0, 0.7), prep=prep, obs_kind="vector", source="buffer", mode="combined"))
        # every accepted (reward dtype, done dtype) pair, action dtypes cycling; integer rewards on a non-integer support
        k = 0
        for rdt in R_DT:
            for ddt in D_DT:
                cfg = [(5, 0.0, 4.0), (5, 0.0, 0.7), (11, -1.3, 2.9)][k % 3]
                cases.append(self.one_case(rng, cfg, B=2, dtypes=[rdt, ddt, A_DT[k % 3]], mode=["one", "nstep", "combined"][k % 3],
                                           classes=["inside", "on_atom", "above"], gamma=[0.5, 0.99, 1.0][k % 3]))
                k += 1
        # peaked distributions (clamp at 1e-3 active on most atoms), every mode, N up to 51
        for cfg, mode in (((51, 0.0, 200.0), "one"), ((11, -5.0, 5.0), "nstep"), ((21, 0.0, 13.1), "combined"), ((5, 0.0, 4.0), "combined")):
            cases.append(self.one_case(rng, cfg, peaked=True, mode=mode, prep="fresh"))
            cases.append(self.one_case(rng, cfg, peaked=True, mode=mode, prep="learned_twice"))
        # hyperparameters changed on the live agent: every state x {n-step, combined, 1-step} x both sources
        k = 0
        for prep in ("gamma_assigned", "gamma_mutated", "nstep_assigned"):
            for mode in ("nstep", "combined", "one"):
                cases.append(self.one_case(rng, [(5, 0.0, 4.0), (11, -5.0, 5.0), (3, 0.1, 0.7)][k % 3], prep=prep, mode=mode,
                                           source=["direct", "buffer"][k % 2], nstep=[3, 2, 3][k % 3], gamma=[0.5, 0.99, 0.9][k % 3],
                                           classes=["inside", "on_atom", "above"]))
                k += 1
        for prep in ("failed_learn", "learned_twice", "after_other_agent"):
            for source in ("direct", "buffer"):
                cases.append(self.one_case(rng, (5, -2.0, 2.0), prep=prep, source=source, mode="combined"))
        nseed = 12 if tier == "quick" else 250
        for i in range(nseed):
            cfg = rng.choice(DYADIC + NONDYADIC)
            if tier == "quick" and cfg[0] > 21 and rng.random() < 0.6:
                cfg = rng.choice([c for c in DYADIC + NONDYADIC if c[0] <= 21])
            cases.append(self.one_case(rng, cfg))
        return cases

    # ---------------------------------------------------------------- implementation
    @staticmethod
    def case_weights(case):
        return list(case.get("weights") or [1.0] * case["B"])

    @staticmethod
    def other_weights(ws):
        """a different weight vector for the weight-independence clause"""
        if any(w != 1.0 for w in ws):
            return [1.0] * len(ws)
        return [0.5 / (1 + (k % 3)) for k in range(len(ws))]

    @staticmethod
    def obs_space_of(kind):
        if kind == "image":
            return spaces.Box(0, 255, (3, 16, 16), dtype=np.uint8)
        if kind == "dict":
            return spaces.Dict({"a": spaces.Box(-1, 1, (OBS_DIM,), dtype=np.float32), "b": spaces.Discrete(4)})
        return spaces.Box(-1, 1, (OBS_DIM,), dtype=np.float32)

    @staticmethod
    def sample_obs(kind, n):
        """n observations as tensors (what a replay buffer holds)"""
        if kind == "image":
            return torch.randint(0, 256, (n, 3, 16, 16), dtype=torch.uint8)
        if kind == "dict":
            return {"a": torch.randn(n, OBS_DIM), "b": torch.randint(0, 4, (n,))}
        return torch.randn(n, OBS_DIM)

    def prepare(self, ag, case, kind, warm):
        """bring the agent into the state in which it is observed (never only 'freshly built')"""
        prep = case.get("prep", "fresh")
        seed = case["net_seed"] % 1000

        def learned(a):
            a.learn(warm[0].clone(), n_experiences=(warm[1].clone() if case["mode"] != "one" else None), per=True)
            return a

        def mutated(a, arch):
            m = Mutations(no_mutation=0, architecture=1 if arch else 0, new_layer_prob=0.3, parameters=0 if arch else 1,
                          activation=0, rl_hp=0, rand_seed=seed)
            return m.mutation([a])[0]

        def reloaded(a):
            d = vlib.BUILD / (self.pid + vlib.ALT_TAG)
            d.mkdir(parents=True, exist_ok=True)
            path = d / f"ckpt_{os.getpid()}.pt"
            try:
                a.save_checkpoint(str(path))
                return RainbowDQN.load(str(path))
            finally:
                if path.exists():
                    path.unlink()
        if prep == "gamma_assigned":          # a direct assignment on the live agent (after one learn with the old value)
            learned(ag)
            ag.gamma = [g for g in (0.9, 0.5, 0.25, 0.99) if g != case["gamma"]][seed % 3]
            return ag
        if prep == "gamma_mutated":           # Mutations.rl_hyperparam_mutation: setattr(agent, "gamma", new value)
            learned(ag)
            m = Mutations(no_mutation=0, architecture=0, new_layer_prob=0.3, parameters=0, activation=0, rl_hp=1, rand_seed=seed)
            return m.mutation([ag])[0]
        if prep == "nstep_assigned":          # n_step is a plain attribute
            learned(ag)
            ag.n_step = 1 + (case["nstep"] % 3)
            return ag
        if prep == "learned":
            return learned(ag)
        if prep == "learned_twice":           # the same batch OBJECTS handed to learn twice (no clone in between)
            for _ in range(2):
                ag.learn(warm[0], n_experiences=(warm[1] if case["mode"] != "one" else None), per=True)
            return ag
        if prep == "failed_learn":            # a learn() that raises (one row too many), caught by the caller; the agent is used afterwards
            bad = torch.cat([warm[0], warm[0][:1]], 0)
            try:
                ag.learn(bad, n_experiences=(torch.cat([warm[1], warm[1][:1]], 0) if case["mode"] != "one" else None), per=True)
            except Exception:  # noqa: BLE001
                pass
            return ag
        if prep == "clone":
            return learned(ag).clone()
        if prep == "mutated":                 # observed right after the mutation, no learn step in between
            return mutated(learned(ag), True)
        if prep == "mutated_param":
            return mutated(ag, False)
        if prep == "reloaded":
            return reloaded(learned(ag))
        if prep == "chain":                   # clone -> mutate -> clone -> save/load
            return reloaded(mutated(ag.clone(), True).clone())
        return ag

    def build(self, case):
        torch.manual_seed(case["net_seed"])
        np.random.seed(case["net_seed"] % (2 ** 31))
        pyrandom.seed(case["net_seed"])
        N, A, B = case["N"], case["A"], case["B"]
        kind = case.get("obs_kind", "vector")
        obs_space = self.obs_space_of(kind)
        if kind != "vector":
            net_config = None if case["partial"] else {"head_config": {"hidden_size": [16]}}
        elif case["partial"]:
            net_config = {"encoder_config": {"hidden_size": [16]}}
        else:
            net_config = {"encoder_config": {"hidden_size": [16], "activation": "ReLU"}, "head_config": {"hidden_size": [16]}}
        if case.get("prep") == "after_other_agent":
            # another RainbowDQN of the same batch size but other num_atoms / support has been used in this process just before
            other = RainbowDQN(obs_space, spaces.Discrete(A), batch_size=B, num_atoms=N + 2, v_min=case["vmin"] - 1.0, v_max=case["vmax"] + 3.0,
                               n_step=case["nstep"], gamma=0.75, net_config=net_config)
            other._dqn_loss(self.sample_obs(kind, B), torch.zeros(B, 1, dtype=torch.long), torch.ones(B, 1), self.sample_obs(kind, B),
                            torch.zeros(B, 1), 0.75)
        hp = None
        if case.get("prep") == "gamma_mutated":      # gamma is the only entry of the hyperparameter configuration: the RL-hp mutation picks it
            hp = HyperparameterConfig(gamma=RLParameter(min=0.05, max=0.995))
        ag = RainbowDQN(obs_space, spaces.Discrete(A), batch_size=B, num_atoms=N, v_min=case["vmin"], v_max=case["vmax"],
                        n_step=case["nstep"], gamma=case["gamma"], combined_reward=(case["mode"] == "combined"),
                        prior_eps=case["prior_eps"], net_config=net_config, hp_config=hp)
        with torch.no_grad():               # make online and target differ and the distributions far from uniform
            for net in (ag.actor, ag.actor_target):
                for p in net.parameters():
                    p.add_((0.6 if kind == "vector" else 0.3) * (4.0 if case.get("peaked") else 1.0) * torch.randn_like(p))

        ws = self.case_weights(case)
        wt = torch.tensor(ws, dtype=torch.float32)
        wt = wt.reshape(B, 1) if case.get("wshape", "col") == "col" else wt.reshape(B)

        dts = case.get("dtypes", ["float32", "float32", "int64"])

        def batch(rows, w=wt):
            return TensorDict({
                "obs": self.sample_obs(kind, B), "next_obs": self.sample_obs(kind, B),
                "action": torch.tensor([[r["a"]] for r in rows], dtype=getattr(torch, dts[2])),
                "reward": torch.tensor([[r["r"]] for r in rows], dtype=getattr(torch, dts[0])),
                "done": torch.tensor([[r["d"]] for r in rows], dtype=getattr(torch, dts[1])),
                "weights": w, "idxs": torch.arange(B)}, batch_size=[B])
        if case.get("prep", "fresh") != "fresh":
            ones = torch.ones(B, 1)
            ag = self.prepare(ag, case, kind, (batch(case["rows1"], ones), batch(case["rowsn"], ones)))
        if case.get("source", "direct") == "buffer":
            b1, bn = self.buffer_batches(ag, case, kind)
            return ag, b1, bn
        return ag, batch(case["rows1"]), batch(case["rowsn"])

    def buffer_batches(self, ag, case, kind):
        """the batches as the training loop obtains them: transitions go through MultiStepReplayBuffer.add and
        PrioritizedReplayBuffer.add, priorities are updated once (non-uniform weights), then per.sample(B, beta) and
        n_step_memory.sample_from_indices(idxs)"""
        B, A = case["B"], case["A"]
        rng = pyrandom.Random(case.get("stream_seed", 0))
        T = B + case["nstep"] + 3
        per = PrioritizedReplayBuffer(max_size=T + 2, alpha=0.6)
        nsb = MultiStepReplayBuffer(max_size=T + 2, n_step=case["nstep"], gamma=case["gamma"])
        pool = [r for r in case["rows1"] + case["rowsn"]]
        for t in range(T):
            r = pool[t % len(pool)]
            o, o2 = self.sample_obs(kind, 1), self.sample_obs(kind, 1)
            dn = bool(r["d"] and rng.random() < 0.6)
            # the Python / numpy / torch type of a field differs from transition to transition (as env outputs do)
            rew = [torch.tensor([r["r"]], dtype=torch.float32), np.array([r["r"]], dtype=np.float64),
                   torch.tensor([r["r"]], dtype=torch.float64), np.array([r["r"]], dtype=np.float32)][t % 4]
            don = [torch.tensor([float(dn)]), np.array([dn]), torch.tensor([dn]), np.array([float(dn)], dtype=np.float32)][t % 4]
            act = [torch.tensor([rng.randrange(A)]), np.array([rng.randrange(A)], dtype=np.int64), np.array([rng.randrange(A)], dtype=np.int32)][t % 3]
            tr = Transition(obs=o, action=act, reward=rew, next_obs=o2, done=don, batch_size=[1]).to_tensordict()
            one = nsb.add(tr)
            if one is not None:
                per.add(one)
        n = len(per)
        per.update_priorities(torch.arange(n).reshape(-1, 1), np.array([0.25 + (k % 4) for k in range(n)], dtype=np.float32))
        b1 = per.sample(B, 0.4)
        bn = nsb.sample_from_indices(b1["idxs"])
        return b1, bn

    @staticmethod
    def read_projection(ag, b, gamma, N, A):
        """_dqn_loss with log_p = -onehot(k) returns column k of the projection: N calls read it off."""
        orig = ag.actor.forward
        cols = []
        try:
            for k in range(N):
                def fwd(x, q=True, log=False, _k=k):
                    if log:
                        n = b.batch_size[0]
                        out = torch.zeros(n, A, N)
                        out[:, :, _k] = -1.0
                        return out
                    return orig(x, q=q, log=log)
                ag.actor.forward = fwd
                el = ag._dqn_loss(b["obs"], b["action"], b["reward"], b["next_obs"], b["done"], gamma)
                cols.append(el.detach().cpu().numpy().astype(np.float64).reshape(-1))
        finally:
            try:
                del ag.actor.forward
            except AttributeError:
                ag.actor.forward = orig
        return np.stack(cols, axis=1)      # (B, N)

    def run_impl(self, case):
        ag, b1, bn = self.build(case)
        N, A, B = case["N"], case["A"], case["B"]
        obs = {"support": [float(x) for x in ag.support], "delta_z": float(ag.delta_z), "parts": {}, "errors": {}}
        # the discount and the n-step exponent the agent holds NOW (they may have been changed after construction)
        obs["eff"] = {"gamma": float(ag.gamma), "nstep": int(ag.n_step)}
        case = self.effective(case, obs)
        gam = {"1": case["gamma"], "n": case["gamma"] ** case["nstep"]}
        obs["rows"] = {}
        for part, b, crows in (("1", b1, case["rows1"]), ("n", bn, case["rowsn"])):
            direct = case.get("source", "direct") == "direct"
            obs["rows"][part] = [{"r": float(b["reward"].reshape(-1)[k]), "d": float(b["done"].reshape(-1)[k]),
                                  "a": int(b["action"].reshape(-1)[k]), "cls": crows[k]["cls"] if direct else "buffer"}
                                 for k in range(B)]
            with torch.no_grad():
                nx, ox = ag.preprocess_observation(b["next_obs"]), ag.preprocess_observation(b["obs"])
                online = ag.actor(nx, q=False)
                qv = ag.actor(nx)
                target = ag.actor_target(nx, q=False)
                cap, hooks = {}, []
                head = getattr(ag.actor, "head_net", None)
                if part == "1" and N <= 21 and hasattr(head, "model") and hasattr(head, "advantage_net"):
                    # value and advantage streams of the dueling head (row 0), captured while the log-distribution is computed
                    hooks.append(head.model.register_forward_hook(lambda m_, i_, o_: cap.__setitem__("v", o_.detach())))
                    hooks.append(head.advantage_net.register_forward_hook(lambda m_, i_, o_: cap.__setitem__("adv", o_.detach())))
                try:
                    logp = ag.actor(ox, q=False, log=True)
                finally:
                    for h_ in hooks:
                        h_.remove()
                logp_next = ag.actor(nx, q=False, log=True)
            rec = {"online": online.tolist(), "q": qv.tolist(), "target": target.tolist(), "logp": logp.tolist(), "proj": None}
            # the three read-outs of the distributional head on the same input must describe one distribution:
            # p = clamp(softmax, 1e-3) renormalised to mass one (92c49c5), log p = log_softmax, q = sum p z
            cl = logp_next.double().exp().clamp(min=1e-3)
            rec["head_dev"] = float((cl / cl.sum(-1, keepdim=True) - online.double()).abs().max())
            rec["head_lognorm"] = float(logp.double().exp().sum(-1).sub(1.0).abs().max())
            if "v" in cap and "adv" in cap and tuple(cap["v"].shape) == (B, N) and tuple(cap["adv"].shape) == (B, A * N):
                rec["duel"] = {"v": cap["v"][0].tolist(), "adv": cap["adv"][0].reshape(A, N).tolist()}
            if part == "1" and N <= 21:          # softmax values (float64 exp of the log-distribution) for the model's clamp + renormalisation
                rec["soft"] = logp_next.double().exp().tolist()
            rec["head_mass"] = float(max((online.double().sum(-1) - 1.0).abs().max(), (target.double().sum(-1) - 1.0).abs().max()))
            try:
                rec["proj"] = self.read_projection(ag, b, gam[part], N, A).tolist()
            except Exception as e:  # noqa: BLE001 — the property says "no exception"
                obs["errors"]["proj" + part] = f"{type(e).__name__}: {e}"[:300]
            if B >= 2 and N <= 11 and rec["proj"] is not None:
                try:
                    idx = torch.arange(B - 1, -1, -1)
                    rec["proj_rev"] = self.read_projection(ag, b[idx], gam[part], N, A).tolist()
                except Exception as e:  # noqa: BLE001
                    obs["errors"]["proj_rev" + part] = f"{type(e).__name__}: {e}"[:300]
            obs["parts"][part] = rec
        # identical inputs in consecutive calls give identical element-wise losses (no state carried from call to call)
        try:
            e1 = ag._dqn_loss(b1["obs"], b1["action"], b1["reward"], b1["next_obs"], b1["done"], gam["1"]).detach().double()
            e2 = ag._dqn_loss(b1["obs"], b1["action"], b1["reward"], b1["next_obs"], b1["done"], gam["1"]).detach().double()
            obs["repeat_dev"] = float((e1 - e2).abs().max())
        except Exception as e:  # noqa: BLE001
            obs["errors"]["repeat"] = f"{type(e).__name__}: {e}"[:300]
        obs["prio"] = None
        import copy
        keep = (b1.clone(), bn.clone())          # what the caller handed over
        snap = (copy.deepcopy(ag.actor.state_dict()), copy.deepcopy(ag.actor_target.state_dict()))   # weights and noise buffers
        try:
            loss, idxs, prio = ag.learn(b1, n_experiences=(bn if case["mode"] != "one" else None), per=True)
            obs["prio"] = [float(x) for x in np.asarray(prio).reshape(-1)]
            obs["loss"] = float(loss)
        except Exception as e:  # noqa: BLE001
            obs["errors"]["learn"] = f"{type(e).__name__}: {e}"[:300]
        # learn() and _dqn_loss() must not write into the tensors they were handed
        changed = []
        for name, now, was in (("experiences", b1, keep[0]), ("n_experiences", bn, keep[1])):
            for key in was.keys(True, True):
                x, y = now.get(key, None), was.get(key)
                if x is None or x.dtype != y.dtype or x.shape != y.shape or not torch.equal(x, y):
                    changed.append(f"{name}[{key if isinstance(key, str) else '.'.join(key)}]")
        obs["args_modified"] = changed
        b1, bn = keep
        # the same agent (networks and noise restored to the state before learn) and the same batches, learn() called with
        # different importance weights: the returned priorities must not depend on the weights
        obs["weights"] = [float(x) for x in b1["weights"].reshape(-1)]
        obs["weights_alt"] = self.other_weights(obs["weights"])
        obs["prio_alt"] = None
        try:
            ag.actor.load_state_dict(snap[0])
            ag.actor_target.load_state_dict(snap[1])
            c1 = b1.clone()
            c1["weights"] = torch.tensor(obs["weights_alt"], dtype=torch.float32).reshape(b1["weights"].shape)
            _l, _i, prio2 = ag.learn(c1, n_experiences=(bn.clone() if case["mode"] != "one" else None), per=True)
            obs["prio_alt"] = [float(x) for x in np.asarray(prio2).reshape(-1)]
        except Exception as e:  # noqa: BLE001
            obs["errors"]["learn_alt"] = f"{type(e).__name__}: {e}"[:300]
        return obs

    # ---------------------------------------------------------------- model term
    @staticmethod
    def qlist(xs):
        return "[" + "; ".join(coq_Q(x) for x in xs) + "]"

    def qmat(self, m):
        return "[" + "; ".join(self.qlist(r) for r in m) + "]"

    def samples(self, rows, rec):
        out = []
        for k, r in enumerate(rows):
            out.append("{| s_rew := %s; s_done := %s; s_online := %s; s_target := %s; s_logp := %s; s_act := %d%%nat |}" % (
                coq_Q(r["r"]), coq_Q(r["d"]), self.qmat(rec["online"][k]), self.qmat(rec["target"][k]),
                self.qmat(rec["logp"][k]), r["a"]))
        return "[" + "; ".join(out) + "]"

    @staticmethod
    def effective(case, obs):
        """the case with gamma / n_step replaced by the values the live agent held when it was observed"""
        if obs is not None and "eff" in obs:
            case = dict(case)
            case["gamma"], case["nstep"] = obs["eff"]["gamma"], obs["eff"]["nstep"]
        return case

    @staticmethod
    def rows_of(case, obs, part):
        """the rows as learn() received them (from the buffers when source = buffer)"""
        if obs is not None and "rows" in obs:
            return obs["rows"][part]
        return case["rows1"] if part == "1" else case["rowsn"]

    def coq_term(self, case, obs):
        case = self.effective(case, obs)
        p1, pn = obs["parts"]["1"], obs["parts"]["n"]
        mode = {"one": "OneStep", "nstep": "NStep", "combined": "Combined"}[case["mode"]]

        def optflat(p):
            if p["proj"] is None:
                return "None"
            return "(Some " + self.qlist([x for row in p["proj"] for x in row]) + ")"
        prio = "None" if obs["prio"] is None else "(Some " + self.qlist(obs["prio"]) + ")"
        cfg = "{| natoms := %d%%nat; vmin := %s; vmax := %s |}" % (case["N"], coq_Q(case["vmin"]), coq_Q(case["vmax"]))
        flags = self.case_branches(case, obs)
        names = ["tz-clamped-low", "tz-clamped-high", "tz-unclamped", "b-integral:0", "b-integral:interior", "b-integral:N-1", "b-fractional"]
        br = "[" + "; ".join("true" if n in flags else "false" for n in names) + "]"
        s1, sn = self.samples(self.rows_of(case, obs, "1"), p1), self.samples(self.rows_of(case, obs, "n"), pn)
        # the branch flags of the evidence histogram are re-derived by the model inside Coq and must coincide
        extra = ""
        if "soft" in p1:      # the head's clamp + renormalisation, row by row
            extra += " && head_ok %s %s" % (self.qmat([a for row in p1["soft"] for a in row]), self.qmat([a for row in p1["online"] for a in row]))
        # (the dueling combination is modelled and proved (Dueling.v) but it is not part of C18's statement: it is tied by the
        #  evidence label "dueling-identity" below, not by the verdict; Check.dueling_ok is the Coq-side comparison for manual use)
        if obs.get("loss") is not None and obs["prio"] is not None:   # the scalar loss = mean(weight * element-wise loss)
            extra += " && loss_ok %s %s %d%%nat %s ss1 ssn %s %s" % (cfg, coq_Q(case["gamma"]), case["nstep"], mode,
                                                                  self.qlist(obs["weights"]), coq_Q(obs["loss"]))
        return ("(let ss1 := %s in let ssn := %s in check_case %s %s %d%%nat %s %s ss1 ssn %s %s %s %s %s %s && branches_ok %s %s %d%%nat ss1 ssn %s" + extra.replace("%", "%%") + ")") % (
            s1, sn, cfg, coq_Q(case["gamma"]), case["nstep"], coq_Q(case["prior_eps"]), mode, self.qlist(obs["support"]),
            self.qmat(p1["q"]), self.qmat(pn["q"]), optflat(p1), optflat(pn), prio, cfg, coq_Q(case["gamma"]), case["nstep"], br)
        return ("check_case %s %s %d%%nat %s %s %s %s %s %s %s %s %s %s" % (
            cfg, coq_Q(case["gamma"]), case["nstep"], coq_Q(case["prior_eps"]), mode,
            self.samples(self.rows_of(case, obs, "1"), p1), self.samples(self.rows_of(case, obs, "n"), pn), self.qlist(obs["support"]),
            self.qmat(p1["q"]), self.qmat(pn["q"]), optflat(p1), optflat(pn), prio))

    # ---------------------------------------------------------------- oracle (independent of the Coq model)
    def oracle(self, case, obs):
        case = self.effective(case, obs)
        out = []
        N, vmin, vmax = case["N"], float(case["vmin"]), float(case["vmax"])
        rng_ = vmax - vmin
        absmax = max(abs(vmin), abs(vmax))
        z = np.array([vmin + i * rng_ / (N - 1) for i in range(N)], dtype=np.float64)
        tag = f"N={N},range=({case['vmin']},{case['vmax']})"
        for k, e in obs["errors"].items():
            out.append(Violation("no-exception", f"exception:{k}:{e.split(':')[0]}", f"{k} raised {e} [{tag}]"))
        if abs(obs["delta_z"] - rng_ / (N - 1)) > 1e-9 * max(1.0, abs(rng_)) or len(obs["support"]) != N or \
                max(abs(a - b) for a, b in zip(obs["support"], z)) > 1e-5 * max(1.0, absmax):
            out.append(Violation("support", "support", f"agent.support / delta_z are not the {N}-point grid on [{vmin},{vmax}]: "
                                 f"delta_z={obs['delta_z']!r} support={obs['support']} [{tag}]"))
        gam = {"1": case["gamma"], "n": case["gamma"] ** case["nstep"]}
        ces = {}
        for part in ("1", "n"):
            rows = self.rows_of(case, obs, part)
            rec = obs["parts"][part]
            if rec["proj"] is None:
                continue
            proj = np.asarray(rec["proj"], dtype=np.float64)
            g = gam[part]
            qerr = np.abs(np.asarray(rec["q"], dtype=np.float64) - np.asarray(rec["online"], dtype=np.float64) @ z).max()
            if qerr > 1e-4 * (1.0 + absmax):
                out.append(Violation("head", f"head-q:{part}", f"actor(next_obs) is not the expectation sum_i p_i z_i of actor(next_obs, q=False): "
                                     f"max deviation {qerr!r} [{tag}]"))
            if rec.get("head_mass", 0.0) > 1e-5:
                out.append(Violation("head", f"head-mass:{part}", f"a return distribution of actor / actor_target (q=False) does not have total mass one: "
                                     f"max |sum p - 1| = {rec.get('head_mass')!r} (state of the agent: {case.get('prep', 'fresh')}) [{tag}]"))
            if rec.get("head_dev", 0.0) > 1e-5 or rec.get("head_lognorm", 0.0) > 1e-4:
                out.append(Violation("head", f"head:{part}", f"actor(x, q=False) is not the renormalised clamp(exp(actor(x, q=False, log=True)), 1e-3) "
                                     f"(max deviation {rec.get('head_dev')!r}) or the log-distribution is not normalised "
                                     f"(|sum exp - 1| = {rec.get('head_lognorm')!r}) [{tag}]"))
            ce_rows = []
            for k, row in enumerate(rows):
                qv = np.asarray(rec["q"][k], dtype=np.float64)
                qtol = 1e-5 * (1.0 + absmax)
                cands = [a for a in range(len(qv)) if qv[a] >= qv.max() - qtol]
                pk = proj[k]
                if pk.min() < -1e-6:
                    out.append(Violation("nonneg", f"nonneg:{part}", f"row {k} of the {part}-step projection has a negative entry {pk.min()} [{tag}] row={row}"))
                    break
                ok_mass = ok_mean = False
                det = ""
                mag = abs(row["r"]) + (1 + abs(g)) * absmax
                for a in cands:
                    p = np.asarray(rec["target"][k][a], dtype=np.float64)
                    tzv = np.clip(row["r"] + (1 - row["d"]) * g * z, vmin, vmax)
                    m_err = abs(pk.sum() - p.sum())
                    e_err = abs(float(pk @ z) - float(p @ tzv))
                    if m_err <= 5e-5 * max(1.0, p.sum()):
                        ok_mass = True
                    if e_err <= 1e-5 * (mag + rng_) * p.sum():
                        ok_mean = True
                    det = (f"row {k} ({part}-step, gamma={g}): sum proj={pk.sum()!r} vs sum p={p.sum()!r}; "
                           f"mean proj={float(pk @ z)!r} vs E[clamp(r+(1-d)g z)]={float(p @ tzv)!r}; row={row} [{tag}]")
                if not ok_mass:
                    out.append(Violation("mass", f"mass:{part}", det))
                    break
                if not ok_mean:
                    out.append(Violation("mean", f"mean:{part}", det))
                    break
                lp = np.asarray(rec["logp"][k][row["a"]], dtype=np.float64)
                ce_rows.append((-(pk * lp).sum(), np.abs(pk * lp).sum()))
            else:
                ces[part] = ce_rows
            if "proj_rev" in rec:
                rev = np.asarray(rec["proj_rev"], dtype=np.float64)[::-1]
                if np.abs(rev - proj).max() > 1e-6:
                    out.append(Violation("rows-independent", f"rows-independent:{part}",
                                         f"projection of a row depends on its position in the batch: {proj.tolist()} vs reversed batch {rev.tolist()} [{tag}]"))
        if obs["prio"] is not None and not out:
            need = {"one": ["1"], "nstep": ["n"], "combined": ["1", "n"]}[case["mode"]]
            if all(p in ces for p in need):
                if len(obs["prio"]) != case["B"]:
                    out.append(Violation("priority", "priority:length", f"{len(obs['prio'])} priorities for {case['B']} rows"))
                else:
                    for k in range(case["B"]):
                        want = sum(ces[p][k][0] for p in need) + case["prior_eps"]
                        scale = sum(ces[p][k][1] for p in need)
                        if abs(obs["prio"][k] - want) > 1e-4 * (1.0 + scale):
                            out.append(Violation("priority", f"priority:{case['mode']}",
                                                 f"row {k}: new priority {obs['prio'][k]!r} but cross-entropy(projection, log p(action)) + prior_eps = {want!r} "
                                                 f"(mode {case['mode']}, n_step {case['nstep']}, importance weights {obs.get('weights')} "
                                                 f"shape {case.get('wshape', 'col')}) [{tag}]"))
                            break
        if obs["prio"] is not None and obs.get("loss") is not None and len(obs["prio"]) == len(obs.get("weights", [])):
            want = float(np.mean((np.asarray(obs["prio"], dtype=np.float64) - case["prior_eps"]) * np.asarray(obs["weights"], dtype=np.float64)))
            if abs(obs["loss"] - want) > 1e-4 * (1.0 + abs(want)):
                out.append(Violation("loss", f"loss:{case['mode']}", f"learn(per=True) returned loss {obs['loss']!r} but mean(weight * element-wise loss) = {want!r} "
                                     f"(weights {obs['weights']}, priorities {obs['prio']}) [{tag}]"))
        if obs.get("args_modified"):
            out.append(Violation("args-unmodified", "args-modified:" + obs["args_modified"][0].split("[")[1].rstrip("]"),
                                 f"learn(per=True) wrote into the batch it was handed: {obs['args_modified']} changed "
                                 f"(mode {case['mode']}, dtypes {case.get('dtypes')}) [{tag}]"))
        if obs.get("repeat_dev", 0.0) > 0.0:
            out.append(Violation("repeatable", "repeatable", f"two consecutive _dqn_loss calls on identical inputs differ by {obs['repeat_dev']!r} [{tag}]"))
        # the priority is the plain cross-entropy: it does not depend on the importance weights of the batch
        if obs["prio"] is not None and obs.get("prio_alt") is not None:
            a, b = np.asarray(obs["prio"], dtype=np.float64), np.asarray(obs["prio_alt"], dtype=np.float64)
            if a.shape != b.shape or np.abs(a - b).max() > 1e-5 * (1.0 + np.abs(a).max()):
                out.append(Violation("priority-weight-independent", f"priority-weights:{case['mode']}",
                                     f"learn(per=True) on the same agent and batch returns priorities {a.tolist()} with importance weights "
                                     f"{obs.get('weights')} but {b.tolist()} with weights {obs.get('weights_alt')} "
                                     f"(shape {case.get('wshape', 'col')}, mode {case['mode']}, n_step {case['nstep']}) [{tag}]"))
        return out

    # ---------------------------------------------------------------- evidence helpers
    def key(self, case):
        k = (case["N"], case["vmin"], case["vmax"], case["gamma"], case["nstep"], case["mode"], case["B"],
             tuple((r["cls"], r["d"]) for r in case["rows1"]), tuple((r["cls"], r["d"]) for r in case["rowsn"]),
             tuple(self.case_weights(case)), case.get("wshape", "col"),
             case.get("prep", "fresh"), case.get("source", "direct"), case.get("obs_kind", "vector"),
             tuple(case.get("dtypes", ())), bool(case.get("peaked")))
        return repr(k)

    def case_branches(self, case, obs):
        case = self.effective(case, obs)
        br = set()
        for part, g in (("1", Fraction(case["gamma"])), ("n", Fraction(case["gamma"]) ** case["nstep"])):
            for r in self.rows_of(case, obs, part):
                br |= self.row_branches(case, r, g)
        return br

    def row_branches(self, case, row, g):
        """which arms of the model this row exercises (exact arithmetic)"""
        N = case["N"]
        vmin, vmax = Fraction(float(case["vmin"])), Fraction(float(case["vmax"]))
        dz = (vmax - vmin) / (N - 1)
        labs = set()
        for j in range(N):
            t = Fraction(row["r"]) + (1 - Fraction(row["d"])) * Fraction(g) * (vmin + j * dz)
            if t < vmin:
                t = vmin; labs.add("tz-clamped-low")
            elif t > vmax:
                t = vmax; labs.add("tz-clamped-high")
            else:
                labs.add("tz-unclamped")
            b = (t - vmin) / dz
            if b.denominator == 1:
                labs.add("b-integral:0" if b == 0 else "b-integral:N-1" if b == N - 1 else "b-integral:interior")
            else:
                labs.add("b-fractional")
        return labs

    def nontrivial(self, case, obs):
        for rows, g in ((case["rows1"], case["gamma"]), (case["rowsn"], case["gamma"] ** case["nstep"])):
            for r in rows:
                if (r["d"] == 0 and g != 0) or not (float(case["vmin"]) < r["r"] < float(case["vmax"])):
                    return True
        return False

    def classify(self, case, obs):
        labs = [f"N={case['N']}", f"range=({case['vmin']},{case['vmax']})", f"mode={case['mode']}", f"nstep={case['nstep']}",
                f"gamma={case['gamma']}", f"B={case['B']}", f"A={case['A']}", f"partial_net_config={case['partial']}",
                "weights=" + ("ones" if all(w == 1.0 for w in self.case_weights(case)) else "non-uniform"),
                f"weights-shape={case.get('wshape', 'col')}"]
        labs += [f"prep={case.get('prep', 'fresh')}", f"source={case.get('source', 'direct')}", f"obs_kind={case.get('obs_kind', 'vector')}"]
        if obs.get("eff") and (obs["eff"]["gamma"] != case["gamma"] or obs["eff"]["nstep"] != case["nstep"]):
            labs.append("hyperparameter-changed-after-construction:" + ("gamma" if obs["eff"]["gamma"] != case["gamma"] else "n_step"))
        labs += ["dtypes=" + "/".join(case.get("dtypes", ["float32", "float32", "int64"])), f"peaked={bool(case.get('peaked'))}"]
        if case["gamma"] == 0:
            labs.append("gamma=0")
        for part in ("1", "n"):
            for r in self.rows_of(case, obs, part):
                labs.append(f"reward={r['cls']},done={int(r['d'])}")
        br = self.case_branches(case, obs)
        labs += [f"branch:{b}" for b in sorted(br)]
        du = obs["parts"]["1"].get("duel")
        if du:      # value + advantage - mean advantage reproduces the differences of the log-distribution (float64 recomputation)
            v, adv, lp = np.asarray(du["v"]), np.asarray(du["adv"]), np.asarray(obs["parts"]["1"]["logp"][0])
            lg = v[None, :] + adv - adv.mean(0, keepdims=True)
            dev = np.abs((lg - lg[:, :1]) - (lp - lp[:, :1])).max()
            labs.append("dueling-identity=" + ("holds" if dev <= 1e-4 * (1.0 + np.abs(lg).max()) else "differs"))
        if obs["errors"]:
            labs.append("impl-raised")
        return labs

    def neighbours(self, case, rng):
        # same configuration, fresh networks / rewards of the same classes
        for i in range(3):
            c = dict(case)
            c["net_seed"] = rng.randrange(10 ** 6)
            yield c
        for cls in ("at_vmax", "at_vmin", "above", "below", "on_atom"):
            c = self.one_case(rng, (case["N"], case["vmin"], case["vmax"]), B=case["B"], mode=case["mode"], classes=[cls],
                              gamma=case["gamma"], nstep=case["nstep"], A=case["A"])
            yield c


if __name__ == "__main__":
    sys.exit(vlib.run_check(C18()))
