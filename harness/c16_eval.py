"""C16 — the small trusted evaluator: parses formulas printed by Coq (C16/Model.v [expr]) and evaluates
them in float64 on concrete bindings of the variables.  In the check only the primitive atoms go through
[evaluate]; sums / differences / means are evaluated inside Coq (C16/Check.v [ev])."""
from __future__ import annotations

import math
import re

import numpy as np

EPS32 = float(np.finfo(np.float32).eps)
CLAMP_HI = float(np.float32(1.0) - np.float32(EPS32))     # 1 - eps as the float32 code sees it
HALF_LOG_2PI = 0.5 * math.log(2.0 * math.pi)

_TOK = re.compile(r'\s*(?:("(?:[^"]|"")*")|([\[\]();,])|([A-Za-z_][A-Za-z0-9_\'.]*)|(-?\d+))')


def parse(s: str):
    """Coq term -> nested python: lists, tuples, ints, str, ('Ctor', args...)"""
    s = re.sub(r"%[a-z_]+", "", s)
    toks = []
    pos = 0
    while pos < len(s):
        if s[pos:].strip() == "":
            break
        m = _TOK.match(s, pos)
        if not m:
            raise ValueError("cannot tokenise Coq output at: " + s[pos:pos + 40])
        pos = m.end()
        if m.group(1) is not None:
            toks.append(("str", m.group(1)[1:-1].replace('""', '"')))
        elif m.group(2) is not None:
            toks.append((m.group(2), None))
        elif m.group(3) is not None:
            toks.append(("id", m.group(3)))
        else:
            toks.append(("int", int(m.group(4))))
    i = 0

    def atom():
        nonlocal i
        k, v = toks[i]
        if k in ("str", "int"):
            i += 1
            return v
        if k == "id":
            i += 1
            return (v,)
        if k == "[":
            i += 1
            out = []
            if toks[i][0] == "]":
                i += 1
                return out
            while True:
                out.append(term())
                if toks[i][0] == ";":
                    i += 1
                    continue
                assert toks[i][0] == "]", toks[i]
                i += 1
                return out
        if k == "(":
            i += 1
            parts = [term()]
            while toks[i][0] == ",":
                i += 1
                parts.append(term())
            assert toks[i][0] == ")", toks[i]
            i += 1
            return parts[0] if len(parts) == 1 else tuple(["#tuple"] + parts)
        raise ValueError(f"unexpected token {toks[i]}")

    def term():
        nonlocal i
        head = atom()
        args = []
        while i < len(toks) and toks[i][0] in ("str", "int", "id", "[", "("):
            args.append(atom())
        if not args:
            if isinstance(head, tuple) and len(head) == 1 and head[0] == "nil":
                return []
            return head
        assert isinstance(head, tuple) and len(head) == 1, head
        return tuple([head[0]] + args)

    t = term()
    assert i == len(toks), ("trailing tokens", toks[i:i + 5])
    return t


def untuple(t):
    assert isinstance(t, tuple) and t[0] == "#tuple"
    return list(t[1:])


def _softplus(x):
    return max(x, 0.0) + math.log1p(math.exp(-abs(x)))


def _logsumexp(v):
    m = max(v)
    return m + math.log(sum(math.exp(x - m) for x in v))


def evaluate(e, env):
    """value of formula e (parsed) under env: name -> 2-d array-like indexed [b][i]"""
    ev = lambda x: evaluate(x, env)
    c = e[0]
    if c == "Var":
        return float(env[e[1]][e[2]][e[3]])
    if c == "Add":
        return ev(e[1]) + ev(e[2])
    if c == "Sub":
        return ev(e[1]) - ev(e[2])
    if c == "Neg":
        return -ev(e[1])
    if c == "SumL":
        return math.fsum(ev(x) for x in e[1])
    if c == "MeanL":
        return math.fsum(ev(x) for x in e[1]) / len(e[1])
    if c == "Exp":
        return math.exp(ev(e[1]))
    if c == "Tanh":
        return math.tanh(ev(e[1]))
    if c == "Atanh":
        return math.atanh(ev(e[1]))
    if c == "Clamp1":
        return min(max(ev(e[1]), -CLAMP_HI), CLAMP_HI)
    if c == "Log1mSq":
        x = ev(e[1])
        return math.log(1.0 - x * x + 1e-6)
    if c == "Scale":
        lo, hi, x = ev(e[1]), ev(e[2]), ev(e[3])
        return lo + 0.5 * (x + 1.0) * (hi - lo)
    if c == "MaskFill":
        return ev(e[2]) if ev(e[1]) != 0.0 else -1e8
    if c == "NormalLogPdf":
        mu, sigma, x = ev(e[1]), ev(e[2]), ev(e[3])
        return -((x - mu) ** 2) / (2.0 * sigma * sigma) - math.log(sigma) - HALF_LOG_2PI
    if c == "NormalEntropy":
        return 0.5 + HALF_LOG_2PI + math.log(ev(e[1]))
    if c == "LogSoftmaxAt":
        v = [ev(x) for x in e[1]]
        k = ev(e[2])
        if k != int(k) or not (0 <= int(k) < len(v)):
            return float("nan")
        return v[int(k)] - _logsumexp(v)
    if c == "CatEntropy":
        v = [ev(x) for x in e[1]]
        lse = _logsumexp(v)
        return -math.fsum(math.exp(x - lse) * (x - lse) for x in v)
    if c == "BernLogP":
        l, x = ev(e[1]), ev(e[2])
        return x * l - _softplus(l)
    if c == "BernEntropy":
        l = ev(e[1])
        p = 1.0 / (1.0 + math.exp(-l)) if l >= 0 else math.exp(l) / (1.0 + math.exp(l))
        return _softplus(l) - l * p
    raise ValueError(f"unknown constructor {c}")


def slack(e, env):
    """bound on the float32 evaluation error of the atom that the 1e-4 tolerance does not cover:
    log(1 - a^2 + 1e-6) is ill-conditioned near |a| = 1 (a itself is a float32)."""
    if e[0] == "Log1mSq":
        x = evaluate(e[1], env)
        return 5e-7 / max(1.0 - x * x + 1e-6, 1e-6)
    if e[0] in ("LogSoftmaxAt", "CatEntropy"):      # torch normalises with logits - logsumexp(logits): the float32 ulp of |logsumexp|
        return lse_slack([evaluate(x, env) for x in e[1]])
    if e[0] in ("BernLogP", "BernEntropy"):         # x*l - softplus(l): two terms of size |l|
        l = abs(evaluate(e[1], env))
        return 2.4e-7 * l if l < 1e7 else 0.0      # (a masked logit -1e8 gives an exact 0 or a value the relative tolerance covers)
    if e[0] == "NormalLogPdf":      # cancellation in (x - mu) / sigma when |x|, |mu| >> sigma
        mu, sigma, x = evaluate(e[1], env), evaluate(e[2], env), evaluate(e[3], env)
        sl = normal_slack(mu, sigma, x)
        if e[3][0] == "Atanh":      # stored squashed action: float32 atanh(a) carries an error dx that is divided by sigma
            sl += atanh_slack(mu, sigma, x)
        return sl
    return 0.0


def normal_slack(mu, sigma, x):
    """float32 rounding of -(z^2)/2 - log(sigma): relative to the size of the two terms (x - mu is exact or rounded once, so no
    conditioning term in 1/sigma: the bound must stay meaningful for sigma = e^-25 and e^5)"""
    z = abs(x - mu) / sigma
    return 1e-6 * (0.5 * z * z + abs(math.log(sigma)) + 1.0)


def atanh_slack(mu, sigma, x):
    """x = atanh(a) evaluated in float32: dx ~ 2.5e-7 * (|x| + |a| / (1 - a^2)); effect on z^2/2 is |z| dx/sigma + (dx/sigma)^2 / 2.
    (inherent: with sigma = e^-25 a re-evaluated squashed action is ill-conditioned, the bound then exceeds any defect)"""
    a = math.tanh(x)
    dx = 2.5e-7 * (abs(x) + abs(a) / max(1.0 - a * a, 1e-7))
    z = abs(x - mu) / sigma
    return z * dx / sigma + 0.5 * (dx / sigma) ** 2


def lse_slack(v):
    return 2.4e-7 * abs(_logsumexp(list(v)))
