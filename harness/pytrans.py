"""pytrans — a small FAIL-CLOSED translator from a restricted Python subset to Gallina.

The second tie between the Coq development and /repo (design.d/TR.md): for the functions registered in
CLIENTS the Gallina text is regenerated from the CURRENT source of the tree under test on every run
(`ast.parse` of the file, class / function located by name, nothing is imported), written to
build/<pid>/gen/Gen<PID>.v, and the committed equivalence file coq/gen/<PID>_equiv.v proves — for all
inputs — that the generated function equals the hand-written model's function.  A semantic change of the
source therefore breaks a proof obligation; a construct outside the subset raises `Untranslatable`, which the
check reports as a broken obligation naming the construct.  Nothing is skipped or approximated silently.

Semantics of the emitted code (coq/theories/TR/PyLib.v): every function returns `res X`
(`Ok x | OutOfFuel | PyErr e`); Python `int` is `Z` (`//`, `%` are floor division / modulo = Z.div / Z.modulo);
Python `float` is the carrier type of the client's model with the operations of its carrier record; lists
are Coq lists indexed by `Z` (`zget`/`zset` fail on an index outside `0 <= i < len`); `while` loops run on
explicit fuel (`while_loop fuel step state`), recursive methods are `Fixpoint`s on fuel; `self.<attr>` fields
are parameters (read) and extra results (written); random draws are parameters.
"""
from __future__ import annotations

import ast
import copy
import hashlib
from dataclasses import dataclass, field
from pathlib import Path


class Untranslatable(Exception):
    def __init__(self, node, reason, file=None):
        self.node = node
        self.reason = reason
        self.file = file
        super().__init__(reason)

    def describe(self, file=None):
        f = file or self.file or "?"
        ln = getattr(self.node, "lineno", "?")
        try:
            if isinstance(self.node, ast.FunctionDef):
                snippet = f"def {self.node.name}(...)"
            else:
                snippet = ast.unparse(self.node) if isinstance(self.node, ast.AST) else str(self.node)
        except Exception:
            snippet = "<unprintable>"
        snippet = " ".join(snippet.split())
        if len(snippet) > 160:
            snippet = snippet[:157] + "..."
        return f"{f}:{ln}: untranslatable construct `{snippet}`: {self.reason}"


class NeedsHoist(Untranslatable):
    """an operand that must be pure needs a bind (the caller may fall back to a monadic translation)"""


# ------------------------------------------------------------------------------------------------
# types of the subset:  'Z' | 'T' (the carrier) | 'bool' | 'unit' | 'numtype' | ('list', t) | ('fun', [t..], t) | ('opaque', coq)
# ------------------------------------------------------------------------------------------------
def is_list(t):
    return isinstance(t, tuple) and t[0] == "list"


@dataclass
class Carrier:
    """How Python float arithmetic is expressed with the client's carrier record."""
    T: str = "T"                       # Coq text of the carrier type
    ops: dict = field(default_factory=dict)      # 'add','sub','mul','div','ltb','leb','trunc','of_int' -> Coq text
    consts: dict = field(default_factory=dict)   # Python literal (float or int) -> Coq text


@dataclass
class FnSpec:
    cls: str | None                    # class that holds the method (None: module-level function)
    name: str                          # Python name
    coq: str                           # name of the generated definition
    fields: list = field(default_factory=list)       # [(attr, type)] self.<attr> that may be READ, passed in this order
    writes: list = field(default_factory=list)       # attrs that may be written; returned (in this order) after the value
    returns: object = None             # type of the returned value, None when the function returns nothing
    params: dict = field(default_factory=dict)       # type of a parameter when the annotation does not give it
    fuel: bool = False                 # the function loops / recurses (explicit fuel parameter)
    draws: int = 0                     # number of random draws (each a carrier-typed parameter, in evaluation order)
    expr_shapes: dict = field(default_factory=dict)  # normalised source of an expression -> handler name
    expr_matchers: list = field(default_factory=list)  # [(matcher(e, env), handler(tr, e, env, k))] recognised expression shapes
    stmt_shapes: list = field(default_factory=list)  # [(matcher, handler)] recognised statement shapes
    prefix: str = ""                   # section arguments a caller outside the section must supply, e.g. "(c_add C)"
    start_after: str | None = None     # translate only the statements after the one whose source contains this marker
    stop_before: str | None = None     # ... and before the one whose source contains this marker (a SEGMENT of the body)
    segment_outputs: list = field(default_factory=list)  # [(local, type)] the value of a segment: these locals at its end
    segment_stmt: str | None = None    # a ONE-statement segment: the statement (anywhere in the body, also inside `with`
                                       # blocks) whose source starts with this text, found exactly once
    segment_expr: str | None = None    # an EXPRESSION segment: the expression with exactly this source (every occurrence in
                                       # the function is the same expression; at least one); its value is the result
    segment_contains: str | None = None  # the segment's first statement must also contain this text
    segment_deep: bool = False         # look for the segment statement inside for / while / if bodies too
    segment_last: str | None = None    # with segment_stmt: the segment runs from that statement to the one (in the same
                                       # statement list) whose source starts with this text, inclusive
    segment_inputs: list = field(default_factory=list)   # [(local, type)] locals the segment reads: parameters of the result
    skip_params: list = field(default_factory=list)  # Python parameters that are not passed (replaced by stmt shapes)
    extra_params: list = field(default_factory=list)  # [(coq name, type)] extra parameters introduced by shapes
    field_consts: dict = field(default_factory=dict)  # attr -> (Coq text, type): a field fixed by the class (see requires)
    deques: dict = field(default_factory=dict)  # field attr -> attr of its maxlen: self.<attr> is a deque(maxlen=self.<maxlen>)
    static: bool = False               # a @staticmethod: no `self` parameter
    mutated_params: list = field(default_factory=list)  # list parameters the function updates in place: returned last
    theorem: str = ""                  # the equivalence theorem (in the client's equivalence file) about this function


@dataclass
class Unit:
    file: str                          # path relative to the repo root
    section: str                       # name of the Coq Section
    context: str                       # Context / Variable lines of the section
    carrier: Carrier
    functions: list = field(default_factory=list)
    requires: list = field(default_factory=list)   # [(class, function, statement text)] that must still be in the source
    object_types: list = field(default_factory=list)  # types whose values are mutable objects (tensors, tensordicts)
    variables: list = field(default_factory=list)  # section variables EVERY generated function is abstracted over, used or
                                                   # not (Coq generalises a definition only over the variables it mentions:
                                                   # mentioning all keeps the signature independent of the body)
    none_tests: dict = field(default_factory=dict)  # object type -> Coq predicate for `x is None`
    list_views: list = field(default_factory=list)  # method names m such that <list>.m() is the list itself (parameters)
    elem_views: list = field(default_factory=list)  # attribute names a such that <element>.a is the element itself (data)
    elem_copy: list = field(default_factory=list)   # method names m such that <element of a zipped list>.m(e) overwrites that
                                                    # element in place with e (copy_)
    scalar_consts: dict | None = None              # when set: a float literal is a SCALAR of type 'S' (value -> Coq text)
    mixed_ops: dict = field(default_factory=dict)  # (left type, op name, right type) -> (Coq function, result type)
    cmp_ops: dict = field(default_factory=dict)    # (left type, lt|le|gt|ge|eq|ne, right type) -> (Coq function, result type)
    masked_ops: dict = field(default_factory=dict)  # (tensor type, mask type, op name, value type) -> Coq function:
                                                   #   x[mask] op= v   is   x := f x mask v
    item_get: dict = field(default_factory=dict)   # (container type, key type) -> (Coq function, result type)
    item_set: dict = field(default_factory=dict)   # (container type, key type, value type) -> Coq function


@dataclass
class Client:
    pid: str
    imports: str                       # Require lines of the generated file
    units: list
    equiv: str                         # committed equivalence file (relative to /verif)


# ------------------------------------------------------------------------------------------------
# terms with a purity flag: a pure term has type X, a monadic one has type res X
# ------------------------------------------------------------------------------------------------
@dataclass
class Term:
    code: str
    pure: bool


def atom(s: str) -> bool:
    s = s.strip()
    if not s:
        return True
    if s[0] == "(" and s[-1] == ")":
        d = 0
        for i, c in enumerate(s):
            d += c == "("
            d -= c == ")"
            if d == 0 and i < len(s) - 1:
                return False
        return True
    return all(c.isalnum() or c in "_'.%" for c in s)


def par(s: str) -> str:
    return s if atom(s) else "(" + s + ")"


def mon(t: Term) -> str:
    return t.code if not t.pure else "Ok " + par(t.code)


def indent(s: str, n=2) -> str:
    pad = " " * n
    return "\n".join(pad + ln if ln else ln for ln in s.split("\n"))


def tuple_pat(names):
    if not names:
        return "_"
    if len(names) == 1:
        return names[0]
    return "'(" + ", ".join(names) + ")"


def tuple_val(names):
    if not names:
        return "tt"
    if len(names) == 1:
        return names[0]
    return "(" + ", ".join(names) + ")"


def let_(pat: str, rhs: Term, body: Term) -> Term:
    if rhs.pure:
        if body.code == pat:            # let x := e in x
            return Term(rhs.code, body.pure)
        r = rhs.code if "\n" not in rhs.code else "\n" + indent(rhs.code) + "\n"
        return Term(f"let {pat} := {r} in\n{body.code}", body.pure)
    if body.pure and body.code == pat:  # bind m (fun x => Ok x)
        return Term(rhs.code, False)
    r = par(rhs.code) if "\n" not in rhs.code else "(\n" + indent(rhs.code) + ")"
    return Term(f"bind {r} (fun {pat} =>\n{mon(body)})", False)


def branch_(kw: str, code: str) -> str:
    if "\n" not in code and len(code) < 90:
        return f"{kw} {par(code)}"
    return f"{kw} (\n{indent(code)})"


def if_(c: str, a: Term, b: Term) -> Term:
    if c == "true":
        return a
    if c == "false":
        return b
    if a.pure and b.pure:
        return Term(f"if {c}\n{branch_('then', a.code)}\n{branch_('else', b.code)}", True)
    return Term(f"if {c}\n{branch_('then', mon(a))}\n{branch_('else', mon(b))}", False)


COQ_KEYWORDS = set()  # locals are always prefixed (v_), fields self_, temporaries t<N>: no clash with Coq keywords


def norm_src(node) -> str:
    """source of a node, whitespace/comment independent"""
    return ast.unparse(node)


def alpha_dump(node, keep=()) -> str:
    """ast.dump with local names (ast.Name) renamed by order of first occurrence; `self` and names in
    `keep` stay.  Two statements with the same alpha_dump differ only by a consistent renaming of locals."""
    node = copy.deepcopy(node)
    for n in ast.walk(node):
        if isinstance(n, ast.Assert):
            n.msg = None                 # the message of an assert is not part of its shape
    names = {}
    for n in ast.walk(node):
        if isinstance(n, ast.Name) and n.id != "self" and n.id not in keep:
            names.setdefault(n.id, f"_n{len(names)}")
    for n in ast.walk(node):
        if isinstance(n, ast.Name) and n.id in names:
            n.id = names[n.id]
    return ast.dump(node)


# ------------------------------------------------------------------------------------------------
# the translator of one function
# ------------------------------------------------------------------------------------------------
class Ctx:
    """continuations of the statement translator"""

    def __init__(self, ret, fall, brk=None, cont=None):
        self.ret = ret        # (code|None, type, env) -> Term      `return e`
        self.fall = fall      # env -> Term                          end of the block reached
        self.brk = brk        # env -> Term                          `break`
        self.cont = cont      # env -> Term                          `continue`


class FnTranslator:
    def __init__(self, unit: Unit, spec: FnSpec, fdef: ast.FunctionDef, table: dict, file: str):
        self.unit = unit
        self.car = unit.carrier
        self.spec = spec
        self.fdef = fdef
        self.table = table          # python method name -> translated signature (for calls)
        self.file = file
        self.ntmp = 0
        self.ndraw = 0
        self.draw_of = {}           # id(AST node of a draw) -> index of its parameter (a node translated twice,
                                    # e.g. in a duplicated continuation, is still ONE draw of the execution)
        self.in_loop = 0
        self.elem_alias = {}        # loop variable of a zip loop -> (AST of the list it walks, name of the index variable)
        self.loop_index = []        # Coq names of the index variables of the enclosing for loops (innermost last)
        self.no_hoist = 0
        self.fuel_var = "fuel"
        self.uses_fuel = False

    # ---- helpers ---------------------------------------------------------------------------
    def bad(self, node, reason):
        raise Untranslatable(node, reason, self.file)

    def tmp(self):
        self.ntmp += 1
        return f"t{self.ntmp}"

    def coq_type(self, t) -> str:
        if t == "Z":
            return "Z"
        if t == "T":
            return self.car.T
        if t == "S":
            return "Sc"
        if t == "str":
            return "string"
        if t == "TL":
            return "TenL"
        if t == "M":
            return "Mask"
        if t in ("bool", "unit", "nat"):
            return t
        if t == "numtype":
            return "bool"
        if isinstance(t, tuple) and t[0] == "list":
            return f"list {par(self.coq_type(t[1]))}"
        if isinstance(t, tuple) and t[0] == "fun":
            return " -> ".join(par(self.coq_type(x)) for x in t[1] + [t[2]])
        if isinstance(t, tuple) and t[0] == "opaque":
            return t[1]
        if isinstance(t, tuple) and t[0] == "tuple":
            return " * ".join(par(self.coq_type(x)) for x in t[1])
        if isinstance(t, tuple) and t[0] == "option":
            return f"option {par(self.coq_type(t[1]))}"
        raise Untranslatable(self.fdef, f"no Coq type for {t!r}", self.file)

    def ann_type(self, ann, name, node):
        if name in self.spec.params:
            return self.spec.params[name]
        if ann is None:
            self.bad(node, f"parameter `{name}` has no type annotation and no declared type")
        s = ast.unparse(ann)
        if s == "int":
            return "Z"
        if s == "float":
            return "T"
        if s == "bool":
            return "bool"
        if s in ("List[int]", "list[int]"):
            return ("list", "Z")
        self.bad(node, f"parameter `{name}`: annotation `{s}` is outside the subset")

    def const_T(self, v, node):
        for k, c in self.car.consts.items():
            if type(k) is type(v) and k == v:
                return c
        # an int literal used as a float (0 <= x): look it up as the float of the same value
        if isinstance(v, int) and not isinstance(v, bool):
            for k, c in self.car.consts.items():
                if isinstance(k, float) and k == float(v):
                    return c
        self.bad(node, f"the carrier record has no constant for the literal {v!r}")

    def op_T(self, name, node):
        if name not in self.car.ops:
            self.bad(node, f"the carrier record has no operation `{name}` (float arithmetic not modelled here)")
        return self.car.ops[name]

    # ---- expressions (CPS: k(code, type) -> Term) ------------------------------------------
    def expr(self, e, env, k):
        # recognised expression shapes first (random draws, ...)
        sh = self.spec.expr_shapes.get(norm_src(e))
        if sh is not None:
            return self.expr_shape(sh, e, env, k)
        for matcher, handler in self.spec.expr_matchers:
            if matcher(e, env):
                return handler(self, e, env, k)
        m = getattr(self, "e_" + type(e).__name__, None)
        if m is None:
            self.bad(e, f"expression node {type(e).__name__} is outside the subset")
        return m(e, env, k)

    def expr_shape(self, sh, e, env, k):
        if sh == "draw":
            if self.in_loop or self.fuel_var != "fuel":
                self.bad(e, "a random draw inside a loop / a recursive function (one parameter would stand for many draws)")
            idx = self.draw_of.setdefault(id(e), len(self.draw_of))
            if idx >= self.spec.draws:
                self.bad(e, f"more random draws than the {self.spec.draws} declared for this function")
            self.ndraw = len(self.draw_of)
            return k(f"draw_{idx}", "T")
        if isinstance(sh, tuple) and sh[0] == "const":
            return k(sh[1], sh[2])
        self.bad(e, f"unknown expression shape handler {sh!r}")

    def exprs(self, es, env, k, acc=None):
        acc = acc or []
        if not es:
            return k(acc)
        return self.expr(es[0], env, lambda c, t: self.exprs(es[1:], env, k, acc + [(c, t)]))

    def pure_expr(self, e, env):
        """translate an expression that must not need a bind (operand of a short-circuit operator)"""
        self.no_hoist += 1
        save = (self.ntmp, self.ndraw)
        try:
            out = []
            t = self.expr(e, env, lambda c, ty: (out.append((c, ty)), Term(c, True))[1])
            if not t.pure or not out:
                self.bad(e, "operand that can fail inside a short-circuit / conditional expression")
            return out[0]
        except NeedsHoist:
            self.ntmp, self.ndraw = save
            raise
        finally:
            self.no_hoist -= 1

    def hoist(self, node, rhs_code, typ, k):
        if self.no_hoist:
            raise NeedsHoist(node, "an operation that can fail (index / division / call) inside a short-circuit "
                                   "operand / conditional expression / slice bound", self.file)
        t = self.tmp()
        return let_(t, Term(rhs_code, False), k(t, typ))

    def e_Constant(self, e, env, k):
        v = e.value
        if isinstance(v, bool):
            return k("true" if v else "false", "bool")
        if isinstance(v, int):
            return k(f"({v})%Z" if v < 0 else f"{v}%Z", "Z")
        if isinstance(v, float) and self.unit.scalar_consts is not None:
            for kk, c in self.unit.scalar_consts.items():
                if kk == v:
                    return k(c, "S")
            self.bad(e, f"no scalar constant for the literal {v!r} in the client table")
        if isinstance(v, float):
            return k(self.const_T(v, e), "T")
        if v is None:
            return k("tt", "unit")
        if isinstance(v, str) and v.isascii() and '"' not in v:
            return k(f'"{v}"%string', "str")
        self.bad(e, f"literal of type {type(v).__name__} is outside the subset")

    def e_Name(self, e, env, k):
        if e.id in env:
            c, t = env[e.id]
            return k(c, t)
        self.bad(e, f"name `{e.id}` is not a (definitely assigned) local, parameter or known function")

    def e_Attribute(self, e, env, k):
        if e.attr in self.unit.elem_views and isinstance(e.value, ast.Name) and e.value.id in env \
                and env[e.value.id][1] == "T":
            return k(env[e.value.id][0], "T")
        if isinstance(e.value, ast.Name) and e.value.id == "self":
            key = "self." + e.attr
            if key in env:
                c, t = env[key]
                return k(c, t)
            self.bad(e, f"attribute self.{e.attr} is not a declared field of this client")
        self.bad(e, "attribute access other than self.<declared field>")

    def coerce(self, c, t, want, node):
        if t == want:
            return c
        self.bad(node, f"mixed int/float arithmetic ({t} used as {want}) on a non-literal: not modelled")

    def unify_num(self, le, lc, lt, re_, rc, rt, node):
        """operands of a binary arithmetic / comparison: int literal next to a float is read as a float"""
        if lt == rt:
            return lc, rc, lt
        if lt == "T" and rt == "Z" and isinstance(re_, ast.Constant):
            return lc, self.const_T(re_.value, re_), "T"
        if lt == "Z" and rt == "T" and isinstance(le, ast.Constant):
            return self.const_T(le.value, le), rc, "T"
        self.bad(node, f"operands of types {lt} and {rt}: mixed arithmetic on non-literals is not modelled")

    def binop(self, op, le, lc, lt, re_, rc, rt, node, k):
        # <int-valued expression> * 0.25 : the exact rational x/4, kept as its numerator (type ('quarter',));
        # the only thing that can be done with it is int(): truncation toward zero
        if isinstance(op, ast.Mult) and lt == "Z" and isinstance(re_, ast.Constant) and isinstance(re_.value, float) \
                and re_.value == 0.25:
            return k(lc, ("quarter",))
        opn = {ast.Add: "add", ast.Sub: "sub", ast.Mult: "mul", ast.Div: "div"}.get(type(op))
        if (lt, opn, rt) in self.unit.mixed_ops:
            fn, res_t = self.unit.mixed_ops[(lt, opn, rt)]
            return k(f"{fn} {par(lc)} {par(rc)}", res_t)
        lc, rc, t = self.unify_num(le, lc, lt, re_, rc, rt, node)
        if t == "Z":
            if isinstance(op, ast.Add):
                return k(f"({lc} + {rc})%Z", "Z")
            if isinstance(op, ast.Sub):
                return k(f"({lc} - {rc})%Z", "Z")
            if isinstance(op, ast.Mult):
                return k(f"({lc} * {rc})%Z", "Z")
            if isinstance(op, (ast.FloorDiv, ast.Mod)):
                sym, fn = ("/", "zfloordiv") if isinstance(op, ast.FloorDiv) else ("mod", "zmod")
                if isinstance(re_, ast.Constant) and isinstance(re_.value, int) and re_.value != 0:
                    return k(f"({lc} {sym} {rc})%Z", "Z")
                return self.hoist(node, f"{fn} {par(lc)} {par(rc)}", "Z", k)
            if isinstance(op, ast.Pow):
                if isinstance(re_, ast.Constant) and isinstance(re_.value, int) and re_.value >= 0:
                    return k(f"({lc} ^ {rc})%Z", "Z")
                self.bad(node, "** with a non-literal or negative exponent")
            self.bad(node, f"integer operator {type(op).__name__} is outside the subset")
        if t == "T":
            nm = {ast.Add: "add", ast.Sub: "sub", ast.Mult: "mul", ast.Div: "div"}.get(type(op))
            if nm is None:
                self.bad(node, f"float operator {type(op).__name__} is outside the subset")
            return k(f"{self.op_T(nm, node)} {par(lc)} {par(rc)}", "T")
        self.bad(node, f"arithmetic on operands of type {t}")

    def e_BinOp(self, e, env, k):
        if isinstance(e.op, ast.Mult) and isinstance(e.right, ast.Constant) and isinstance(e.right.value, float) \
                and e.right.value == 0.25:
            return self.expr(e.left, env, lambda lc, lt: self.binop(e.op, e.left, lc, lt, e.right, None, None, e, k)
                             if lt == "Z" else self.expr(e.right, env, lambda rc, rt: self.binop(
                                 e.op, e.left, lc, lt, e.right, rc, rt, e, k)))
        return self.expr(e.left, env, lambda lc, lt: self.expr(
            e.right, env, lambda rc, rt: self.binop(e.op, e.left, lc, lt, e.right, rc, rt, e, k)))

    def e_UnaryOp(self, e, env, k):
        if isinstance(e.op, ast.Not):
            return self.expr(e.operand, env, lambda c, t: k(f"negb {par(c)}", "bool") if t == "bool"
                             else self.bad(e, "`not` on a non-boolean (truthiness is not modelled)"))
        if isinstance(e.op, ast.USub):
            if isinstance(e.operand, ast.Constant) and isinstance(e.operand.value, (int, float)) \
                    and not isinstance(e.operand.value, bool):
                return self.e_Constant(ast.copy_location(ast.Constant(-e.operand.value), e), env, k)
            return self.expr(e.operand, env, lambda c, t: k(f"(- {c})%Z", "Z") if t == "Z"
                             else self.bad(e, "unary minus on a non-integer"))
        self.bad(e, f"unary operator {type(e.op).__name__} is outside the subset")

    def cmp1(self, op, le, lc, lt, re_, rc, rt, node):
        if isinstance(op, (ast.Is, ast.IsNot)):
            # `x is (not) None` on a value whose declared type is not optional
            if isinstance(re_, ast.Constant) and re_.value is None and lt in self.unit.none_tests:
                c = f"{self.unit.none_tests[lt]} {par(lc)}"
                return c if isinstance(op, ast.Is) else f"negb ({c})"
            if isinstance(re_, ast.Constant) and re_.value is None and lt != "unit":
                return "false" if isinstance(op, ast.Is) else "true"
            self.bad(node, "`is` / `is not` other than a comparison of a non-optional value with None")
        if lt == "bool" and rt == "bool" and isinstance(op, (ast.Eq, ast.NotEq)):
            c = f"Bool.eqb {par(lc)} {par(rc)}"
            return c if isinstance(op, ast.Eq) else f"negb ({c})"
        lc, rc, t = self.unify_num(le, lc, lt, re_, rc, rt, node)
        if t == "Z":
            tab = {ast.Lt: f"({lc} <? {rc})%Z", ast.LtE: f"({lc} <=? {rc})%Z", ast.Gt: f"({rc} <? {lc})%Z",
                   ast.GtE: f"({rc} <=? {lc})%Z", ast.Eq: f"({lc} =? {rc})%Z", ast.NotEq: f"negb ({lc} =? {rc})%Z"}
            if type(op) in tab:
                return tab[type(op)]
        elif t == "T":
            if isinstance(op, ast.Lt):
                return f"{self.op_T('ltb', node)} {par(lc)} {par(rc)}"
            if isinstance(op, ast.Gt):
                return f"{self.op_T('ltb', node)} {par(rc)} {par(lc)}"
            if isinstance(op, ast.LtE):
                return f"{self.op_T('leb', node)} {par(lc)} {par(rc)}"
            if isinstance(op, ast.GtE):
                return f"{self.op_T('leb', node)} {par(rc)} {par(lc)}"
            if isinstance(op, ast.Eq):
                return f"{self.op_T('eqb', node)} {par(lc)} {par(rc)}"
        self.bad(node, f"comparison {type(op).__name__} on operands of type {t}")

    def short_circuit(self, parts, env, k, node, is_and=True):
        """parts: list of functions (env, k2) -> Term producing one boolean each, evaluated left to right while the
        result is still undecided.  Pure operands give andb/orb; an operand that needs a bind is evaluated inside
        the branch in which Python evaluates it."""
        fn, stop = ("andb", "false") if is_and else ("orb", "true")

        def go(i, acc):
            if i == len(parts):
                return k(acc, "bool")
            save = (self.ntmp, self.ndraw)
            try:
                self.no_hoist += 1
                try:
                    got = []
                    parts[i](env, lambda c, t: (got.append(c), Term(c, True))[1])
                finally:
                    self.no_hoist -= 1
                c = got[0]
                return go(i + 1, c if acc is None else f"{fn} {par(acc)} {par(c)}")
            except NeedsHoist:
                self.ntmp, self.ndraw = save
                if self.no_hoist:
                    raise
                # acc decides; the remaining operands are evaluated only when Python evaluates them
                restk = lambda c, t: Term(c, True)
                rest = self.short_circuit(parts[i:], env, restk, node, is_and)
                if acc is None:
                    t = self.tmp()
                    return let_(t, rest, k(t, "bool"))
                t = self.tmp()
                br = if_(acc, rest, Term(stop, True)) if is_and else if_(acc, Term(stop, True), rest)
                return let_(t, br, k(t, "bool"))
        # first operand: evaluated unconditionally, may bind
        def first(c0, t0):
            return go(1, c0)
        return parts[0](env, first)

    def e_Compare(self, e, env, k):
        if len(e.ops) == 1 and self.unit.cmp_ops and not isinstance(e.ops[0], (ast.In, ast.NotIn, ast.Is, ast.IsNot)):
            opn = {ast.Lt: "lt", ast.LtE: "le", ast.Gt: "gt", ast.GtE: "ge", ast.Eq: "eq", ast.NotEq: "ne"}[type(e.ops[0])]

            def tab(vals):
                (lc, lt), (rc, rt) = vals
                if (lt, opn, rt) in self.unit.cmp_ops:
                    fn, res_t = self.unit.cmp_ops[(lt, opn, rt)]
                    return k(f"{fn} {par(lc)} {par(rc)}", res_t)
                return k(self.cmp1(e.ops[0], e.left, lc, lt, e.comparators[0], rc, rt, e), "bool")
            return self.exprs([e.left, e.comparators[0]], env, tab)
        if (len(e.ops) == 1 and isinstance(e.ops[0], (ast.In, ast.NotIn)) and isinstance(e.comparators[0], (ast.List, ast.Tuple))
                and e.comparators[0].elts and all(isinstance(x, ast.Constant) and isinstance(x.value, str)
                                                  for x in e.comparators[0].elts)):
            # <string> in ["a", "b"] : membership in a literal list of strings
            def member(c, t):
                if t != "str":
                    self.bad(e, f"membership test of a value of type {t} in a list of strings")
                parts = [f'String.eqb {par(c)} "{x.value}"%string' for x in e.comparators[0].elts]
                code = parts[0]
                for q in parts[1:]:
                    code = f"orb ({code}) ({q})"
                return k(code if isinstance(e.ops[0], ast.In) else f"negb ({code})", "bool")
            return self.expr(e.left, env, member)
        operands = [e.left] + list(e.comparators)
        if len(operands) == 2:
            return self.exprs(operands, env, lambda vals: k(
                self.cmp1(e.ops[0], operands[0], vals[0][0], vals[0][1], operands[1], vals[1][0], vals[1][1], e), "bool"))
        # a < b < c  is  a < b and b < c  with b evaluated once.  a and b are always evaluated (in this order, they may
        # need a bind); the later operands are evaluated only while the chain is still true: the ones that are used
        # twice (neither first, second nor last) must be pure
        def with_first_two(vals):
            (c0, t0), (c1, t1) = vals
            mids = {1: (c1, t1)}
            for j in range(2, len(operands) - 1):
                mids[j] = self.pure_expr(operands[j], env)

            def part(i):
                def f(env2, k2):
                    lc, lt = (c0, t0) if i == 0 else mids[i]

                    def with_right(rc, rt):
                        return k2(self.cmp1(e.ops[i], operands[i], lc, lt, operands[i + 1], rc, rt, e), "bool")
                    if i + 1 in mids:
                        return with_right(*mids[i + 1])
                    return self.expr(operands[i + 1], env2, with_right)
                return f
            return self.short_circuit([part(i) for i in range(len(e.ops))], env, k, e, True)
        return self.exprs(operands[:2], env, with_first_two)

    def e_BoolOp(self, e, env, k):
        def part(o):
            def f(env2, k2):
                return self.expr(o, env2, lambda c, t: k2(c, t) if t == "bool" else self.bad(
                    e, "and/or on non-boolean operands (truthiness is not modelled)"))
            return f
        return self.short_circuit([part(o) for o in e.values], env, k, e, isinstance(e.op, ast.And))

    def e_ListComp(self, e, env, k):
        g = e.generators[0] if len(e.generators) == 1 else None
        if (g is None or g.ifs or g.is_async or not isinstance(g.target, ast.Name) or not isinstance(g.iter, ast.Name)
                or not (isinstance(e.elt, ast.Subscript) and isinstance(e.elt.value, ast.Name)
                        and isinstance(e.elt.slice, ast.Name) and e.elt.slice.id == g.target.id)):
            self.bad(e, "list comprehension other than [<list>[i] for i in <list of ints>]")
        ln, sn = e.elt.value.id, g.iter.id
        if ln not in env or sn not in env or not is_list(env[ln][1]) or env[sn][1] != ("list", "Z"):
            self.bad(e, "list comprehension other than [<list>[i] for i in <list of ints>]")
        return self.hoist(e, f"zgets {env[ln][0]} {env[sn][0]}", env[ln][1], k)

    def e_List(self, e, env, k):
        if e.elts:
            self.bad(e, "non-empty list display")
        return k("nil", ("list", None))      # element type fixed by the context (conditional expression)

    def e_IfExp(self, e, env, k):
        def test(c0, t0):
            if t0 != "bool":
                self.bad(e, "conditional expression on a non-boolean test")
            (a, ta), (b, tb) = self.pure_expr(e.body, env), self.pure_expr(e.orelse, env)
            if ta == ("list", None) and is_list(tb):
                ta = tb
            if tb == ("list", None) and is_list(ta):
                tb = ta
            if ta != tb:
                self.bad(e, f"conditional expression with branches of types {ta} and {tb}")
            return k(f"if {c0} then {par(a)} else {par(b)}", ta)

        def test_m(c0, t0):
            # a branch needs a bind: each branch is evaluated inside its own arm, the value is bound afterwards
            if t0 != "bool":
                self.bad(e, "conditional expression on a non-boolean test")
            tys = []
            arm = lambda x: self.expr(x, env, lambda c, t: (tys.append(t), Term(c, True))[1])
            a, b = arm(e.body), arm(e.orelse)
            ta, tb = tys
            if ta == ("list", None) and is_list(tb):
                ta = tb
            if tb == ("list", None) and is_list(ta):
                tb = ta
            if ta != tb or ta == ("list", None):
                self.bad(e, f"conditional expression with branches of types {ta} and {tb}")
            t = self.tmp()
            return let_(t, if_(c0, a, b), k(t, ta))

        def dispatch(c0, t0):
            save = (self.ntmp, self.ndraw)
            try:
                return test(c0, t0)
            except NeedsHoist:
                self.ntmp, self.ndraw = save
                if self.no_hoist:
                    raise
                return test_m(c0, t0)
        return self.expr(e.test, env, dispatch)

    def e_Subscript(self, e, env, k):
        if isinstance(e.slice, ast.Slice):
            return self.slice_load(e, env, k)
        return self.expr(e.value, env, lambda lc, lt: self.expr(e.slice, env, lambda ic, it: (
            self.hoist(e, f"zget {par(lc)} {par(ic)}", lt[1], k) if is_list(lt) and it == "Z"
            else k(f"{self.unit.item_get[(lt, it)][0]} {par(ic)} {par(lc)}", self.unit.item_get[(lt, it)][1])
            if (lt, it) in self.unit.item_get
            else self.bad(e, f"indexing a value of type {lt} with an index of type {it}"))))

    def slice_bounds(self, sl, env, node):
        if sl.step is not None:
            self.bad(node, "slice with a step")
        out = []
        for b in (sl.lower, sl.upper):
            if b is None:
                out.append("None")
            else:
                c, t = self.pure_expr(b, env)
                if t != "Z":
                    self.bad(node, "slice bound that is not an int")
                out.append(f"(Some {par(c)})")
        return out

    def slice_load(self, e, env, k):
        def got(lc, lt):
            if not is_list(lt):
                self.bad(e, f"slice of a value of type {lt}")
            a, b = self.slice_bounds(e.slice, env, e)
            return self.hoist(e, f"zslice {par(lc)} {a} {b}", lt, k)
        return self.expr(e.value, env, got)

    def e_Tuple(self, e, env, k):
        return self.exprs(list(e.elts), env, lambda vals: k(
            "(" + ", ".join(c for c, _ in vals) + ")", ("tuple", [t for _, t in vals])))

    def e_Call(self, e, env, k):
        if e.keywords:
            self.bad(e, "call with keyword arguments")
        f = e.func
        # a registered module-level function of the same client (or the function itself: recursion)
        if isinstance(f, ast.Name) and f.id not in env and f.id in self.table and self.spec.cls is None:
            return self.method_call(f.id, e, env, k)
        # builtins
        if isinstance(f, ast.Name) and f.id not in env:
            if f.id in ("min", "max") and len(e.args) == 2:
                def mm(vals):
                    (ac, at), (bc, bt) = vals
                    ac, bc, t = self.unify_num(e.args[0], ac, at, e.args[1], bc, bt, e)
                    if t == "Z":
                        return k(f"Z.{f.id} {par(ac)} {par(bc)}", "Z")
                    if t == "T":
                        return k(f"py_{f.id} {par(self.op_T('ltb', e))} {par(ac)} {par(bc)}", "T")
                    self.bad(e, f"{f.id} on operands of type {t}")
                return self.exprs(list(e.args), env, mm)
            if f.id == "list" and len(e.args) == 1:
                return self.expr(e.args[0], env, lambda c, t: k(c, t) if is_list(t) and t[1] is not None
                                 else self.bad(e, f"list() of a value of type {t}"))     # a copy: same value
            if f.id == "len" and len(e.args) == 1:
                return self.expr(e.args[0], env, lambda c, t: k(f"zlen {par(c)}", "Z") if is_list(t)
                                 else self.bad(e, f"len of a value of type {t}"))
            if f.id == "int" and len(e.args) == 1:
                return self.expr(e.args[0], env, lambda c, t: k(c, "Z") if t == "Z"
                                 else k(f"Z.quot {par(c)} 4", "Z") if t == ("quarter",)
                                 else k(f"{self.op_T('trunc', e)} {par(c)}", "T") if t == "T"
                                 else self.bad(e, f"int() of a value of type {t}"))
            if f.id == "float" and len(e.args) == 1:
                return self.expr(e.args[0], env, lambda c, t: k(c, "T") if t == "T"
                                 else k(f"{self.op_T('of_int', e)} {par(c)}", "T") if t == "Z"
                                 else self.bad(e, f"float() of a value of type {t}"))
            self.bad(e, f"call of unknown function `{f.id}`")
        # self.<field>(...) : a field of function type, or a number type (int / float)
        callee = None
        if isinstance(f, ast.Attribute) and isinstance(f.value, ast.Name) and f.value.id == "self":
            key = "self." + f.attr
            if key in env:
                fc, ft = env[key]
                if isinstance(ft, tuple) and ft[0] == "fun":
                    def app(vals):
                        if [t for _, t in vals] != ft[1]:
                            self.bad(e, f"arguments of types {[t for _, t in vals]} for a field of type {ft}")
                        return k(f"{fc} " + " ".join(par(c) for c, _ in vals), ft[2])
                    return self.exprs(list(e.args), env, app)
                if ft == "numtype" and len(e.args) == 1:
                    return self.expr(e.args[0], env, lambda c, t: k(
                        f"if {fc} then {self.op_T('trunc', e)} {par(c)} else {c}", "T") if t == "T"
                        else self.bad(e, f"number-type call on a value of type {t}"))
                self.bad(e, f"call of the field self.{f.attr} of type {ft}")
            callee = f.attr
        # super().<method>(...)
        if isinstance(f, ast.Attribute) and isinstance(f.value, ast.Call) and isinstance(f.value.func, ast.Name) \
                and f.value.func.id == "super" and not f.value.args:
            callee = f.attr
        if callee is not None:
            return self.method_call(callee, e, env, k)
        self.bad(e, "call of an unknown helper (only min/max/int/float/len, declared function-typed fields and "
                    "registered methods of the same client are translated)")

    def method_call(self, name, e, env, k):
        sig = self.table.get(name)
        if sig is None:
            self.bad(e, f"call of the unknown helper `{name}` (not a registered method of this client)")
        if sig["writes"] and not getattr(self, "_stmt_call", False):
            self.bad(e, f"call of `{name}`, which writes fields (not supported in expression position)")
        nargs = len(e.args)
        pars = sig["params"]
        if nargs > len(pars):
            self.bad(e, f"too many arguments for `{name}`")
        missing = pars[nargs:]
        defaults = []
        for (pn, pt, dflt) in missing:
            if dflt is None:
                self.bad(e, f"missing argument `{pn}` of `{name}`")
            defaults.append(dflt)

        def call(vals):
            for (c, t), (pn, pt, _) in zip(vals, pars):
                if t != pt:
                    self.bad(e, f"argument `{pn}` of `{name}` has type {t}, expected {pt}")
            args = []
            if sig["fuel"]:
                if not self.spec.fuel:
                    self.bad(e, f"call of `{name}` (which loops/recurses) from a function declared without fuel")
                self.uses_fuel = True
                args.append(self.fuel_var)
            for (attr, ft) in sig["fields"]:
                key = "self." + attr
                if key not in env or env[key][1] != ft:
                    self.bad(e, f"`{name}` reads self.{attr}, which is not a field of the calling function")
                args.append(env[key][0])
            args += [par(c) for c, _ in vals] + [par(d) for d in defaults]
            head = sig["coq"]
            if self.cur_section != sig["section"] and sig["prefix"]:
                head = f"{head} {sig['prefix']}"
            if sig["writes"]:
                return k(f"{head} " + " ".join(args), ("call-with-writes", sig))
            if sig["returns"] is None:
                self.bad(e, f"`{name}` returns nothing but is used as a value")
            return self.hoist(e, f"{head} " + " ".join(args), sig["returns"], k)
        return self.exprs(list(e.args), env, call)

    # ---- statements ------------------------------------------------------------------------
    def may_assign(self, stmts) -> list:
        out = self._may_assign_syntactic(stmts)
        for st in stmts:
            for n in ast.walk(st):
                if (isinstance(n, ast.Expr) and isinstance(n.value, ast.Call) and isinstance(n.value.func, ast.Attribute)
                        and isinstance(n.value.func.value, ast.Name) and n.value.func.value.id == "self"
                        and n.value.func.attr in self.table):
                    for w in self.table[n.value.func.attr]["writes"]:
                        if "self." + w not in out:
                            out.append("self." + w)
        return out

    @staticmethod
    def _may_assign_syntactic(stmts) -> list:
        """names (locals `x`, fields `self.x`) that the statements may assign, in order of first occurrence"""
        out = []

        def add(n):
            if n not in out:
                out.append(n)

        def tgt(t):
            if isinstance(t, ast.Name):
                add(t.id)
            elif isinstance(t, ast.Attribute) and isinstance(t.value, ast.Name) and t.value.id == "self":
                add("self." + t.attr)
            elif isinstance(t, ast.Subscript):
                tgt(t.value)
            elif isinstance(t, (ast.Tuple, ast.List)):
                for x in t.elts:
                    tgt(x)

        def walk(ss):
            for s in ss:
                if isinstance(s, ast.Assign):
                    for t in s.targets:
                        tgt(t)
                elif isinstance(s, (ast.AugAssign, ast.AnnAssign)):
                    tgt(s.target)
                elif (isinstance(s, ast.Expr) and isinstance(s.value, ast.Call) and isinstance(s.value.func, ast.Attribute)
                      and s.value.func.attr == "append" and isinstance(s.value.func.value, ast.Name)):
                    add(s.value.func.value.id)
                elif (isinstance(s, ast.Expr) and isinstance(s.value, ast.Call) and isinstance(s.value.func, ast.Attribute)
                      and s.value.func.attr == "append" and isinstance(s.value.func.value, ast.Attribute)
                      and isinstance(s.value.func.value.value, ast.Name) and s.value.func.value.value.id == "self"):
                    add("self." + s.value.func.value.attr)
                elif isinstance(s, ast.If):
                    walk(s.body)
                    walk(s.orelse)
                elif isinstance(s, (ast.While, ast.For)):
                    if isinstance(s, ast.For):
                        tgt(s.target)
                    walk(s.body)
                    walk(s.orelse)
        walk(stmts)
        return out

    @staticmethod
    def has_exit(stmts) -> bool:
        for s in stmts:
            for n in ast.walk(s):
                if isinstance(n, (ast.Return, ast.Break, ast.Continue, ast.Raise)):
                    return True
        return False

    def block(self, stmts, env, ctx: Ctx):
        if not stmts:
            return ctx.fall(env)
        s, rest = stmts[0], stmts[1:]
        for matcher, handler in self.spec.stmt_shapes:
            if matcher(s):
                return handler(self, s, rest, env, ctx)
        m = getattr(self, "s_" + type(s).__name__, None)
        if m is None:
            self.bad(s, f"statement node {type(s).__name__} is outside the subset")
        return m(s, rest, env, ctx)

    @staticmethod
    def owned(env):
        return env.get("#owned", frozenset())

    @staticmethod
    def set_owned(env, name, flag):
        env = dict(env)
        o = set(env.get("#owned", frozenset()))
        (o.add if flag else o.discard)(name)
        env["#owned"] = frozenset(o)
        return env

    @staticmethod
    def is_fresh(value_expr):
        """the expression creates a new object: <e>.clone()"""
        return (isinstance(value_expr, ast.Call) and isinstance(value_expr.func, ast.Attribute)
                and value_expr.func.attr == "clone" and not value_expr.args and not value_expr.keywords)

    @staticmethod
    def plain_assigned(stmts):
        """locals that the statements (re)bind by a plain assignment (not by an augmented / item assignment)"""
        out = set()
        for st in stmts:
            for n in ast.walk(st):
                if isinstance(n, ast.Assign):
                    for t in n.targets:
                        for x in ast.walk(t):
                            if isinstance(x, ast.Name) and isinstance(t, (ast.Name, ast.Tuple, ast.List)):
                                out.add(x.id)
                elif isinstance(n, ast.AnnAssign) and isinstance(n.target, ast.Name):
                    out.add(n.target.id)
                elif isinstance(n, ast.For):
                    for x in ast.walk(n.target):
                        if isinstance(x, ast.Name):
                            out.add(x.id)
        return out

    def is_object(self, t):
        """types whose values are mutable Python objects (in-place updates need an owned reference)"""
        return t in self.unit.object_types

    def bind_var(self, name, env, typ, node):
        """env after assigning `name` (a local or `self.attr`)"""
        env = dict(env)
        if name.startswith("self."):
            attr = name[5:]
            if attr not in self.spec.writes:
                self.bad(node, f"assignment to self.{attr}, which is not a declared written field of this client")
            if name not in env:
                self.bad(node, f"assignment to the undeclared field self.{attr}")
            if env[name][1] != typ:
                self.bad(node, f"self.{attr} has declared type {env[name][1]}, assigned a value of type {typ}")
            return env, env[name][0]
        env[name] = ("v_" + name, typ)     # a local may be re-bound at another type (loop states / joins are checked)
        return env, "v_" + name

    def target_name(self, t, node):
        if isinstance(t, ast.Name):
            return t.id
        if isinstance(t, ast.Attribute) and isinstance(t.value, ast.Name) and t.value.id == "self":
            return "self." + t.attr
        self.bad(node, "assignment target other than a local, self.<field>, or <list>[index]")

    def assign(self, target, value_expr, node, rest, env, ctx):
        if isinstance(target, ast.Subscript):
            lname = self.target_name(target.value, node)
            if isinstance(target.slice, ast.Slice):
                return self.slice_store(lname, target, value_expr, node, rest, env, ctx)

            # Python evaluates the right-hand side first, then the subscript of the target
            return self.expr(value_expr, env, lambda vc, vt: self.expr(
                target.slice, env, lambda ic, it: self._store(lname, ic, it, vc, vt, node, rest, env, ctx)))
        name = self.target_name(target, node)
        if isinstance(value_expr, ast.List) and not value_expr.elts:
            t = self.spec.params.get(name)
            if not is_list(t):
                self.bad(node, f"empty list assigned to `{name}`, whose element type is not declared")
            env2, cn = self.bind_var(name, env, t, node)
            return let_(cn, Term("nil", True), self.block(rest, env2, ctx))
        if isinstance(value_expr, (ast.Name, ast.Attribute)):
            probe = []
            self.expr(value_expr, env, lambda c, t: (probe.append(t), Term(c, True))[1])
            if probe and is_list(probe[0]):
                self.bad(node, "a second name for a list (aliasing of mutable lists is not modelled)")

        def bound(c, t):
            if isinstance(t, tuple) and t[0] == "tuple":
                self.bad(node, "assignment of a tuple to one name")
            env2, cn = self.bind_var(name, env, t, node)
            if not name.startswith("self."):
                env2 = self.set_owned(env2, name, self.is_fresh(value_expr))
            elif self.is_object(t) and isinstance(value_expr, ast.Name):
                env2 = self.set_owned(env2, value_expr.id, False)      # stored in a field: no longer exclusively ours
            return let_(cn, Term(c, True), self.block(rest, env2, ctx))
        return self.expr(value_expr, env, bound)

    def _store(self, lname, ic, it, vc, vt, node, rest, env, ctx):
        if lname in env and (env[lname][1], it, vt) in self.unit.item_set:
            # <tensordict>[<key>] = <tensor> : in-place update of an object, needs an exclusively owned reference
            if lname not in self.owned(env) and not lname.startswith("self."):
                self.bad(node, f"item assignment on `{lname}`, which may be shared with another reference "
                               f"(only a local bound to a fresh <e>.clone() is updated in place)")
            fn = self.unit.item_set[(env[lname][1], it, vt)]
            env2, cn = self.bind_var(lname, env, env[lname][1], node)
            env2 = self.set_owned(env2, lname, True)
            val = node.value if isinstance(node, (ast.Assign, ast.AnnAssign)) else None
            if isinstance(val, ast.Name):
                env2 = self.set_owned(env2, val.id, False)     # the stored object is now reachable from the container
            return let_(cn, Term(f"{fn} {par(ic)} {env[lname][0]} {par(vc)}", True), self.block(rest, env2, ctx))
        if lname not in env or not is_list(env[lname][1]):
            self.bad(node, f"item assignment on `{lname}`, which is not a list")
        if it != "Z" or env[lname][1][1] != vt:
            self.bad(node, f"item assignment of a {vt} at an index of type {it} into {env[lname][1]}")
        env2, cn = self.bind_var(lname, env, env[lname][1], node)
        return let_(cn, Term(f"zset {env[lname][0]} {par(ic)} {par(vc)}", False), self.block(rest, env2, ctx))

    def slice_store(self, lname, target, value_expr, node, rest, env, ctx):
        def withv(vc, vt):
            if lname not in env or not is_list(env[lname][1]) or env[lname][1] != vt:
                self.bad(node, f"slice assignment of a {vt} into `{lname}`")
            a, b = self.slice_bounds(target.slice, env, node)
            env2, cn = self.bind_var(lname, env, vt, node)
            return let_(cn, Term(f"zslice_assign {env[lname][0]} {a} {b} {par(vc)}", False), self.block(rest, env2, ctx))
        return self.expr(value_expr, env, withv)

    def s_Assign(self, s, rest, env, ctx):
        if len(s.targets) > 1:
            # t1 = t2 = e : e is evaluated once, then assigned to t1, then to t2
            if any(isinstance(t, (ast.Tuple, ast.List)) for t in s.targets):
                self.bad(s, "chained assignment with tuple targets")
            self.ntmp += 1
            tmpn = f"chain{self.ntmp}_"
            seq = [ast.Assign(targets=[ast.Name(id=tmpn, ctx=ast.Store())], value=s.value)]
            seq += [ast.Assign(targets=[t], value=ast.Name(id=tmpn, ctx=ast.Load())) for t in s.targets]
            for nd in seq:
                ast.copy_location(nd, s)
                ast.fix_missing_locations(nd)
            return self.block(seq + rest, env, ctx)
        t = s.targets[0]
        if isinstance(t, (ast.Tuple, ast.List)):
            v = s.value
            if (len(t.elts) == 2 and all(isinstance(x, ast.Name) for x in t.elts) and isinstance(v, ast.Subscript)
                    and isinstance(v.slice, ast.Slice) and v.slice.upper is None and v.slice.step is None
                    and v.slice.lower is not None and ast.unparse(v.slice.lower) == "-2"):
                # a, b = l[-2:]
                def got(lc, lt):
                    if not is_list(lt):
                        self.bad(s, f"slice of a value of type {lt}")
                    env2, ca = self.bind_var(t.elts[0].id, env, lt[1], s)
                    env2, cb = self.bind_var(t.elts[1].id, env2, lt[1], s)
                    return let_(f"'({ca}, {cb})", Term(f"zlast2 {par(lc)}", False), self.block(rest, env2, ctx))
                return self.expr(v.value, env, got)
            if (isinstance(v, ast.Tuple) and len(v.elts) == len(t.elts) and all(isinstance(x, ast.Name) for x in t.elts)
                    and len({x.id for x in t.elts}) == len(t.elts)):
                # a, b = e1, e2 : all right-hand sides are evaluated first
                def got_all(vals):
                    env2 = env
                    body_names = []
                    for x, (c, ty) in zip(t.elts, vals):
                        env2, cn = self.bind_var(x.id, env2, ty, s)
                        env2 = self.set_owned(env2, x.id, False)
                        body_names.append(cn)
                    return let_("'(" + ", ".join(body_names) + ")", Term("(" + ", ".join(c for c, _ in vals) + ")", True),
                                self.block(rest, env2, ctx))
                return self.exprs(list(v.elts), env, got_all)
            self.bad(s, "tuple unpacking assignment (only `a, b = l[-2:]` and `a, b = e1, e2` are translated)")
        return self.assign(t, s.value, s, rest, env, ctx)

    def s_AnnAssign(self, s, rest, env, ctx):
        if s.value is None:
            return self.block(rest, env, ctx)
        return self.assign(s.target, s.value, s, rest, env, ctx)

    def s_AugAssign(self, s, rest, env, ctx):
        # on ints / floats  x op= e  is  x = x op e ; the target is read before e is evaluated
        load = copy.deepcopy(s.target)
        for n in ast.walk(load):
            if hasattr(n, "ctx"):
                n.ctx = ast.Load()
        if isinstance(s.target, ast.Subscript) and isinstance(s.target.value, ast.Name) and self.unit.masked_ops:
            # x[mask] op= v  on an abstract tensor
            xn = s.target.value.id
            opn = {ast.Add: "add", ast.Sub: "sub", ast.Mult: "mul"}.get(type(s.op))
            if xn not in env:
                self.bad(s, f"masked update of the unknown local `{xn}`")

            def with_mask(mc, mt):
                def with_val(vc, vt):
                    key = (env[xn][1], mt, opn, vt)
                    if key not in self.unit.masked_ops:
                        self.bad(s, f"masked update {key} is not in the client table")
                    env2, cn = self.bind_var(xn, env, env[xn][1], s)
                    return let_(cn, Term(f"{self.unit.masked_ops[key]} {env[xn][0]} {par(mc)} {par(vc)}", True),
                                self.block(rest, env2, ctx))
                return self.expr(s.value, env, with_val)
            return self.expr(s.target.slice, env, with_mask)
        if isinstance(s.target, ast.Subscript):
            self.bad(s, "augmented assignment to a list item")
        new = ast.copy_location(ast.BinOp(left=load, op=s.op, right=s.value), s)
        ast.fix_missing_locations(new)

        def chk(c, t):
            if t not in ("Z", "T"):
                self.bad(s, f"augmented assignment on a value of type {t} (only int / float)")
            tn = self.target_name(s.target, s)
            if self.is_object(t) and tn not in self.owned(env):
                self.bad(s, f"in-place update of `{tn}`, which may be shared with another reference "
                            f"(only a local bound to a fresh <e>.clone() is updated in place)")
            env2, cn = self.bind_var(tn, env, t, s)
            if self.is_object(t):
                env2 = self.set_owned(env2, tn, True)
            return let_(cn, Term(c, True), self.block(rest, env2, ctx))
        return self.expr(new, env, chk)

    def s_Expr(self, s, rest, env, ctx):
        if isinstance(s.value, ast.Constant) and isinstance(s.value.value, str):
            return self.block(rest, env, ctx)      # docstring
        c = s.value
        if (isinstance(c, ast.Call) and isinstance(c.func, ast.Attribute) and isinstance(c.func.value, ast.Name)
                and c.func.value.id == "self" and c.func.attr in self.table and self.table[c.func.attr]["writes"]
                and self.table[c.func.attr]["returns"] is None and not c.keywords):
            # self.m(args) for its effect: m is a registered method that writes fields (all of them fields of the caller,
            # declared written here too); its results are the new field values
            sig = self.table[c.func.attr]

            def bound(code, t):
                env2 = env
                names = []
                for w in sig["writes"]:
                    env2, cn = self.bind_var("self." + w, env2, dict(sig["fields"])[w], s)
                    names.append(cn)
                return let_(tuple_pat(names), Term(code, False), self.block(rest, env2, ctx))
            self._stmt_call = True
            try:
                return self.method_call(c.func.attr, c, env, bound)
            finally:
                self._stmt_call = False
        if (isinstance(c, ast.Call) and isinstance(c.func, ast.Attribute) and c.func.attr == "append"
                and isinstance(c.func.value, ast.Attribute) and isinstance(c.func.value.value, ast.Name)
                and c.func.value.value.id == "self" and c.func.value.attr in self.spec.deques
                and len(c.args) == 1 and not c.keywords):
            # self.<deque>.append(e) on a deque(maxlen=self.<n>): the oldest entries beyond maxlen are dropped
            key = "self." + c.func.value.attr
            nkey = "self." + self.spec.deques[c.func.value.attr]
            if key not in env or nkey not in env or env[nkey][1] != "Z" or not is_list(env[key][1]):
                self.bad(s, "deque append on undeclared fields")

            def dq(vc, vt):
                if vt != env[key][1][1]:
                    self.bad(s, f"append of a {vt} to a deque of {env[key][1][1]}")
                env2, cn = self.bind_var(key, env, env[key][1], s)
                if isinstance(c.args[0], ast.Name):
                    env2 = self.set_owned(env2, c.args[0].id, False)
                return let_(cn, Term(f"zdq_append {env[nkey][0]} {env[key][0]} {par(vc)}", True), self.block(rest, env2, ctx))
            return self.expr(c.args[0], env, dq)
        if (isinstance(c, ast.Call) and isinstance(c.func, ast.Attribute) and c.func.attr == "append"
                and isinstance(c.func.value, ast.Name) and len(c.args) == 1 and not c.keywords):
            lname = c.func.value.id
            if lname not in env or not is_list(env[lname][1]):
                self.bad(s, f".append on `{lname}`, which is not a list local")

            def app(vc, vt):
                if vt != env[lname][1][1]:
                    self.bad(s, f".append of a {vt} to {env[lname][1]}")
                env2, cn = self.bind_var(lname, env, env[lname][1], s)
                return let_(cn, Term(f"{env[lname][0]} ++ [{vc}]", True), self.block(rest, env2, ctx))
            return self.expr(c.args[0], env, app)
        self.bad(s, "expression statement (a call for its side effect) is outside the subset")

    def s_Pass(self, s, rest, env, ctx):
        return self.block(rest, env, ctx)

    def s_Assert(self, s, rest, env, ctx):
        return self.expr(s.test, env, lambda c, t: if_(c, self.block(rest, env, ctx), Term("PyErr AssertionError", False))
                         if t == "bool" else self.bad(s, "assert on a non-boolean"))

    def s_Return(self, s, rest, env, ctx):
        if ctx.ret is None:
            self.bad(s, "return inside a loop")
        if s.value is None or (isinstance(s.value, ast.Constant) and s.value.value is None):
            return ctx.ret(None, None, env)
        return self.expr(s.value, env, lambda c, t: ctx.ret(c, t, env))

    def s_Raise(self, s, rest, env, ctx):
        exc = s.exc
        name = None
        if isinstance(exc, ast.Call) and isinstance(exc.func, ast.Name):
            name = exc.func.id
        elif isinstance(exc, ast.Name):
            name = exc.id
        if s.cause is not None or name not in ("ValueError", "IndexError", "AssertionError", "ZeroDivisionError"):
            self.bad(s, "raise of anything but ValueError / IndexError / AssertionError / ZeroDivisionError")
        return Term(f"PyErr {name}", False)        # the message is not modelled

    def s_Break(self, s, rest, env, ctx):
        if ctx.brk is None:
            self.bad(s, "break outside a translated loop")
        return ctx.brk(env)

    def s_Continue(self, s, rest, env, ctx):
        if ctx.cont is None:
            self.bad(s, "continue outside a translated loop")
        return ctx.cont(env)

    def s_If(self, s, rest, env, ctx):
        def test(c, t):
            if t != "bool":
                self.bad(s, "if on a non-boolean test (truthiness is not modelled)")
            if self.has_exit(s.body) or self.has_exit(s.orelse):
                # a branch leaves the function / loop: the continuation is duplicated into both branches
                return if_(c, self.block(list(s.body) + rest, env, ctx), self.block(list(s.orelse) + rest, env, ctx))
            # join: the variables assigned in a branch and defined on both paths are passed on as a tuple
            may = self.may_assign(list(s.body) + list(s.orelse))
            ends = []
            # first pass to learn the environments at the end of the branches
            probe = Ctx(ret=None, fall=lambda e2: (ends.append(e2), Term("tt", True))[1], brk=None, cont=None)
            save = (self.ntmp, self.ndraw)
            self.block(list(s.body), env, probe)
            self.block(list(s.orelse), env, probe)
            self.ntmp, self.ndraw = save
            ea, eb = ends[0], ends[1]
            joined = []
            for v in may:
                if v in ea and v in eb:
                    if ea[v][1] != eb[v][1]:
                        self.bad(s, f"`{v}` gets type {ea[v][1]} in one branch and {eb[v][1]} in the other")
                    joined.append(v)
            env2 = {k2: v2 for k2, v2 in env.items()}
            for v in may:
                if v in joined:
                    env2[v] = ea[v]
                elif v in env2 and not v.startswith("self."):
                    del env2[v]          # possibly unbound afterwards
            env2["#owned"] = (self.owned(ea) & self.owned(eb)) - (set(may) - set(joined))
            names = [ea[v][0] for v in joined]
            yield_ = Ctx(ret=None, fall=lambda e2: Term(tuple_val([e2[v][0] for v in joined]), True),
                         brk=None, cont=None)
            a = self.block(list(s.body), env, yield_)
            b = self.block(list(s.orelse), env, yield_)
            return let_(tuple_pat(names), if_(c, a, b), self.block(rest, env2, ctx))
        return self.expr(s.test, env, test)

    def loop_return(self, s, ctx, state, st_val, chk):
        """support for `return` inside a loop: the loop state gets one more component, None while the loop has not
        returned, Some v once it has (the loop is then left); after the loop Some v returns v from the function.
        Gives (has_ret, full(e2, r) -> state value, ret continuation for the loop body, name of the component)."""
        has_ret = any(isinstance(n, ast.Return) for n in ast.walk(s))
        if not has_ret:
            return False, (lambda e2, r=None: st_val(e2)), None, None
        if ctx.ret is None:
            self.bad(s, "return inside a loop that is itself inside a construct without a return continuation")
        self.ntmp += 1
        rname = f"ret{self.ntmp}"
        names = lambda e2: [e2[v][0] for v in state]
        full = lambda e2, r="None": tuple_val(names(e2) + [r])

        def ret(c, t, e2):
            chk(e2)
            want = self.spec.returns
            if c is None:
                if want is not None:
                    self.bad(s, "a path returns nothing although the client declares a returned value")
                c = "tt"
            elif t != want:
                self.bad(s, f"returns a value of type {t}, the client declares {want}")
            return Term(f"inr {par(full(e2, 'Some ' + par(c)))}", True)
        return True, full, ret, rname

    def after_loop(self, has_ret, rname, names, loop, rest, env_after, ctx):
        if not has_ret:
            return let_(tuple_pat(names), loop, self.block(rest, env_after, ctx))
        a = ctx.ret("v_ret" if self.spec.returns is not None else None, self.spec.returns, env_after)
        b = self.block(rest, env_after, ctx)
        if a.pure and b.pure:
            m = Term(f"match {rname} with\n| Some v_ret => {par(a.code)}\n| None => {par(b.code)}\nend", True)
        else:
            m = Term(f"match {rname} with\n| Some v_ret => {par(mon(a))}\n| None => {par(mon(b))}\nend", False)
        return let_(tuple_pat(names + [rname]), loop, m)

    def s_While(self, s, rest, env, ctx):
        if s.orelse:
            self.bad(s, "while ... else")
        if not self.spec.fuel:
            self.bad(s, "a while loop in a function declared without fuel")
        self.uses_fuel = True
        may = self.may_assign(list(s.body))
        env = dict(env)
        env["#owned"] = self.owned(env) - self.plain_assigned(list(s.body))
        state = [v for v in env if v in may and v != "#owned"]   # defined before the loop and modified in it, in env order
        names = [env[v][0] for v in state]
        # variables first assigned inside the body are local to one iteration
        env_after = {k2: v2 for k2, v2 in env.items()}
        st_val = lambda e2: tuple_val([e2[v][0] for v in state])

        def chk_state(e2):
            for v in state:
                if e2[v][1] != env[v][1]:
                    self.bad(s, f"loop variable `{v}` changes type inside the loop")
            lost = (self.owned(env) & set(state)) - self.owned(e2)
            if lost:
                self.bad(s, f"`{sorted(lost)[0]}` is updated in place in the loop but becomes shared inside it")
        has_ret, full, retk, rname = self.loop_return(s, ctx, state, st_val, chk_state)
        loop_ctx = Ctx(ret=retk,
                       fall=lambda e2: (chk_state(e2), Term(f"inl {par(full(e2))}", True))[1],
                       brk=lambda e2: (chk_state(e2), Term(f"inr {par(full(e2))}", True))[1],
                       cont=lambda e2: (chk_state(e2), Term(f"inl {par(full(e2))}", True))[1])

        def test(c, t):
            if t != "bool":
                self.bad(s, "while on a non-boolean test")
            body = self.block(list(s.body), env, loop_ctx)
            return if_(c, body, Term(f"inr {par(full(env))}", True))
        self.in_loop += 1
        try:
            step = self.expr(s.test, env, test)
        finally:
            self.in_loop -= 1
        pat = tuple_pat(names + ([rname] if has_ret else []))
        loop = Term(f"while_loop {self.fuel_var} (fun {pat} =>\n{indent(mon(step))})\n{par(full(env))}", False)
        return self.after_loop(has_ret, rname, names, loop, rest, env_after, ctx)

    def s_For(self, s, rest, env, ctx):
        if s.orelse:
            self.bad(s, "for ... else")
        it = s.iter
        if (isinstance(it, ast.Call) and isinstance(it.func, ast.Name) and it.func.id == "enumerate"
                and len(it.args) == 1 and not it.keywords and isinstance(it.args[0], ast.Name)
                and isinstance(s.target, ast.Tuple) and len(s.target.elts) == 2
                and all(isinstance(x, ast.Name) for x in s.target.elts)):
            # for i, x in enumerate(L)  ==  for i in range(len(L)): x = L[i]   provided the body does not assign L
            seq, ivar, xvar = it.args[0], s.target.elts[0], s.target.elts[1]
            if seq.id in self.may_assign(list(s.body)):
                self.bad(s, "the sequence of an enumerate loop is modified in the loop")
            used = any(isinstance(n, ast.Name) and n.id == xvar.id for st in s.body for n in ast.walk(st))
            pre = [] if not used else [ast.copy_location(ast.Assign(
                targets=[ast.Name(id=xvar.id, ctx=ast.Store())],
                value=ast.Subscript(value=ast.Name(id=seq.id, ctx=ast.Load()), slice=ast.Name(id=ivar.id, ctx=ast.Load()),
                                    ctx=ast.Load())), s)]
            new = ast.copy_location(ast.For(
                target=ast.Name(id=ivar.id, ctx=ast.Store()),
                iter=ast.Call(func=ast.Name(id="range", ctx=ast.Load()),
                              args=[ast.Call(func=ast.Name(id="len", ctx=ast.Load()), args=[seq], keywords=[])], keywords=[]),
                body=pre + list(s.body), orelse=[]), s)
            ast.fix_missing_locations(new)
            return self.s_For(new, rest, env, ctx)
        if (isinstance(it, ast.Call) and isinstance(it.func, ast.Name) and it.func.id == "reversed" and len(it.args) == 1
                and not it.keywords and isinstance(it.args[0], ast.Call) and isinstance(it.args[0].func, ast.Name)
                and it.args[0].func.id == "range" and len(it.args[0].args) == 1 and not it.args[0].keywords
                and isinstance(s.target, ast.Name)):
            # for t in reversed(range(n))  ==  for _j in range(n): t = n - 1 - _j   (n must be pure: it is evaluated twice)
            n_expr = it.args[0].args[0]
            self.pure_expr(n_expr, env)
            if s.target.id in self.may_assign(list(s.body)):
                self.bad(s, "the loop variable is assigned inside the loop")
            self.ntmp += 1
            jvar = f"j{self.ntmp}_"
            pre = [ast.Assign(targets=[ast.Name(id=s.target.id, ctx=ast.Store())],
                              value=ast.BinOp(left=ast.BinOp(left=copy.deepcopy(n_expr), op=ast.Sub(), right=ast.Constant(1)),
                                              op=ast.Sub(), right=ast.Name(id=jvar, ctx=ast.Load())))]
            new = ast.For(target=ast.Name(id=jvar, ctx=ast.Store()),
                          iter=ast.Call(func=ast.Name(id="range", ctx=ast.Load()), args=[copy.deepcopy(n_expr)], keywords=[]),
                          body=pre + list(s.body), orelse=[])
            for nd in [new] + pre:
                ast.copy_location(nd, s)
            ast.fix_missing_locations(new)
            return self.s_For(new, rest, env, ctx)
        if (isinstance(it, ast.Call) and isinstance(it.func, ast.Name) and it.func.id == "zip" and len(it.args) == 2
                and not it.keywords and isinstance(s.target, ast.Tuple) and len(s.target.elts) == 2
                and all(isinstance(x, ast.Name) for x in s.target.elts)):
            # for a, b in zip(LA, LB)  ==  for _i in range(min(len(LA), len(LB))): a = LA[_i]; b = LB[_i]
            # LA / LB: list locals / fields, possibly seen through a list view (<net>.parameters()).  a and b are
            # remembered as aliases of LA[_i] / LB[_i] so that an in-place overwrite of b updates LB[_i].
            def base(x):
                if (isinstance(x, ast.Call) and not x.args and not x.keywords and isinstance(x.func, ast.Attribute)
                        and x.func.attr in self.unit.list_views):
                    x = x.func.value
                if isinstance(x, ast.Name):
                    return x, x.id
                if isinstance(x, ast.Attribute) and isinstance(x.value, ast.Name) and x.value.id == "self":
                    return x, "self." + x.attr
                self.bad(s, "zip over something that is not a named list")
            (na, ka), (nb, kb) = base(it.args[0]), base(it.args[1])
            for kx in (ka, kb):
                if kx not in env or not is_list(env[kx][1]):
                    self.bad(s, "zip over something that is not a list")
            if ka == kb:
                self.bad(s, "zip of a list with itself")
            self.ntmp += 1
            ivar = f"i{self.ntmp}_"
            idx = lambda: ast.Name(id=ivar, ctx=ast.Load())
            pre = [ast.Assign(targets=[ast.Name(id=s.target.elts[0].id, ctx=ast.Store())],
                              value=ast.Subscript(value=copy.deepcopy(na), slice=idx(), ctx=ast.Load())),
                   ast.Assign(targets=[ast.Name(id=s.target.elts[1].id, ctx=ast.Store())],
                              value=ast.Subscript(value=copy.deepcopy(nb), slice=idx(), ctx=ast.Load()))]
            aliases = {s.target.elts[0].id: na, s.target.elts[1].id: nb}
            tr_self = self

            def rewrite(stmts):
                """<zip variable>[.data].copy_(E)  ->  L[_i] = E ; the variable must not be read afterwards (stale)"""
                out = []
                for j, st in enumerate(stmts):
                    c = st.value if isinstance(st, ast.Expr) else None
                    if (isinstance(c, ast.Call) and isinstance(c.func, ast.Attribute)
                            and c.func.attr in tr_self.unit.elem_copy and len(c.args) == 1 and not c.keywords):
                        tgt = c.func.value
                        if isinstance(tgt, ast.Attribute) and tgt.attr in tr_self.unit.elem_views:
                            tgt = tgt.value
                        if not (isinstance(tgt, ast.Name) and tgt.id in aliases):
                            tr_self.bad(st, "in-place overwrite of something that is not the element variable of the zip loop")
                        for later in stmts[j + 1:]:
                            for n in ast.walk(later):
                                if isinstance(n, ast.Name) and n.id == tgt.id:
                                    tr_self.bad(st, f"`{tgt.id}` is read again after it was overwritten in place")
                        store = ast.Assign(targets=[ast.Subscript(value=copy.deepcopy(aliases[tgt.id]), slice=idx(),
                                                                  ctx=ast.Store())], value=c.args[0])
                        ast.copy_location(store, st)
                        out.append(store)
                    elif isinstance(st, ast.If):
                        st2 = copy.copy(st)
                        st2.body, st2.orelse = rewrite(list(st.body)), rewrite(list(st.orelse))
                        out.append(st2)
                    else:
                        out.append(st)
                return out
            body2 = rewrite(list(s.body))
            ln = lambda n: ast.Call(func=ast.Name(id="len", ctx=ast.Load()), args=[copy.deepcopy(n)], keywords=[])
            new = ast.For(target=ast.Name(id=ivar, ctx=ast.Store()),
                          iter=ast.Call(func=ast.Name(id="range", ctx=ast.Load()),
                                        args=[ast.Call(func=ast.Name(id="min", ctx=ast.Load()), args=[ln(na), ln(nb)],
                                                       keywords=[])], keywords=[]),
                          body=pre + body2, orelse=[])
            for nd in [new] + pre:
                ast.copy_location(nd, s)
            ast.fix_missing_locations(new)
            saved = dict(self.elem_alias)
            self.elem_alias[s.target.elts[0].id] = (na, ivar)
            self.elem_alias[s.target.elts[1].id] = (nb, ivar)
            try:
                return self.s_For(new, rest, env, ctx)
            finally:
                self.elem_alias = saved
        if isinstance(s.target, ast.Name) and (isinstance(it, ast.Name) or (
                isinstance(it, ast.Attribute) and isinstance(it.value, ast.Name) and it.value.id == "self")):
            # for x in L  ==  for _i in range(len(L)): x = L[_i]   (L a list local / field the body does not assign)
            key = it.id if isinstance(it, ast.Name) else "self." + it.attr
            if key not in env or not is_list(env[key][1]):
                self.bad(s, "for loop over something that is not a list")
            if key in self.may_assign(list(s.body)):
                self.bad(s, "the sequence of a for loop is modified in the loop")
            self.ntmp += 1
            ivar = f"i{self.ntmp}_"
            pre = [ast.copy_location(ast.Assign(targets=[ast.Name(id=s.target.id, ctx=ast.Store())],
                                                value=ast.Subscript(value=copy.deepcopy(it),
                                                                    slice=ast.Name(id=ivar, ctx=ast.Load()), ctx=ast.Load())), s)]
            new = ast.copy_location(ast.For(
                target=ast.Name(id=ivar, ctx=ast.Store()),
                iter=ast.Call(func=ast.Name(id="range", ctx=ast.Load()),
                              args=[ast.Call(func=ast.Name(id="len", ctx=ast.Load()), args=[copy.deepcopy(it)], keywords=[])],
                              keywords=[]),
                body=pre + list(s.body), orelse=[]), s)
            ast.fix_missing_locations(new)
            return self.s_For(new, rest, env, ctx)
        if not (isinstance(it, ast.Call) and isinstance(it.func, ast.Name) and it.func.id == "range"
                and 1 <= len(it.args) <= 2 and not it.keywords and isinstance(s.target, ast.Name)):
            self.bad(s, "for loop other than `for <name> in range(a[, b])` / `for <i>, <x> in enumerate(<list>)` / "
                        "`for <x> in <list>`")
        bounds = [self.pure_expr(a, env) for a in it.args]
        if any(t != "Z" for _, t in bounds):
            self.bad(s, "range() bound that is not an int")
        lo, hi = ("0%Z", bounds[0][0]) if len(bounds) == 1 else (bounds[0][0], bounds[1][0])
        may = self.may_assign(list(s.body))
        env = dict(env)
        env["#owned"] = self.owned(env) - self.plain_assigned(list(s.body))
        if s.target.id in may:
            self.bad(s, "the loop variable is assigned inside the loop")
        state = [v for v in env if v in may and v != "#owned"]
        names = [env[v][0] for v in state]
        st_val = lambda e2: tuple_val([e2[v][0] for v in state])
        ivar = "v_" + s.target.id
        env_in = dict(env)
        env_in[s.target.id] = (ivar, "Z")
        def chk_own(e2):
            lost = (self.owned(env) & set(state)) - self.owned(e2)
            if lost:
                self.bad(s, f"`{sorted(lost)[0]}` is updated in place in the loop but becomes shared inside it")
            for v in state:
                if e2[v][1] != env[v][1]:
                    self.bad(s, f"loop variable `{v}` changes type inside the loop")
        has_ret, full, retk, rname = self.loop_return(s, ctx, state, st_val, chk_own)
        loop_ctx = Ctx(ret=retk, fall=lambda e2: (chk_own(e2), Term(f"inl {par(full(e2))}", True))[1],
                       brk=lambda e2: (chk_own(e2), Term(f"inr {par(full(e2))}", True))[1],
                       cont=lambda e2: (chk_own(e2), Term(f"inl {par(full(e2))}", True))[1])
        self.in_loop += 1
        self.loop_index.append(ivar)
        try:
            body = self.block(list(s.body), env_in, loop_ctx)
        finally:
            self.in_loop -= 1
            self.loop_index.pop()
        pat = tuple_pat(names + ([rname] if has_ret else []))
        loop = Term(f"for_range {par(lo)} {par(hi)} (fun {ivar} {pat} =>\n{indent(mon(body))})\n{par(full(env))}", False)
        env_after = {k2: v2 for k2, v2 in env.items() if k2 != s.target.id}
        return self.after_loop(has_ret, rname, names, loop, rest, env_after, ctx)

    # ---- the whole function ----------------------------------------------------------------
    def translate(self, cur_section: str):
        self.cur_section = cur_section
        spec, fdef = self.spec, self.fdef
        a = fdef.args
        if a.vararg or a.kwarg or a.kwonlyargs or a.posonlyargs:
            self.bad(fdef, "*args / **kwargs / keyword-only parameters")
        pyparams = list(a.args)
        decos = [ast.unparse(d) for d in fdef.decorator_list]
        if spec.cls is not None and not spec.static:
            if not pyparams or pyparams[0].arg != "self":
                self.bad(fdef, "method without `self`")
            pyparams = pyparams[1:]
        if ("staticmethod" in decos) != bool(spec.static):
            self.bad(fdef, "the client table and the source disagree on @staticmethod")
        for d in decos:
            if d not in ("staticmethod", "torch.compiler.disable"):      # neither changes what the body computes
                self.bad(fdef, f"decorator @{d}")
        defaults = [None] * (len(pyparams) - len(a.defaults)) + list(a.defaults)
        env = {}
        coq_params = []
        for attr, t in spec.fields:
            cn = "self_" + attr
            env["self." + attr] = (cn, t)
            coq_params.append((cn, t))
        for attr, (code, t) in spec.field_consts.items():
            env["self." + attr] = (code, t)
        sig_params = []
        for p, d in zip(pyparams, defaults):
            if spec.skip_params == "*" or p.arg in spec.skip_params:
                continue
            t = self.ann_type(p.annotation, p.arg, p)
            env[p.arg] = ("v_" + p.arg, t)
            coq_params.append(("v_" + p.arg, t))
            dcode = None
            if d is not None and isinstance(d, ast.Constant) and d.value is None:
                d = None            # a None default: a translated caller has to pass the argument
            if d is not None:
                if not (isinstance(d, ast.Constant) and isinstance(d.value, int) and not isinstance(d.value, bool) and t == "Z"):
                    self.bad(d, "default value other than an int literal")
                dcode = f"({d.value})%Z" if d.value < 0 else f"{d.value}%Z"
            sig_params.append((p.arg, t, dcode))
        for cn, t in spec.extra_params:
            coq_params.append((cn, t))
        for v, t in spec.segment_inputs:
            env[v] = ("v_" + v, t)
            coq_params.append(("v_" + v, t))
        for i in range(spec.draws):
            coq_params.append((f"draw_{i}", "T"))

        writes = list(spec.writes)
        for w in writes:
            if "self." + w not in env:
                self.bad(fdef, f"written field self.{w} is not among the declared fields")

        def ret(c, t, e2):
            comps = []
            if isinstance(spec.returns, tuple) and spec.returns[0] == "option":
                # Optional[X]: a bare `return` / falling off the end is None, `return e` is Some e
                if c is None:
                    comps.append("None")
                elif t != spec.returns[1]:
                    self.bad(fdef, f"returns a value of type {t}, the client declares Optional[{spec.returns[1]}]")
                else:
                    comps.append(f"Some {par(c)}")
            elif spec.returns is not None:
                if c is None:
                    self.bad(fdef, "a path returns nothing although the client declares a returned value")
                if t != spec.returns:
                    self.bad(fdef, f"returns a value of type {t}, the client declares {spec.returns}")
                comps.append(c)
            elif c is not None:
                self.bad(fdef, "returns a value although the client declares none")
            comps += [e2["self." + w][0] for w in writes]
            comps += [e2[m][0] for m in spec.mutated_params]
            return Term(tuple_val(comps), True)

        body = list(fdef.body)
        if spec.segment_expr is not None:
            want = " ".join(spec.segment_expr.split())
            occ = [n for n in ast.walk(fdef) if isinstance(n, ast.expr) and " ".join(ast.unparse(n).split()) == want]
            if not occ:
                self.bad(fdef, f"expression `{want}` not found in the function")
            asg = ast.Assign(targets=[ast.Name(id="seg_value", ctx=ast.Store())], value=occ[0])
            ast.copy_location(asg, occ[0])
            ast.fix_missing_locations(asg)
            body = [asg]
            self.segment_span = (min(n.lineno for n in occ), max(n.end_lineno for n in occ))
        if spec.segment_stmt is not None:
            found = []

            starts = lambda st, txt: " ".join(ast.unparse(st).split()).startswith(txt) and (
                txt != spec.segment_stmt or spec.segment_contains is None
                or spec.segment_contains in " ".join(ast.unparse(st).split()))

            def search(stmts):
                for j, st in enumerate(stmts):
                    if starts(st, spec.segment_stmt):
                        if spec.segment_last is None:
                            found.append([st])
                        else:
                            ends = [k2 for k2 in range(j, len(stmts)) if starts(stmts[k2], spec.segment_last)]
                            if ends:
                                found.append(list(stmts[j:ends[0] + 1]))
                    elif isinstance(st, ast.With):
                        search(st.body)
                    elif isinstance(st, (ast.For, ast.While)) and spec.segment_deep:
                        search(st.body)
                    elif isinstance(st, ast.If) and spec.segment_deep:
                        search(st.body)
                        search(st.orelse)
            search(body)
            if len(found) != 1:
                self.bad(fdef, f"segment `{spec.segment_stmt}...` found {len(found)} times, expected once")
            body = found[0]
            self.segment_span = (body[0].lineno, body[-1].end_lineno)
        if spec.start_after is not None:
            idx = [i for i, st in enumerate(body) if spec.start_after in ast.unparse(st)]
            if len(idx) != 1:
                self.bad(fdef, f"marker statement `{spec.start_after}` not found exactly once")
            body = body[idx[0] + 1:]
        if spec.stop_before is not None:
            idx = [i for i, st in enumerate(body) if spec.stop_before in ast.unparse(st)]
            if len(idx) != 1:
                self.bad(fdef, f"marker statement `{spec.stop_before}` not found exactly once")
            body = body[:idx[0]]
        if (spec.start_after is not None or spec.stop_before is not None) and body:
            self.segment_span = (body[0].lineno, body[-1].end_lineno)
        ctx = Ctx(ret=ret, fall=lambda e2: ret(None, None, e2))
        if spec.segment_outputs:
            # a segment of a larger function: its value is the listed locals at its end; it must not return
            def seg_end(e2):
                for v, t in spec.segment_outputs:
                    if v not in e2 or e2[v][1] != t:
                        self.bad(fdef, f"the segment does not define `{v}` of type {t} on every path")
                return Term(tuple_val([e2[v][0] for v, _ in spec.segment_outputs]), True)
            for st in body:
                for n in ast.walk(st):
                    if isinstance(n, ast.Return):
                        self.bad(n, "return inside a translated segment")
            ctx = Ctx(ret=None, fall=seg_end)
        recursive = any(isinstance(n, ast.Call) and isinstance(n.func, ast.Attribute) and n.func.attr == fdef.name
                        and isinstance(n.func.value, ast.Name) and n.func.value.id == "self" for n in ast.walk(fdef))
        if spec.cls is None:
            recursive = any(isinstance(n, ast.Call) and isinstance(n.func, ast.Name) and n.func.id == fdef.name
                            for n in ast.walk(fdef))
        rtypes = ([spec.returns] if spec.returns is not None else []) + [dict(spec.fields)[w] for w in writes]
        rtypes += [env[m][1] for m in spec.mutated_params]
        if spec.segment_outputs:
            rtypes = [t for _, t in spec.segment_outputs]
        rty = " * ".join(par(self.coq_type(t)) for t in rtypes) if len(rtypes) > 1 else \
            (self.coq_type(rtypes[0]) if rtypes else "unit")
        if recursive:
            if not spec.fuel:
                self.bad(fdef, "a recursive function declared without fuel")
            # the function itself is in the table under its own name with fuel' as fuel
            self.table = dict(self.table)
            self.table[fdef.name] = dict(coq=spec.coq, section=cur_section, prefix=spec.prefix, fuel=True,
                                         fields=list(spec.fields), params=sig_params, returns=spec.returns,
                                         writes=writes)
            self.fuel_var = "fuel'"
        term = self.block(body, env, ctx)
        if len(self.draw_of) != spec.draws:
            self.bad(fdef, f"{len(self.draw_of)} random draws found, the client declares {spec.draws}")
        if self.uses_fuel and not spec.fuel:
            self.bad(fdef, "loops / recursion in a function declared without fuel")
        if self.unit.variables:
            term = Term(f"let _ := ({', '.join(self.unit.variables)}) in  (* fixes the signature: all operations *)\n"
                        + mon(term), False)
        binder = " ".join(f"({n} : {self.coq_type(t)})" for n, t in coq_params)
        fuelb = "(fuel : nat) " if spec.fuel else ""
        if recursive:
            code = (f"Fixpoint {spec.coq} {fuelb}{binder} {{struct fuel}} : res ({rty}) :=\n"
                    f"  match fuel with\n  | O => OutOfFuel\n  | S fuel' =>\n{indent(mon(term), 4)}\n  end.")
        else:
            code = f"Definition {spec.coq} {fuelb}{binder} : res ({rty}) :=\n{indent(mon(term))}."
        sig = dict(coq=spec.coq, section=cur_section, prefix=spec.prefix, fuel=spec.fuel, fields=list(spec.fields),
                   params=sig_params, returns=spec.returns, writes=writes)
        return code, sig


# ------------------------------------------------------------------------------------------------
# locating functions in the source, driving the translation of a client
# ------------------------------------------------------------------------------------------------
def find_function(tree: ast.Module, cls: str | None, name: str):
    scope = tree.body
    if cls is not None:
        cs = [n for n in tree.body if isinstance(n, ast.ClassDef) and n.name == cls]
        if len(cs) != 1:
            return None
        scope = cs[0].body
    fs = [n for n in scope if isinstance(n, ast.FunctionDef) and n.name == name]
    return fs[0] if len(fs) == 1 else None


def translate_client(client: Client, repo: Path):
    """Returns (coq_text, functions, failures).  functions: metadata of every registered function
    (also the ones that could not be translated); failures: human-readable reasons (fail closed)."""
    out = [f"(* GENERATED by harness/pytrans.py from the source tree {repo} — do not edit.\n"
           f"   Re-generated on every run of ./check {client.pid}; proved equal to the hand-written model in\n"
           f"   {client.equiv}. *)",
           client.imports, ""]
    functions, failures = [], []
    table = {}
    for unit in client.units:
        path = repo / unit.file
        try:
            src = path.read_text()
            tree = ast.parse(src)
        except Exception as ex:  # the file is gone or does not parse: fail closed
            failures.append(f"{unit.file}: cannot read/parse the source: {ex}")
            for spec in unit.functions:
                functions.append(dict(function=f"{spec.cls + '.' if spec.cls else ''}{spec.name}", file=unit.file,
                                      lines=None, sha256=None, coq=spec.coq, translated=False))
            continue
        for (rc, rf, rtext) in unit.requires:
            rdef = find_function(tree, rc, rf)
            want = " ".join(rtext.split())
            if rdef is None or not any(" ".join(ast.unparse(st).split()) == want for st in ast.walk(rdef)
                                       if isinstance(st, ast.stmt)):
                failures.append(f"{unit.file}: {rc}.{rf} no longer contains the statement `{want}` that the "
                                f"translation table relies on")
        out.append(f"Section {unit.section}.\n{unit.context}\n")
        for spec in unit.functions:
            qual = f"{spec.cls + '.' if spec.cls else ''}{spec.name}"
            meta = dict(function=qual, file=unit.file, lines=None, sha256=None, coq=spec.coq, translated=False,
                        equivalence_theorem=spec.theorem)
            functions.append(meta)
            fdef = find_function(tree, spec.cls, spec.name)
            if fdef is None:
                failures.append(f"{unit.file}: function {qual} not found (renamed or removed entry point)")
                continue
            seg = ast.get_source_segment(src, fdef) or ""
            meta["lines"] = [fdef.lineno, fdef.end_lineno]
            meta["sha256"] = hashlib.sha256(seg.encode()).hexdigest()
            try:
                tr = FnTranslator(unit, spec, fdef, table, unit.file)
                code, sig = tr.translate(unit.section)
            except Untranslatable as u:
                failures.append(f"{qual}: " + u.describe(unit.file))
                continue
            except RecursionError:
                failures.append(f"{qual}: translator recursion limit (function too large for the subset)")
                continue
            table[spec.name] = sig
            meta["translated"] = True
            span = getattr(tr, "segment_span", None)
            if span is not None:       # a segment of the function: report (and hash) the translated lines only
                seg = "\n".join(src.splitlines()[span[0] - 1:span[1]])
                meta["lines"] = [span[0], span[1]]
                meta["sha256"] = hashlib.sha256(seg.encode()).hexdigest()
                meta["segment_of"] = qual
            out.append(f"(* {unit.file}:{meta['lines'][0]}-{meta['lines'][1]}  {qual}"
                       f"{' (segment)' if 'segment_of' in meta else ''}  sha256={meta['sha256'][:16]} *)")
            out.append(code + "\n")
        out.append(f"End {unit.section}.\n")
    return "\n".join(out), functions, failures


# ------------------------------------------------------------------------------------------------
# registered clients
# ------------------------------------------------------------------------------------------------
C06_CARRIER = Carrier(T="T", ops={"mul": "n_mul O", "ltb": "n_ltb O", "trunc": "n_trunc O"},
                      consts={0.5: "n_half O"})

CLIENTS: dict[str, Client] = {}

CLIENTS["C06"] = Client(
    pid="C06",
    imports="From Coq Require Import List ZArith Bool.\nFrom AgileV Require Import TR.PyLib C06.Model.",
    equiv="coq/gen/C06_equiv.v",
    units=[Unit(
        file="agilerl/algorithms/core/registry.py", section="GenRLParameter",
        context="Context {T : Type} (O : numops T).", carrier=C06_CARRIER,
        functions=[FnSpec(
            cls="RLParameter", name="mutate", coq="RLParameter_mutate",
            fields=[("min", "T"), ("max", "T"), ("shrink_factor", "T"), ("grow_factor", "T"),
                    ("dtype", "numtype"), ("value", "T")],
            writes=["value"], returns="T", draws=1, theorem="C06_translated_mutate_is_model",
            expr_shapes={"torch.rand(1).item()": "draw"})])])


FUN2 = ("fun", ["T", "T"], "T")
C11_TREE_FIELDS = [("capacity", "Z"), ("tree", ("list", "T")), ("operation", FUN2)]
C11_CARRIER = Carrier(T="C", ops={"add": "c_add C", "sub": "c_sub C", "mul": "c_mul C", "div": "c_div C",
                                  "ltb": "c_ltb C", "leb": "c_leb C"},
                      consts={0.0: "c_zero C", 1.0: "c_one C", 1e-5: "c_eps C"})
C11_SUM_FIELDS = [("capacity", "Z"), ("tree", ("list", "T"))]
C11_SUM_CONSTS = {"operation": ("(c_add C)", FUN2)}

CLIENTS["C11"] = Client(
    pid="C11",
    imports="From Coq Require Import List ZArith Bool.\nFrom AgileV Require Import TR.PyLib C11.Model.",
    equiv="coq/gen/C11_equiv.v",
    units=[
        Unit(file="agilerl/components/segment_tree.py", section="GenSegmentTree",
             context="Context {T : Type}.", carrier=Carrier(T="T"),
             functions=[
                 FnSpec(cls="SegmentTree", name="__setitem__", coq="SegmentTree_setitem", fields=C11_TREE_FIELDS,
                        writes=["tree"], returns=None, params={"val": "T"}, fuel=True,
                        theorem="C11_translated_setitem_is_model"),
                 FnSpec(cls="SegmentTree", name="_operate_helper", coq="SegmentTree_operate_helper",
                        fields=C11_TREE_FIELDS, returns="T", fuel=True,
                        theorem="C11_translated_operate_helper_is_model"),
                 FnSpec(cls="SegmentTree", name="operate", coq="SegmentTree_operate", fields=C11_TREE_FIELDS,
                        returns="T", fuel=True, theorem="C11_translated_operate_is_model"),
             ]),
        Unit(file="agilerl/components/segment_tree.py", section="GenSumSegmentTree",
             context="Variable C : carrier.", carrier=C11_CARRIER,
             requires=[("SumSegmentTree", "__init__",
                        "super().__init__(capacity=capacity, operation=operator.add, init_value=0.0)")],
             functions=[
                 FnSpec(cls="SumSegmentTree", name="sum", coq="SumSegmentTree_sum", fields=C11_SUM_FIELDS,
                        field_consts=C11_SUM_CONSTS, returns="T", fuel=True,
                        theorem="C11_translated_sum_is_model"),
                 FnSpec(cls="SumSegmentTree", name="retrieve", coq="SumSegmentTree_retrieve", fields=C11_SUM_FIELDS,
                        field_consts=C11_SUM_CONSTS, returns="Z", fuel=True,
                        theorem="C11_translated_retrieve_is_model"),
             ]),
        # the power-of-two capacity of the trees: a SEGMENT of PrioritizedReplayBuffer.__init__ (between the statement
        # that sets tree_ptr and the construction of the sum tree)
        Unit(file="agilerl/components/replay_buffer.py", section="GenPerInit", context="", carrier=Carrier(T="unit"),
             functions=[
                 FnSpec(cls="PrioritizedReplayBuffer", name="__init__", coq="PrioritizedReplayBuffer_tree_capacity",
                        skip_params=["alpha", "device", "dtype"], fuel=True,
                        start_after="self.tree_ptr = 0", stop_before="self.sum_tree = SumSegmentTree(",
                        segment_outputs=[("tree_capacity", "Z")],
                        theorem="C11_translated_tree_capacity_is_model"),
             ]),
    ])


# ---- C09: ReplayBuffer.add -------------------------------------------------------------------------
def stmt_like(template: str):
    """matcher: the statement equals the template up to a consistent renaming of locals (comments, layout and
    docstrings do not matter: the comparison is on the AST)"""
    want = alpha_dump(ast.parse(template.strip("\n")).body[0])
    return lambda s: alpha_dump(s) == want


def skip_stmt(tr, s, rest, env, ctx):
    return tr.block(rest, env, ctx)


def is_rows_shape0(e, env):
    return (isinstance(e, ast.Subscript) and isinstance(e.slice, ast.Constant) and e.slice.value == 0
            and isinstance(e.value, ast.Attribute) and e.value.attr == "shape" and isinstance(e.value.value, ast.Name)
            and e.value.value.id in env and is_list(env[e.value.value.id][1]))


def rows_shape0(tr, e, env, k):
    return k(f"zlen {env[e.value.value.id][0]}", "Z")


ROWS = ("list", ("opaque", "A"))
# statements of ReplayBuffer.add that are ABSTRACTED (trusted shape table, see design.d/TR.md): they move the batch to
# the buffer's device, give 1-D fields a trailing unit axis and allocate the storage on first use; none of them changes
# the number, the order or the identity of the rows of `data`, nor the cursor / size arithmetic.
C09_ADD_SKIPPED = [
    "data = data.to(self.device)",
    """
for key, value in data.items():
    if is_tensor_collection(value):
        value: TensorDictBase = value
        for k, v in value.items():
            if v.ndim == 1:
                value[k] = v.reshape(_n_transitions, 1)
    else:
        if value.ndim == 1:
            value = value.reshape(_n_transitions, 1)

    data[key] = value
""",
    """
if self._storage is None:
    self._init(data)
""",
]

CLIENTS["C09"] = Client(
    pid="C09",
    imports="From Coq Require Import List ZArith Bool.\nFrom AgileV Require Import TR.PyLib.",
    equiv="coq/gen/C09_equiv.v",
    units=[Unit(
        file="agilerl/components/replay_buffer.py", section="GenReplayBuffer",
        context="Context {A : Type}.", carrier=Carrier(T="unit"),
        functions=[FnSpec(
            cls="ReplayBuffer", name="add", coq="ReplayBuffer_add",
            fields=[("max_size", "Z"), ("_cursor", "Z"), ("_size", "Z"), ("counter", "Z"), ("_storage", ROWS)],
            writes=["_storage", "_cursor", "_size", "counter"], returns=None, params={"data": ROWS},
            expr_matchers=[(is_rows_shape0, rows_shape0)],
            stmt_shapes=[(stmt_like(t), skip_stmt) for t in C09_ADD_SKIPPED],
            theorem="C09_translated_add_is_model")])])


# ---- C03: calc_max_kernel_sizes --------------------------------------------------------------------
def is_np_floor_div(e, env):
    return (isinstance(e, ast.Call) and ast.unparse(e.func) == "np.floor" and len(e.args) == 1 and not e.keywords
            and isinstance(e.args[0], ast.BinOp) and isinstance(e.args[0].op, ast.Div))


def np_floor_div(tr, e, env, k):
    """np.floor(a / b) on int-valued operands (Python ints or the int-valued float64 a previous np.floor produced):
    read as floor division on Z — exact while |a|, |b| < 2^26 (binary64 division of such integers, then floor, is the
    floor of the exact quotient); b = 0 is reported as ZeroDivisionError (numpy would produce inf/nan or raise)."""
    d = e.args[0]
    return tr.expr(d.left, env, lambda ac, at: tr.expr(d.right, env, lambda bc, bt: (
        tr.hoist(e, f"zfloordiv {par(ac)} {par(bc)}", "Z", k) if at == "Z" and bt == "Z"
        else tr.bad(e, f"np.floor(a / b) on operands of types {at}, {bt}"))))


CLIENTS["C03"] = Client(
    pid="C03",
    imports="From Coq Require Import List ZArith Bool.\nImport ListNotations.\nFrom AgileV Require Import TR.PyLib.",
    equiv="coq/gen/C03_equiv.v",
    units=[Unit(
        file="agilerl/utils/evolvable_networks.py", section="GenCnnArith", context="", carrier=Carrier(T="unit"),
        functions=[FnSpec(
            cls=None, name="calc_max_kernel_sizes", coq="calc_max_kernel_sizes",
            returns=("list", "Z"), params={"max_kernel_list": ("list", "Z")},
            expr_matchers=[(is_np_floor_div, np_floor_div)],
            theorem="C03_translated_calc_max_kernel_sizes_is_model")])])


# ---- C10: MultiStepReplayBuffer._get_n_step_info ---------------------------------------------------
TR_T = ("opaque", "Tr")          # a TensorDict transition (one batch row per environment)
KEY_T = ("opaque", "key")        # the name of a TensorDict entry


def is_clone(e, env):
    return FnTranslator.is_fresh(e)


def clone_id(tr, e, env, k):
    """<e>.clone(): a new object with the same value (the translator tracks that the bound local is exclusively owned)"""
    return tr.expr(e.func.value, env, lambda c, t: k(c, t) if tr.is_object(t)
                   else tr.bad(e, f".clone() of a value of type {t}"))


def is_bool_any(e, env):
    return (isinstance(e, ast.Call) and not e.args and isinstance(e.func, ast.Attribute) and e.func.attr == "any"
            and isinstance(e.func.value, ast.Call) and not e.func.value.args
            and isinstance(e.func.value.func, ast.Attribute) and e.func.value.func.attr == "bool")


def bool_any(tr, e, env, k):
    return tr.expr(e.func.value.func.value, env, lambda c, t: k(f"tany {par(c)}", "bool") if t == "T"
                   else tr.bad(e, f".bool().any() of a value of type {t}"))


def is_times_gamma_pow(e, env):
    return (isinstance(e, ast.BinOp) and isinstance(e.op, ast.Mult) and isinstance(e.right, ast.BinOp)
            and isinstance(e.right.op, ast.Pow) and ast.unparse(e.right.left) == "self.gamma")


def times_gamma_pow(tr, e, env, k):
    """<tensor> * (self.gamma ** <int>)"""
    return tr.expr(e.left, env, lambda ac, at: tr.expr(e.right.right, env, lambda bc, bt: (
        k(f"tscale {par(ac)} (gpow {par(bc)})", "T") if at == "T" and bt == "Z"
        else tr.bad(e, f"<tensor> * self.gamma ** <int> on operands of types {at}, {bt}"))))


# abstracted (trusted shape table): the one-off detection of the entry names on the first call.  It only reads the
# first transition's keys and fixes self.done_key; the translated code takes the three entry names as given.
C10_INFO_SKIPPED = ["""
if not self.initialized:
    assert (
        self.reward_key in self.n_step_buffer[0]
    ), "Reward key not found in transition"
    assert (
        self.ns_key in self.n_step_buffer[0]
    ), "Next observation key not found in transition"

    done_key = None
    for key in ["done", "termination", "terminated"]:
        if key in self.n_step_buffer[0]:
            done_key = key
            break

    assert done_key is not None, "No done/termination key found in transition"
    self.done_key = done_key
"""]

def is_super_add(s):
    return (isinstance(s, ast.Expr) and isinstance(s.value, ast.Call) and ast.unparse(s.value.func) == "super().add"
            and len(s.value.args) == 1 and not s.value.keywords)


def super_add(tr, s, rest, env, ctx):
    """super().add(x): ReplayBuffer.add on the parent's part of the object (abstract state `_parent`, abstract operation
    parent_add; the C09 tie is about that method itself)"""
    def done(c, t):
        if t != TR_T:
            tr.bad(s, f"super().add of a value of type {t}")
        env2, cn = tr.bind_var("self._parent", env, ("opaque", "Store"), s)
        return let_(cn, Term(f"parent_add {env['self._parent'][0]} {par(c)}", True), tr.block(rest, env2, ctx))
    return tr.expr(s.value.args[0], env, done)


CLIENTS["C10"] = Client(
    pid="C10",
    imports=("From Coq Require Import List ZArith Bool.\nImport ListNotations.\nFrom AgileV Require Import TR.PyLib.\n"
             "(* deque(maxlen=n).append(x): the last n entries of l ++ [x] *)\n"
             "Definition zdq_append {A : Type} (n : Z) (l : list A) (x : A) : list A :=\n"
             "  let l' := l ++ [x] in skipn (length l' - Z.to_nat n) l'."),
    equiv="coq/gen/C10_equiv.v",
    units=[Unit(
        file="agilerl/components/replay_buffer.py", section="GenNStep",
        context=("Context {Tr Ten Sc key : Type}.\n"
                 "Variables (k_reward k_done k_ns : key).        (* self.reward_key, self.done_key, self.ns_key *)\n"
                 "Variable tget : key -> Tr -> Ten.              (* td[key] *)\n"
                 "Variable tset : key -> Tr -> Ten -> Tr.        (* td[key] = tensor, on an owned td *)\n"
                 "Variable tany : Ten -> bool.                   (* t.bool().any() *)\n"
                 "Variable tadd : Ten -> Ten -> Ten.             (* t + u (elementwise) *)\n"
                 "Variable tscale : Ten -> Sc -> Ten.            (* t * python float *)\n"
                 "Variable gpow : Z -> Sc.                       (* self.gamma ** k *)\n"
                 "Context {Store : Type}.\n"
                 "Variable parent_add : Store -> Tr -> Store.    (* super().add(td): ReplayBuffer.add on the parent part *)"),
        carrier=Carrier(T="Ten", ops={"add": "tadd"}),
        variables=["k_reward", "k_done", "k_ns", "tget", "tset", "tany", "tadd", "tscale", "gpow", "parent_add"],
        object_types=["T", TR_T],
        item_get={(TR_T, KEY_T): ("tget", "T")}, item_set={(TR_T, KEY_T, "T"): "tset"},
        functions=[FnSpec(
            cls="MultiStepReplayBuffer", name="_get_n_step_info", coq="MultiStepReplayBuffer_get_n_step_info",
            fields=[("n_step_buffer", ("list", TR_T))],
            field_consts={"reward_key": ("k_reward", KEY_T), "done_key": ("k_done", KEY_T), "ns_key": ("k_ns", KEY_T)},
            returns=TR_T,
            expr_matchers=[(is_clone, clone_id), (is_bool_any, bool_any), (is_times_gamma_pow, times_gamma_pow)],
            stmt_shapes=[(stmt_like(t), skip_stmt) for t in C10_INFO_SKIPPED],
            theorem="C10_translated_n_step_info_is_model"),
            FnSpec(
            cls="MultiStepReplayBuffer", name="add", coq="MultiStepReplayBuffer_add",
            fields=[("n_step", "Z"), ("n_step_buffer", ("list", TR_T)), ("_parent", ("opaque", "Store"))],
            writes=["n_step_buffer", "_parent"], deques={"n_step_buffer": "n_step"},
            field_consts={"reward_key": ("k_reward", KEY_T), "done_key": ("k_done", KEY_T), "ns_key": ("k_ns", KEY_T)},
            returns=("option", TR_T), params={"data": TR_T},
            stmt_shapes=[(stmt_like("data = data.to(self.device)"), skip_stmt), (is_super_add, super_add)],
            theorem="C10_translated_add_is_model")],
        requires=[("MultiStepReplayBuffer", "__init__", "self.n_step_buffer: Deque[TensorDict] = deque(maxlen=n_step)"),
                  ("MultiStepReplayBuffer", "__init__", "self.n_step = n_step")])])


# ---- C15: maybe_add_batch_dim ------------------------------------------------------------------------
TN_T = ("opaque", "Tn")          # an observation array (numpy) or tensor (torch)


def call_shape(fn_src=None, method=None, nargs=None, star_last=False):
    """matcher for  <fn_src>(args)  or  <obj>.<method>(args)  with nargs arguments (the last one starred if star_last)"""
    def m(e, env):
        if not isinstance(e, ast.Call) or e.keywords or len(e.args) != nargs:
            return False
        if star_last != isinstance(e.args[-1], ast.Starred):
            return False
        if any(isinstance(a, ast.Starred) for a in e.args[:-1]):
            return False
        if fn_src is not None:
            return ast.unparse(e.func) == fn_src
        return isinstance(e.func, ast.Attribute) and e.func.attr == method
    return m


def c15_obj(tr, node, env, k, coq, want_args, monadic=False, result=TN_T):
    """<coq> applied to the translated arguments, whose types must be want_args"""
    def done(vals):
        if [t for _, t in vals] != want_args:
            tr.bad(node, f"arguments of types {[t for _, t in vals]}, the shape table expects {want_args}")
        code = f"{coq} " + " ".join(par(c) for c, _ in vals)
        return tr.hoist(node, code, result, k) if monadic else k(code, result)
    return done


def c15_expand_dims(tr, e, env, k):           # np.expand_dims(obs, 0)
    if not (isinstance(e.args[1], ast.Constant) and e.args[1].value == 0):
        tr.bad(e, "np.expand_dims on an axis other than 0")
    return tr.exprs([e.args[0]], env, c15_obj(tr, e, env, k, "np_expand_dims0", [TN_T]))


def c15_unsqueeze(tr, e, env, k):             # obs.unsqueeze(0)
    if not (isinstance(e.args[0], ast.Constant) and e.args[0].value == 0):
        tr.bad(e, "unsqueeze on an axis other than 0")
    return tr.exprs([e.func.value], env, c15_obj(tr, e, env, k, "t_unsqueeze0", [TN_T]))


def c15_rows(coq):                             # obs.reshape(-1, *space_shape) / obs.view(-1, *space_shape)
    def h(tr, e, env, k):
        if ast.unparse(e.args[0]) != "-1":
            tr.bad(e, "reshape/view whose first extent is not -1")
        return tr.exprs([e.func.value, e.args[1].value], env, c15_obj(tr, e, env, k, coq, [TN_T, ("list", "Z")], True))
    return h


def c15_isinstance_np(tr, e, env, k):         # isinstance(obs, np.ndarray)
    if ast.unparse(e.args[1]) != "np.ndarray":
        tr.bad(e, "isinstance against a class other than np.ndarray")
    return tr.exprs([e.args[0]], env, c15_obj(tr, e, env, k, "is_ndarray", [TN_T], result="bool"))


def is_obj_shape(e, env):
    return (isinstance(e, ast.Attribute) and e.attr == "shape" and isinstance(e.value, ast.Name)
            and e.value.id in env and env[e.value.id][1] == TN_T)


def obj_shape(tr, e, env, k):
    return k(f"tshape {env[e.value.id][0]}", ("list", "Z"))


SP_T = ("opaque", "Sp")          # a gymnasium space
OB_T = ("opaque", "Ob")          # an observation: array, dict of arrays or tuple of arrays
OKEY_T = ("opaque", "okey")      # a key of a Dict observation / space


def isinstance_of(cls_src):
    def m(e, env):
        return (isinstance(e, ast.Call) and ast.unparse(e.func) == "isinstance" and len(e.args) == 2 and not e.keywords
                and ast.unparse(e.args[1]) == cls_src)
    return m


def sp_kind(coq):
    def h(tr, e, env, k):
        return tr.exprs([e.args[0]], env, c15_obj(tr, e, env, k, coq, [SP_T], result="bool"))
    return h


def attr_shape_of(typ):
    def m(e, env):
        return (isinstance(e, ast.Attribute) and e.attr == "shape" and isinstance(e.value, ast.Name)
                and e.value.id in env and env[e.value.id][1] == typ)
    return m


def shape_by(coq):
    def h(tr, e, env, k):
        return k(f"{coq} {env[e.value.id][0]}", ("list", "Z"))
    return h


def is_np_shape(e, env):
    return (isinstance(e, ast.Call) and ast.unparse(e.func) == "np.shape" and len(e.args) == 1 and not e.keywords)


def np_shape(tr, e, env, k):
    return tr.exprs([e.args[0]], env, c15_obj(tr, e, env, k, "ob_shape", [OB_T], result=("list", "Z")))


def sub0_of(typ):
    def m(e, env):
        return (isinstance(e, ast.Subscript) and isinstance(e.slice, ast.Constant) and e.slice.value == 0
                and isinstance(e.value, ast.Name) and e.value.id in env and env[e.value.id][1] == typ)
    return m


def sub0_by(coq, typ):
    def h(tr, e, env, k):
        return tr.hoist(e, f"{coq} {env[e.value.id][0]}", typ, k)
    return h


def is_sp_getitem(e, env):
    return (isinstance(e, ast.Subscript) and isinstance(e.value, ast.Name) and e.value.id in env
            and env[e.value.id][1] == SP_T and isinstance(e.slice, ast.Name) and e.slice.id in env
            and env[e.slice.id][1] == OKEY_T)


def sp_getitem(tr, e, env, k):
    return tr.hoist(e, f"sp_get {env[e.value.id][0]} {env[e.slice.id][0]}", SP_T, k)


def first_item_stmt(s):
    """first_key, first_obs = next(iter(<obs>.items()))"""
    if not (isinstance(s, ast.Assign) and len(s.targets) == 1 and isinstance(s.targets[0], ast.Tuple)
            and len(s.targets[0].elts) == 2 and all(isinstance(x, ast.Name) for x in s.targets[0].elts)):
        return False
    v = s.value
    return (isinstance(v, ast.Call) and ast.unparse(v.func) == "next" and len(v.args) == 1
            and isinstance(v.args[0], ast.Call) and ast.unparse(v.args[0].func) == "iter" and len(v.args[0].args) == 1
            and isinstance(v.args[0].args[0], ast.Call) and isinstance(v.args[0].args[0].func, ast.Attribute)
            and v.args[0].args[0].func.attr == "items" and not v.args[0].args[0].args
            and isinstance(v.args[0].args[0].func.value, ast.Name))


def first_item(tr, s, rest, env, ctx):
    oname = s.value.args[0].args[0].func.value.id
    if oname not in env or env[oname][1] != OB_T:
        tr.bad(s, "first item of something that is not an observation")
    env2, ck = tr.bind_var(s.targets[0].elts[0].id, env, OKEY_T, s)
    env2, co = tr.bind_var(s.targets[0].elts[1].id, env2, OB_T, s)
    return let_(f"'({ck}, {co})", Term(f"ob_first_item {env[oname][0]}", False), tr.block(rest, env2, ctx))


C15_VECT_CONTEXT = ("Context {Sp Ob okey : Type}.\n"
                    "Variables (sp_is_dict sp_is_tuple sp_is_multibinary : Sp -> bool).  (* isinstance(space, spaces.X) *)\n"
                    "Variable sp_shape : Sp -> list Z.                  (* space.shape *)\n"
                    "Variable ob_shape : Ob -> list Z.                  (* obs.shape / np.shape(obs) *)\n"
                    "Variable ob_first_item : Ob -> res (okey * Ob).    (* next(iter(obs.items())) *)\n"
                    "Variable sp_get : Sp -> okey -> res Sp.            (* space[key] *)\n"
                    "Variable ob_first : Ob -> res Ob.                  (* obs[0] *)\n"
                    "Variable sp_first : Sp -> res Sp.                  (* space[0] *)")

CLIENTS["C15"] = Client(
    pid="C15",
    imports="From Coq Require Import List ZArith Bool.\nImport ListNotations.\nFrom AgileV Require Import TR.PyLib.",
    equiv="coq/gen/C15_equiv.v",
    units=[Unit(
        file="agilerl/utils/algo_utils.py", section="GenObsShape",
        context=("Context {Tn : Type}.\n"
                 "Variable tshape : Tn -> list Z.                       (* obs.shape *)\n"
                 "Variable is_ndarray : Tn -> bool.                     (* isinstance(obs, np.ndarray) *)\n"
                 "Variable np_expand_dims0 : Tn -> Tn.                  (* np.expand_dims(obs, 0) *)\n"
                 "Variable t_unsqueeze0 : Tn -> Tn.                     (* obs.unsqueeze(0) *)\n"
                 "Variable np_reshape_rows : Tn -> list Z -> res Tn.    (* obs.reshape(-1, *shape) *)\n"
                 "Variable t_view_rows : Tn -> list Z -> res Tn.        (* obs.view(-1, *shape) *)"),
        carrier=Carrier(T="unit"), object_types=[TN_T],
        variables=["tshape", "is_ndarray", "np_expand_dims0", "t_unsqueeze0", "np_reshape_rows", "t_view_rows"],
        functions=[FnSpec(
            cls=None, name="maybe_add_batch_dim", coq="maybe_add_batch_dim", returns=TN_T,
            params={"obs": TN_T, "space_shape": ("list", "Z")},
            expr_matchers=[(is_obj_shape, obj_shape),
                           (call_shape(fn_src="np.expand_dims", nargs=2), c15_expand_dims),
                           (call_shape(method="unsqueeze", nargs=1), c15_unsqueeze),
                           (call_shape(method="reshape", nargs=2, star_last=True), c15_rows("np_reshape_rows")),
                           (call_shape(method="view", nargs=2, star_last=True), c15_rows("t_view_rows")),
                           (call_shape(fn_src="isinstance", nargs=2), c15_isinstance_np)],
            theorem="C15_translated_maybe_add_batch_dim_is_model")]),
        Unit(
        file="agilerl/utils/algo_utils.py", section="GenVectDim", context=C15_VECT_CONTEXT,
        carrier=Carrier(T="unit"), object_types=[SP_T, OB_T],
        variables=["sp_is_dict", "sp_is_tuple", "sp_is_multibinary", "sp_shape", "ob_shape", "ob_first_item", "sp_get",
                   "ob_first", "sp_first"],
        functions=[FnSpec(
            cls=None, name="get_vect_dim", coq="get_vect_dim", returns="Z", fuel=True,
            params={"observation": OB_T, "observation_space": SP_T},
            expr_matchers=[(isinstance_of("spaces.Dict"), sp_kind("sp_is_dict")),
                           (isinstance_of("spaces.Tuple"), sp_kind("sp_is_tuple")),
                           (isinstance_of("spaces.MultiBinary"), sp_kind("sp_is_multibinary")),
                           (attr_shape_of(SP_T), shape_by("sp_shape")), (attr_shape_of(OB_T), shape_by("ob_shape")),
                           (is_np_shape, np_shape),
                           (sub0_of(OB_T), sub0_by("ob_first", OB_T)), (sub0_of(SP_T), sub0_by("sp_first", SP_T)),
                           (is_sp_getitem, sp_getitem)],
            stmt_shapes=[(first_item_stmt, first_item)],
            theorem="C15_translated_get_vect_dim_is_model")])])


# ---- C13: AsyncPettingZooVecEnv._poll_pipe_envs --------------------------------------------------------
PIPE_T = ("opaque", "Pipe")


def is_perf_counter(e, env):
    return isinstance(e, ast.Call) and ast.unparse(e) == "time.perf_counter()"


def perf_counter(tr, e, env, k):
    """time.perf_counter(): an abstract input.  The reading taken before the loop is the parameter clock_0, the reading
    taken in iteration i of the (single, innermost) for loop is clock_loop[i]; one reading per place (two readings would
    be two different times)."""
    seen = tr.__dict__.setdefault("clock_nodes", {})
    where = "loop" if tr.loop_index else "start"
    if seen.setdefault(where, id(e)) != id(e):
        tr.bad(e, "a second clock reading in the same place (each reading is a different time: not modelled)")
    if len(tr.loop_index) > 1:
        tr.bad(e, "clock reading inside nested loops")
    if tr.loop_index:
        return tr.hoist(e, f"zget clock_loop {tr.loop_index[-1]}", "T", k)
    return k("clock_0", "T")


def attr_of(typ, attr):
    def m(e, env):
        return (isinstance(e, ast.Attribute) and e.attr == attr and isinstance(e.value, ast.Name)
                and e.value.id in env and env[e.value.id][1] == typ)
    return m


def attr_by(coq, result):
    def h(tr, e, env, k):
        return k(f"{coq} {env[e.value.id][0]}", result)
    return h


def is_pipe_poll(e, env):
    return (isinstance(e, ast.Call) and isinstance(e.func, ast.Attribute) and e.func.attr == "poll" and len(e.args) == 1
            and not e.keywords and isinstance(e.func.value, ast.Name) and e.func.value.id in env
            and env[e.func.value.id][1] == PIPE_T)


def pipe_poll(tr, e, env, k):
    return tr.expr(e.args[0], env, lambda c, t: k(f"pipe_poll {env[e.func.value.id][0]} {par(c)}", "bool") if t == "T"
                   else tr.bad(e, f"poll with a timeout of type {t}"))


CLIENTS["C13"] = Client(
    pid="C13",
    imports="From Coq Require Import List ZArith Bool.\nImport ListNotations.\nFrom AgileV Require Import TR.PyLib.",
    equiv="coq/gen/C13_equiv.v",
    units=[Unit(
        file="agilerl/vector/pz_async_vec_env.py", section="GenPoll",
        context=("Context {Tm Pipe : Type}.\n"
                 "Variables (tm_add tm_sub : Tm -> Tm -> Tm) (tm_ltb : Tm -> Tm -> bool) (tm_zero : Tm).  (* float seconds *)\n"
                 "Variable pipe_none : Pipe -> bool.            (* pipe is None *)\n"
                 "Variable pipe_closed : Pipe -> bool.          (* pipe.closed *)\n"
                 "Variable pipe_poll : Pipe -> Tm -> bool.      (* pipe.poll(timeout) *)"),
        carrier=Carrier(T="Tm", ops={"add": "tm_add", "sub": "tm_sub", "ltb": "tm_ltb"}, consts={0.0: "tm_zero"}),
        variables=["tm_add", "tm_sub", "tm_ltb", "tm_zero", "pipe_none", "pipe_closed", "pipe_poll"],
        none_tests={PIPE_T: "pipe_none"},
        functions=[FnSpec(
            cls="AsyncPettingZooVecEnv", name="_poll_pipe_envs", coq="poll_pipe_envs",
            fields=[("parent_pipes", ("list", PIPE_T))], returns="bool", params={"timeout": "T"},
            extra_params=[("clock_0", "T"), ("clock_loop", ("list", "T"))],
            expr_matchers=[(is_perf_counter, perf_counter), (attr_of(PIPE_T, "closed"), attr_by("pipe_closed", "bool")),
                           (is_pipe_poll, pipe_poll)],
            stmt_shapes=[(stmt_like("self._assert_is_running()"), skip_stmt)],
            theorem="C13_translated_poll_is_model")])])


# ---- C14: DeterministicActor.rescale_action, StochasticActor.scale_action ------------------------------
def is_isinf_any(e, env):
    return (isinstance(e, ast.Call) and not e.args and isinstance(e.func, ast.Attribute) and e.func.attr == "any"
            and isinstance(e.func.value, ast.Call) and not e.func.value.args
            and isinstance(e.func.value.func, ast.Attribute) and e.func.value.func.attr == "isinf")


def isinf_any(tr, e, env, k):
    return tr.expr(e.func.value.func.value, env, lambda c, t: k(f"t_any_inf {par(c)}", "bool") if t == "T"
                   else tr.bad(e, f".isinf().any() of a value of type {t}"))


def is_isinstance_tensor(e, env):
    return (isinstance(e, ast.Call) and ast.unparse(e.func) == "isinstance" and len(e.args) == 2
            and ast.unparse(e.args[1]) == "torch.Tensor")


def isinstance_tensor(tr, e, env, k):
    return tr.expr(e.args[0], env, lambda c, t: k(f"is_tensor {par(c)}", "bool") if t == "T"
                   else tr.bad(e, f"isinstance(_, torch.Tensor) of a value of type {t}"))


def is_cpu_numpy(e, env):
    return (isinstance(e, ast.Call) and not e.args and isinstance(e.func, ast.Attribute) and e.func.attr == "numpy"
            and isinstance(e.func.value, ast.Call) and not e.func.value.args
            and isinstance(e.func.value.func, ast.Attribute) and e.func.value.func.attr == "cpu")


def cpu_numpy(tr, e, env, k):
    return tr.expr(e.func.value.func.value, env, lambda c, t: k(f"to_numpy {par(c)}", "T") if t == "T"
                   else tr.bad(e, f".cpu().numpy() of a value of type {t}"))


C14_MIXED = {("T", "add", "T"): ("t_add", "T"), ("T", "sub", "T"): ("t_sub", "T"), ("T", "mul", "T"): ("t_mul", "T"),
             ("T", "div", "S"): ("t_div_s", "T"), ("T", "sub", "S"): ("t_sub_s", "T"), ("T", "add", "S"): ("t_add_s", "T"),
             ("S", "mul", "T"): ("s_mul_t", "T"), ("S", "sub", "S"): ("s_sub", "S")}
C14_VARS = ["t_add", "t_sub", "t_mul", "t_div_s", "t_sub_s", "t_add_s", "s_mul_t", "s_sub", "s_m1", "s_0", "s_1", "s_half",
            "t_any_inf", "is_tensor", "to_numpy"]

CLIENTS["C14"] = Client(
    pid="C14",
    imports=("From Coq Require Import List ZArith Bool String.\nImport ListNotations.\n"
             "From AgileV Require Import TR.PyLib."),
    equiv="coq/gen/C14_equiv.v",
    units=[Unit(
        file="agilerl/networks/actors.py", section="GenActors",
        context=("Context {Ten Sc : Type}.\n"
                 "Variables (t_add t_sub t_mul : Ten -> Ten -> Ten).          (* element-wise tensor arithmetic *)\n"
                 "Variables (t_div_s t_sub_s t_add_s : Ten -> Sc -> Ten).     (* tensor (op) python float *)\n"
                 "Variable s_mul_t : Sc -> Ten -> Ten.                         (* python float * tensor *)\n"
                 "Variable s_sub : Sc -> Sc -> Sc.                             (* python float - python float *)\n"
                 "Variables (s_m1 s_0 s_1 s_half : Sc).                        (* the literals -1.0 0.0 1.0 0.5 *)\n"
                 "Variable t_any_inf : Ten -> bool.                            (* t.isinf().any() *)\n"
                 "Variable is_tensor : Ten -> bool.                            (* isinstance(t, torch.Tensor) *)\n"
                 "Variable to_numpy : Ten -> Ten.                              (* t.cpu().numpy() *)"),
        carrier=Carrier(T="Ten"), variables=C14_VARS, mixed_ops=C14_MIXED,
        scalar_consts={-1.0: "s_m1", 0.0: "s_0", 1.0: "s_1", 0.5: "s_half"},
        functions=[
            FnSpec(cls="DeterministicActor", name="rescale_action", coq="DeterministicActor_rescale_action", static=True,
                   returns="T", params={"action": "T", "low": "T", "high": "T", "output_activation": "str"},
                   expr_matchers=[(is_isinf_any, isinf_any)],
                   theorem="C14_translated_rescale_action_is_model"),
            FnSpec(cls="StochasticActor", name="scale_action", coq="StochasticActor_scale_action",
                   fields=[("action_low", "T"), ("action_high", "T")], returns="T", params={"action": "T"},
                   expr_matchers=[(is_isinstance_tensor, isinstance_tensor), (is_cpu_numpy, cpu_numpy)],
                   theorem="C14_translated_scale_action_is_model"),
        ])])


# ---- C08: soft_update of DQN / DDPG / TD3 ---------------------------------------------------------------
C08_MIXED = {("S", "mul", "T"): ("s_mul_t", "T"), ("T", "add", "T"): ("t_add", "T"), ("S", "sub", "S"): ("s_sub", "S")}
C08_CONTEXT = ("Context {Ten Sc : Type}.\n"
               "Variable s_mul_t : Sc -> Ten -> Ten.      (* python float * tensor *)\n"
               "Variable t_add : Ten -> Ten -> Ten.       (* tensor + tensor *)\n"
               "Variable s_sub : Sc -> Sc -> Sc.          (* python float - python float *)\n"
               "Variable s_1 : Sc.                        (* the literal 1.0 *)")
PARAMS_T = ("list", "T")


def c08_unit(section, file, functions):
    return Unit(file=file, section=section, context=C08_CONTEXT, carrier=Carrier(T="Ten"),
                variables=["s_mul_t", "t_add", "s_sub", "s_1"], mixed_ops=C08_MIXED, scalar_consts={1.0: "s_1"},
                list_views=["parameters"], elem_views=["data"], elem_copy=["copy_"], functions=functions)


CLIENTS["C08"] = Client(
    pid="C08",
    imports="From Coq Require Import List ZArith Bool.\nImport ListNotations.\nFrom AgileV Require Import TR.PyLib.",
    equiv="coq/gen/C08_equiv.v",
    units=[
        c08_unit("GenSoftDQN", "agilerl/algorithms/dqn.py", [FnSpec(
            cls="DQN", name="soft_update", coq="DQN_soft_update",
            fields=[("tau", "S"), ("actor", PARAMS_T), ("actor_target", PARAMS_T)], writes=["actor_target"],
            theorem="C08_translated_dqn_soft_update_is_model")]),
        c08_unit("GenSoftDDPG", "agilerl/algorithms/ddpg.py", [FnSpec(
            cls="DDPG", name="soft_update", coq="DDPG_soft_update", fields=[("tau", "S")],
            params={"net": PARAMS_T, "target": PARAMS_T}, mutated_params=["target"],
            theorem="C08_translated_ddpg_soft_update_is_model")]),
        c08_unit("GenSoftTD3", "agilerl/algorithms/td3.py", [FnSpec(
            cls="TD3", name="soft_update", coq="TD3_soft_update", fields=[("tau", "S")],
            params={"net": PARAMS_T, "target": PARAMS_T}, mutated_params=["target"],
            theorem="C08_translated_td3_soft_update_is_model")]),
    ])


# ---- C08: the Bellman target line of DQN.update / DDPG.learn / TD3.learn (one-statement segments) ------
C08_Y_MIXED = {("T", "add", "T"): ("t_add", "T"), ("T", "mul", "T"): ("t_mul", "T"), ("S", "mul", "T"): ("s_mul_t", "T"),
               ("T", "mul", "S"): ("t_mul_s", "T"), ("Z", "sub", "T"): ("z_sub_t", "T")}
C08_Y_CONTEXT = ("Context {Ten Sc : Type}.\n"
                 "Variables (t_add t_mul : Ten -> Ten -> Ten).   (* element-wise tensor arithmetic *)\n"
                 "Variable s_mul_t : Sc -> Ten -> Ten.            (* python float * tensor *)\n"
                 "Variable t_mul_s : Ten -> Sc -> Ten.            (* tensor * python float *)\n"
                 "Variable z_sub_t : Z -> Ten -> Ten.             (* python int - tensor *)")


def c08_y(section, file, cls, fn, coq, qname, thm):
    return Unit(file=file, section=section, context=C08_Y_CONTEXT, carrier=Carrier(T="Ten"),
                variables=["t_add", "t_mul", "s_mul_t", "t_mul_s", "z_sub_t"], mixed_ops=C08_Y_MIXED,
                functions=[FnSpec(cls=cls, name=fn, coq=coq, fields=[("gamma", "S")], segment_stmt="y_j = rewards",
                                  segment_inputs=[("rewards", "T"), (qname, "T"), ("dones", "T")],
                                  segment_outputs=[("y_j", "T")], skip_params="*", theorem=thm)])


CLIENTS["C08"].units += [
    c08_y("GenYDQN", "agilerl/algorithms/dqn.py", "DQN", "update", "DQN_update_y", "q_target",
          "C08_translated_dqn_target_is_model"),
    c08_y("GenYDDPG", "agilerl/algorithms/ddpg.py", "DDPG", "learn", "DDPG_learn_y", "q_value_next_state",
          "C08_translated_ddpg_target_is_model"),
    c08_y("GenYTD3", "agilerl/algorithms/td3.py", "TD3", "learn", "TD3_learn_y", "q_value_next_state",
          "C08_translated_td3_target_is_model"),
]


# ---- C17: the backward GAE loop of PPO.learn / IPPO._learn_individual (one-statement segments) ---------
def is_squeeze(e, env):
    return (isinstance(e, ast.Call) and not e.args and not e.keywords and isinstance(e.func, ast.Attribute)
            and e.func.attr == "squeeze")


def squeeze(tr, e, env, k):
    return tr.expr(e.func.value, env, lambda c, t: k(f"t_squeeze {par(c)}", "T") if t == "T"
                   else tr.bad(e, f".squeeze() of a value of type {t}"))


C17_MIXED = {("S", "sub", "T"): ("s_sub_t", "T"), ("S", "mul", "T"): ("s_mul_t", "T"), ("S", "mul", "S"): ("s_mul", "S"),
             ("T", "mul", "T"): ("t_mul", "T"), ("T", "add", "T"): ("t_add", "T"), ("T", "sub", "T"): ("t_sub", "T")}
C17_CONTEXT = ("Context {Ten Sc : Type}.\n"
               "Variables (t_add t_sub t_mul : Ten -> Ten -> Ten).   (* element-wise arithmetic on one time step (a row) *)\n"
               "Variables (s_sub_t s_mul_t : Sc -> Ten -> Ten).      (* python float (op) row *)\n"
               "Variable s_mul : Sc -> Sc -> Sc.                      (* python float * python float *)\n"
               "Variable s_1 : Sc.                                    (* the literal 1.0 *)\n"
               "Variable t_squeeze : Ten -> Ten.                      (* row.squeeze() *)")
ROWS_T = ("list", "T")


def c17_gae(section, file, cls, fn, coq, thm):
    return Unit(file=file, section=section, context=C17_CONTEXT, carrier=Carrier(T="Ten"),
                variables=["t_add", "t_sub", "t_mul", "s_sub_t", "s_mul_t", "s_mul", "s_1", "t_squeeze"],
                mixed_ops=C17_MIXED, scalar_consts={1.0: "s_1"},
                functions=[FnSpec(cls=cls, name=fn, coq=coq, fields=[("gamma", "S"), ("gae_lambda", "S")],
                                  segment_stmt="for t in reversed(range(num_steps))",
                                  segment_inputs=[("num_steps", "Z"), ("rewards", ROWS_T), ("values", ROWS_T),
                                                  ("dones", ROWS_T), ("next_value", "T"), ("next_done", "T"),
                                                  ("advantages", ROWS_T), ("last_gae_lambda", "T")],
                                  segment_outputs=[("advantages", ROWS_T)], skip_params="*",
                                  expr_matchers=[(is_squeeze, squeeze)], theorem=thm)])


CLIENTS["C17"] = Client(
    pid="C17",
    imports="From Coq Require Import List ZArith Bool.\nImport ListNotations.\nFrom AgileV Require Import TR.PyLib.",
    equiv="coq/gen/C17_equiv.v",
    units=[c17_gae("GenGaePPO", "agilerl/algorithms/ppo.py", "PPO", "learn", "PPO_learn_gae",
                   "C17_translated_ppo_gae_is_model"),
           c17_gae("GenGaeIPPO", "agilerl/algorithms/ippo.py", "IPPO", "_learn_individual", "IPPO_learn_gae",
                   "C17_translated_ippo_gae_is_model")])


# ---- C18: the index arithmetic of RainbowDQN._dqn_loss (t_z, b, L, u with the two fix-ups) -------------
def is_clamp_kw(e, env):
    return (isinstance(e, ast.Call) and not e.args and isinstance(e.func, ast.Attribute) and e.func.attr == "clamp"
            and sorted(kw.arg for kw in e.keywords) == ["max", "min"])


def clamp_kw(tr, e, env, k):
    lo = [kw.value for kw in e.keywords if kw.arg == "min"][0]
    hi = [kw.value for kw in e.keywords if kw.arg == "max"][0]

    def done(vals):
        (xc, xt), (lc, lt), (hc, ht) = vals
        if xt == "T" and lt == "S" and ht == "S":
            return k(f"t_clamp_s {par(lc)} {par(hc)} {par(xc)}", "T")
        if xt == "T" and lt == "Z" and ht == "Z":
            return k(f"t_clamp_z {par(lc)} {par(hc)} {par(xc)}", "T")
        tr.bad(e, f"clamp of a {xt} between a {lt} and a {ht}")
    return tr.exprs([e.func.value, lo, hi], env, done)


def round_long(which):
    def m(e, env):
        return (isinstance(e, ast.Call) and not e.args and not e.keywords and isinstance(e.func, ast.Attribute)
                and e.func.attr == "long" and isinstance(e.func.value, ast.Call) and not e.func.value.args
                and isinstance(e.func.value.func, ast.Attribute) and e.func.value.func.attr == which)
    return m


def round_long_by(coq):
    def h(tr, e, env, k):
        return tr.expr(e.func.value.func.value, env, lambda c, t: k(f"{coq} {par(c)}", "TL") if t == "T"
                       else tr.bad(e, f"rounding of a value of type {t}"))
    return h


CLIENTS["C18"] = Client(
    pid="C18",
    imports="From Coq Require Import List ZArith Bool.\nImport ListNotations.\nFrom AgileV Require Import TR.PyLib.",
    equiv="coq/gen/C18_equiv.v",
    units=[Unit(
        file="agilerl/algorithms/dqn_rainbow.py", section="GenProjection",
        context=("Context {Ten TenL Mask Sc : Type}.\n"
                 "Variables (t_add t_mul : Ten -> Ten -> Ten).           (* element-wise float tensor arithmetic *)\n"
                 "Variable z_sub_t : Z -> Ten -> Ten.                     (* python int - tensor *)\n"
                 "Variables (t_mul_s t_sub_s t_div_s : Ten -> Sc -> Ten). (* tensor (op) python float *)\n"
                 "Variable t_clamp_s : Sc -> Sc -> Ten -> Ten.            (* t.clamp(min=float, max=float) *)\n"
                 "Variable t_clamp_z : Z -> Z -> Ten -> Ten.              (* t.clamp(min=int, max=int) *)\n"
                 "Variables (t_floor_long t_ceil_long : Ten -> TenL).     (* t.floor().long(), t.ceil().long() *)\n"
                 "Variables (l_gt_z l_lt_z : TenL -> Z -> Mask) (l_eq : TenL -> TenL -> Mask).  (* comparisons -> masks *)\n"
                 "Variable m_and : Mask -> Mask -> Mask.                  (* mask * mask *)\n"
                 "Variables (l_masked_sub l_masked_add : TenL -> Mask -> Z -> TenL).  (* x[mask] -= k, x[mask] += k *)"),
        carrier=Carrier(T="Ten"),
        variables=["t_add", "t_mul", "z_sub_t", "t_mul_s", "t_sub_s", "t_div_s", "t_clamp_s", "t_clamp_z", "t_floor_long",
                   "t_ceil_long", "l_gt_z", "l_lt_z", "l_eq", "m_and", "l_masked_sub", "l_masked_add"],
        mixed_ops={("T", "add", "T"): ("t_add", "T"), ("T", "mul", "T"): ("t_mul", "T"), ("Z", "sub", "T"): ("z_sub_t", "T"),
                   ("T", "mul", "S"): ("t_mul_s", "T"), ("T", "sub", "S"): ("t_sub_s", "T"), ("T", "div", "S"): ("t_div_s", "T"),
                   ("M", "mul", "M"): ("m_and", "M")},
        cmp_ops={("TL", "gt", "Z"): ("l_gt_z", "M"), ("TL", "lt", "Z"): ("l_lt_z", "M"), ("TL", "eq", "TL"): ("l_eq", "M")},
        masked_ops={("TL", "M", "sub", "Z"): "l_masked_sub", ("TL", "M", "add", "Z"): "l_masked_add"},
        functions=[FnSpec(
            cls="RainbowDQN", name="_dqn_loss", coq="RainbowDQN_projection_indices",
            fields=[("support", "T"), ("v_min", "S"), ("v_max", "S"), ("delta_z", "S"), ("num_atoms", "Z")],
            segment_stmt="t_z = rewards + (1 - dones)", segment_last="u[",
            segment_inputs=[("rewards", "T"), ("dones", "T"), ("gamma", "S")],
            segment_outputs=[("b", "T"), ("L", "TL"), ("u", "TL")], skip_params="*",
            expr_matchers=[(is_clamp_kw, clamp_kw), (round_long("floor"), round_long_by("t_floor_long")),
                           (round_long("ceil"), round_long_by("t_ceil_long"))],
            theorem="C18_translated_projection_indices_is_model")])])


# ---- C05: TournamentSelection._tournament / select ----------------------------------------------------
AG_T = ("opaque", "Ag")
ZGETS = ("(* [l[i] for i in idx] *)\n"
         "Fixpoint zgets {A : Type} (l : list A) (idx : list Z) : res (list A) :=\n"
         "  match idx with\n  | [] => Ok []\n"
         "  | i :: r => bind (zget l i) (fun x => bind (zgets l r) (fun xs => Ok (x :: xs)))\n  end.")


def is_randint_draw(e, env):
    return isinstance(e, ast.Call) and ast.unparse(e.func) == "np.random.randint"


def randint_draw(tr, e, env, k):
    """np.random.randint(0, len(X), size=self.tournament_size): the drawn indices are the parameter tour_draw"""
    want = "np.random.randint(0, len(fitness_values), size=self.tournament_size)"
    if " ".join(ast.unparse(e).split()) != want:
        tr.bad(e, f"a random draw other than `{want}`")
    if tr.in_loop or tr.__dict__.setdefault("randint_node", id(e)) != id(e):
        tr.bad(e, "more than one draw / a draw inside a loop")
    return k("tour_draw", ("list", "Z"))


def is_np_argmax(e, env):
    return isinstance(e, ast.Call) and ast.unparse(e.func) == "np.argmax" and len(e.args) == 1 and not e.keywords


def np_argmax(tr, e, env, k):
    return tr.expr(e.args[0], env, lambda c, t: k(f"argmax_op {par(c)}", "Z") if t == ("list", "T")
                   else tr.bad(e, f"np.argmax of a value of type {t}"))


def is_clone_kw(e, env):
    return (isinstance(e, ast.Call) and isinstance(e.func, ast.Attribute) and e.func.attr == "clone"
            and len(e.keywords) == 1 and e.keywords[0].arg == "wrap" and ast.unparse(e.keywords[0].value) == "False"
            and len(e.args) <= 1)


def clone_kw(tr, e, env, k):
    def done(vals):
        if vals[0][1] != AG_T or (len(vals) == 2 and vals[1][1] != "Z"):
            tr.bad(e, f"clone on values of types {[t for _, t in vals]}")
        if len(vals) == 1:
            return k(f"clone_same {par(vals[0][0])}", AG_T)
        return k(f"clone_as {par(vals[0][0])} {par(vals[1][0])}", AG_T)
    return tr.exprs([e.func.value] + list(e.args), env, done)


def is_tournament_call(e, env):
    return (isinstance(e, ast.Call) and ast.unparse(e.func) == "self._tournament" and len(e.args) == 1 and not e.keywords)


def tournament_call(tr, e, env, k):
    """self._tournament(rank) inside the selection loop: iteration i uses the draws loop_draws[i]"""
    if len(tr.loop_index) != 1:
        tr.bad(e, "a tournament outside the (single) selection loop")
    if tr.__dict__.setdefault("tour_node", id(e)) != id(e):
        tr.bad(e, "more than one tournament per iteration")
    sig = tr.table.get("_tournament")
    if sig is None:
        tr.bad(e, "_tournament was not translated")

    def done(c, t):
        if t != ("list", "T"):
            tr.bad(e, f"tournament over a value of type {t}")
        d = tr.tmp()
        return let_(d, Term(f"zget loop_draws {tr.loop_index[-1]}", False),
                    tr.hoist(e, f"{sig['coq']} {env['self.tournament_size'][0]} {par(c)} {d}", "Z", k))
    return tr.expr(e.args[0], env, done)


def is_elitism_unpack(s):
    return (isinstance(s, ast.Assign) and len(s.targets) == 1 and isinstance(s.targets[0], ast.Tuple)
            and len(s.targets[0].elts) == 3 and all(isinstance(x, ast.Name) for x in s.targets[0].elts)
            and isinstance(s.value, ast.Call) and ast.unparse(s.value.func) == "self._elitism"
            and len(s.value.args) == 1 and isinstance(s.value.args[0], ast.Name))


def elitism_unpack(tr, s, rest, env, ctx):
    """elite, rank, max_id = self._elitism(population): _elitism (means, argsort ranks, max index, clone of the best) is an
    abstract operation here; C05's own correspondence check covers it"""
    pn = s.value.args[0].id
    if pn not in env or env[pn][1] != ("list", AG_T):
        tr.bad(s, "_elitism of something that is not the population")
    env2 = env
    names = []
    for x, t in zip(s.targets[0].elts, [AG_T, ("list", "T"), "Z"]):
        env2, cn = tr.bind_var(x.id, env2, t, s)
        names.append(cn)
    return let_("'(" + ", ".join(names) + ")", Term(f"elitism_op {env[pn][0]}", True), tr.block(rest, env2, ctx))


CLIENTS["C05"] = Client(
    pid="C05",
    imports=("From Coq Require Import List ZArith Bool.\nImport ListNotations.\nFrom AgileV Require Import TR.PyLib.\n"
             + ZGETS),
    equiv="coq/gen/C05_equiv.v",
    units=[Unit(
        file="agilerl/hpo/tournament.py", section="GenTournament",
        context=("Context {Ten Ag : Type}.\n"
                 "Variable argmax_op : list Ten -> Z.                    (* np.argmax(values) *)\n"
                 "Variable elitism_op : list Ag -> Ag * list Ten * Z.     (* self._elitism(population) *)\n"
                 "Variable clone_same : Ag -> Ag.                         (* a.clone(wrap=False) *)\n"
                 "Variable clone_as : Ag -> Z -> Ag.                      (* a.clone(index, wrap=False) *)"),
        carrier=Carrier(T="Ten"), variables=["argmax_op", "elitism_op", "clone_same", "clone_as"],
        functions=[
            FnSpec(cls="TournamentSelection", name="_tournament", coq="TournamentSelection_tournament",
                   fields=[("tournament_size", "Z")], returns="Z", params={"fitness_values": ("list", "T")},
                   extra_params=[("tour_draw", ("list", "Z"))],
                   expr_matchers=[(is_randint_draw, randint_draw), (is_np_argmax, np_argmax)],
                   theorem="C05_translated_tournament_is_model"),
            FnSpec(cls="TournamentSelection", name="select", coq="TournamentSelection_select",
                   fields=[("tournament_size", "Z"), ("elitism", "bool"), ("population_size", "Z")],
                   returns=("tuple", [AG_T, ("list", AG_T)]),
                   params={"population": ("list", AG_T), "new_population": ("list", AG_T)},
                   extra_params=[("loop_draws", ("list", ("list", "Z")))],
                   expr_matchers=[(is_clone_kw, clone_kw), (is_tournament_call, tournament_call)],
                   stmt_shapes=[(is_elitism_unpack, elitism_unpack)],
                   theorem="C05_translated_select_is_model"),
        ])])


# ---- C11: the PrioritizedReplayBuffer methods (over abstract tree objects) ----------------------------
STREE_T, MTREE_T, PAR_T, TD_T = ("opaque", "STree"), ("opaque", "MTree"), ("opaque", "Par"), ("opaque", "Td")


def pow_of(attr_src, coq):
    def m(e, env):
        return isinstance(e, ast.BinOp) and isinstance(e.op, ast.Pow) and ast.unparse(e.right) == attr_src
    def h(tr, e, env, k):
        return tr.expr(e.left, env, lambda c, t: k(f"{coq} {par(c)}", "T") if t == "T"
                       else tr.bad(e, f"power of a value of type {t}"))
    return m, h


def is_item(e, env):
    return (isinstance(e, ast.Call) and not e.args and not e.keywords and isinstance(e.func, ast.Attribute)
            and e.func.attr == "item")


def item_id(tr, e, env, k):
    if ast.unparse(e) == "torch.rand(1).item()":
        # one uniform draw per iteration of the (single) loop: the parameter us, indexed by the loop variable
        if len(tr.loop_index) != 1 or tr.__dict__.setdefault("rand_node", id(e)) != id(e):
            tr.bad(e, "a uniform draw outside the single sampling loop / a second draw per iteration")
        return tr.hoist(e, f"zget us {tr.loop_index[-1]}", "T", k)
    return tr.expr(e.func.value, env, lambda c, t: k(c, t) if t in ("T", "Z")
                   else tr.bad(e, f".item() of a value of type {t}"))


def tree_method(attr, meth, nargs):
    def m(e, env):
        return (isinstance(e, ast.Call) and not e.keywords and len(e.args) == nargs and isinstance(e.func, ast.Attribute)
                and e.func.attr == meth and ast.unparse(e.func.value) == "self." + attr)
    return m


def sum_total(tr, e, env, k):
    return k(f"sum_total {env['self.sum_tree'][0]}", "T")


def sum_retrieve(tr, e, env, k):
    return tr.expr(e.args[0], env, lambda c, t: tr.hoist(e, f"sum_retrieve {env['self.sum_tree'][0]} {par(c)}", "Z", k)
                   if t == "T" else tr.bad(e, f"retrieve of a value of type {t}"))


def is_int_zeros(e, env):
    return (isinstance(e, ast.Call) and ast.unparse(e.func) == "torch.zeros" and len(e.args) == 1
            and [kw.arg for kw in e.keywords] == ["dtype"] and ast.unparse(e.keywords[0].value) == "torch.int64")


def int_zeros(tr, e, env, k):
    return tr.expr(e.args[0], env, lambda c, t: k(f"zzeros {par(c)}", ("list", "Z")) if t == "Z"
                   else tr.bad(e, f"torch.zeros of a size of type {t}"))


def is_td_rows(e, env):
    return (isinstance(e, ast.Subscript) and isinstance(e.slice, ast.Constant) and e.slice.value == 0
            and isinstance(e.value, ast.Attribute) and e.value.attr == "shape" and isinstance(e.value.value, ast.Name)
            and e.value.value.id in env and env[e.value.value.id][1] == TD_T)


def td_rows(tr, e, env, k):
    return k(f"td_rows {env[e.value.value.id][0]}", "Z")


def per_super_add(tr, s, rest, env, ctx):
    def done(c, t):
        if t != TD_T:
            tr.bad(s, f"super().add of a value of type {t}")
        env2, cn = tr.bind_var("self._parent", env, PAR_T, s)
        return let_(cn, Term(f"parent_add {env['self._parent'][0]} {par(c)}", True), tr.block(rest, env2, ctx))
    return tr.expr(s.value.args[0], env, done)


_pb = pow_of("-beta", "powb")


def is_float_zeros(e, env):
    return (isinstance(e, ast.Call) and ast.unparse(e.func) == "torch.zeros" and len(e.args) == 1
            and [kw.arg for kw in e.keywords] == ["device"])


def float_zeros(tr, e, env, k):
    return tr.expr(e.args[0], env, lambda c, t: k(f"tzeros (c_zero C) {par(c)}", ("list", "T")) if t == "Z"
                   else tr.bad(e, f"torch.zeros of a size of type {t}"))


def is_sum_getitem(e, env):
    return (isinstance(e, ast.Subscript) and ast.unparse(e.value) == "self.sum_tree" and not isinstance(e.slice, ast.Slice))


def sum_getitem(tr, e, env, k):
    return tr.expr(e.slice, env, lambda c, t: tr.hoist(e, f"sum_get {env['self.sum_tree'][0]} {par(c)}", "T", k)
                   if t == "Z" else tr.bad(e, f"tree index of type {t}"))


def min_min(tr, e, env, k):
    return tr.hoist(e, f"min_min {env['self.min_tree'][0]}", "T", k)


def is_self_size(e, env):
    return isinstance(e, ast.Attribute) and ast.unparse(e) == "self.size" and "self._parent" in env


def self_size(tr, e, env, k):
    """self.size: a property of the ReplayBuffer part of the object (return self._size) — read from the CURRENT abstract
    parent state, so that it is the size after super().add(data) inside add"""
    return k(f"par_size {env['self._parent'][0]}", "Z")


PER_FIELDS = [("max_size", "Z"), ("sum_tree", STREE_T), ("min_tree", MTREE_T), ("max_priority", "T"), ("_parent", PAR_T)]
PER_WRITES = ["sum_tree", "min_tree", "max_priority"]
PER_VARS = ["powa", "powb", "sum_set", "min_set", "sum_total", "sum_retrieve", "sum_get", "min_min", "c_mul_z", "c_div_z",
            "parent_add", "td_rows", "par_size"]
_pa = pow_of("self.alpha", "powa")

CLIENTS["C11"].imports += ("\n(* torch.zeros(n, dtype=torch.int64) as a list *)\n"
                           "Definition zzeros (n : Z) : list Z := repeat 0%Z (Z.to_nat n).\n"
                           "Definition tzeros {A : Type} (z : A) (n : Z) : list A := repeat z (Z.to_nat n).")
CLIENTS["C11"].units.append(Unit(
    file="agilerl/components/replay_buffer.py", section="GenPer",
    context=("Variable C : carrier.\nContext {STree MTree Par Td : Type}.\n"
             "Variable powa : C -> C.                            (* x ** self.alpha *)\n"
             "Variable powb : C -> C.                            (* x ** -beta *)\n"
             "Variable sum_get : STree -> Z -> res C.             (* self.sum_tree[idx]: asserts 0 <= idx < capacity *)\n"
             "Variable min_min : MTree -> res C.                  (* self.min_tree.min() *)\n"
             "Variable sum_set : Z -> STree -> C -> STree.        (* self.sum_tree[idx] = x *)\n"
             "Variable min_set : Z -> MTree -> C -> MTree.        (* self.min_tree[idx] = x *)\n"
             "Variable sum_total : STree -> C.                    (* self.sum_tree.sum() *)\n"
             "Variable sum_retrieve : STree -> C -> res Z.        (* self.sum_tree.retrieve(x): asserts 0 <= x <= sum + 1e-5 *)\n"
             "Variables (c_mul_z c_div_z : C -> Z -> C).          (* python float (op) python int *)\n"
             "Variable parent_add : Par -> Td -> Par.             (* super().add(data): ReplayBuffer.add *)\n"
             "Variable td_rows : Td -> Z.                         (* data.shape[0] *)\n"
             "Variable par_size : Par -> Z.                       (* self.size (property of the ReplayBuffer part) *)"),
    carrier=C11_CARRIER, variables=PER_VARS,
    mixed_ops={("T", "mul", "Z"): ("c_mul_z", "T"), ("T", "div", "Z"): ("c_div_z", "T")},
    item_set={(STREE_T, "Z", "T"): "sum_set", (MTREE_T, "Z", "T"): "min_set"},
    functions=[
        FnSpec(cls="PrioritizedReplayBuffer", name="_update_priority", coq="PER_update_priority",
               fields=PER_FIELDS, writes=PER_WRITES, expr_matchers=[_pa, (is_self_size, self_size)],
               theorem="C11_translated_update_priority_is_model"),
        FnSpec(cls="PrioritizedReplayBuffer", name="add", coq="PER_add",
               fields=PER_FIELDS + [("tree_ptr", "Z")], writes=PER_WRITES + ["tree_ptr", "_parent"],
               params={"data": TD_T}, expr_matchers=[(is_td_rows, td_rows)],
               stmt_shapes=[(is_super_add, per_super_add)], theorem="C11_translated_per_add_is_model"),
        FnSpec(cls="PrioritizedReplayBuffer", name="update_priorities", coq="PER_update_priorities",
               fields=PER_FIELDS, writes=PER_WRITES,
               params={"indices": ("list", "Z"), "priorities": ("list", "T")},
               expr_matchers=[(is_item, item_id)], theorem="C11_translated_update_priorities_is_model"),
        FnSpec(cls="PrioritizedReplayBuffer", name="_sample_proportional", coq="PER_sample_proportional",
               fields=[("sum_tree", STREE_T)], returns=("list", "Z"), extra_params=[("us", ("list", "T"))],
               expr_matchers=[(is_int_zeros, int_zeros), (tree_method("sum_tree", "sum", 0), sum_total),
                              (tree_method("sum_tree", "retrieve", 1), sum_retrieve), (is_item, item_id)],
               theorem="C11_translated_sample_proportional_is_model"),
        FnSpec(cls="PrioritizedReplayBuffer", name="_calculate_weights", coq="PER_calculate_weights",
               fields=[("sum_tree", STREE_T), ("min_tree", MTREE_T), ("size", "Z")], returns=("list", "T"),
               params={"indices": ("list", "Z")}, skip_params=["beta"],
               expr_matchers=[_pb, (is_float_zeros, float_zeros), (tree_method("sum_tree", "sum", 0), sum_total),
                              (tree_method("min_tree", "min", 0), min_min), (is_sum_getitem, sum_getitem)],
               theorem="C11_translated_calculate_weights_is_model"),
    ]))


# ---- C20: the step-count arithmetic in the headers of the training loops (expression segments) -------
def c20_expr(section, file, fn, coq, expr, inputs, thm, shapes=None, extra=None):
    return Unit(file=file, section=section, context="", carrier=Carrier(T="unit"),
                functions=[FnSpec(cls=None, name=fn, coq=coq, segment_expr=expr, segment_inputs=inputs,
                                  segment_outputs=[("seg_value", "Z")], skip_params="*",
                                  expr_shapes=shapes or {}, extra_params=extra or [], theorem=thm)])


LS = {"agent.learn_step": ("const", "v_learn_step", "Z")}
CLIENTS["C20"] = Client(
    pid="C20",
    imports="From Coq Require Import List ZArith Bool.\nImport ListNotations.\nFrom AgileV Require Import TR.PyLib.",
    equiv="coq/gen/C20_equiv.v",
    units=[
        c20_expr("GenOffRollout", "agilerl/training/train_off_policy.py", "train_off_policy", "off_policy_rollout_steps",
                 "evo_steps // num_envs", [("evo_steps", "Z"), ("num_envs", "Z")], "C20_translated_off_rollout_steps_is_model"),
        c20_expr("GenOffLearnStep", "agilerl/training/train_off_policy.py", "train_off_policy", "off_policy_learn_every",
                 "agent.learn_step // num_envs", [("num_envs", "Z")], "C20_translated_off_learn_every_is_model",
                 shapes=LS, extra=[("v_learn_step", "Z")]),
        c20_expr("GenOnOuter", "agilerl/training/train_on_policy.py", "train_on_policy", "on_policy_outer_iterations",
                 "-(evo_steps // -agent.learn_step)", [("evo_steps", "Z")], "C20_translated_on_outer_is_model",
                 shapes=LS, extra=[("v_learn_step", "Z")]),
        c20_expr("GenOnInner", "agilerl/training/train_on_policy.py", "train_on_policy", "on_policy_inner_iterations",
                 "-(agent.learn_step // -num_envs)", [("num_envs", "Z")], "C20_translated_on_inner_is_model",
                 shapes=LS, extra=[("v_learn_step", "Z")]),
    ])


# ---- C12: the slice written by write_to_shared_memory (one-statement segment) ---------------------------
def is_copyto(s):
    return (isinstance(s, ast.Expr) and isinstance(s.value, ast.Call) and ast.unparse(s.value.func) == "np.copyto"
            and len(s.value.args) == 2 and not s.value.keywords and isinstance(s.value.args[0], ast.Subscript)
            and isinstance(s.value.args[0].slice, ast.Slice))


def copyto(tr, s, rest, env, ctx):
    """np.copyto(dest[a:b], src)  is  dest[a:b] = src  (same number of elements required)"""
    store = ast.Assign(targets=[s.value.args[0]], value=s.value.args[1])
    store.targets[0] = copy.deepcopy(store.targets[0])
    store.targets[0].ctx = ast.Store()
    ast.copy_location(store, s)
    ast.fix_missing_locations(store)
    return tr.s_Assign(store, rest, env, ctx)


def is_flat_row(e, env):
    return (isinstance(e, ast.Call) and not e.args and isinstance(e.func, ast.Attribute) and e.func.attr == "flatten"
            and isinstance(e.func.value, ast.Call) and ast.unparse(e.func.value.func) == "np.asarray"
            and len(e.func.value.args) == 1 and isinstance(e.func.value.args[0], ast.Name))


def flat_row(tr, e, env, k):
    """np.asarray(obs, dtype=dtype).flatten(): the observation as a flat row (a list here already)"""
    n = e.func.value.args[0].id
    if n not in env or not is_list(env[n][1]):
        tr.bad(e, "flatten of something that is not a row")
    return k(env[n][0], env[n][1])


CLIENTS["C12"] = Client(
    pid="C12",
    imports="From Coq Require Import List ZArith Bool.\nImport ListNotations.\nFrom AgileV Require Import TR.PyLib.",
    equiv="coq/gen/C12_equiv.v",
    units=[Unit(
        file="agilerl/vector/pz_async_vec_env.py", section="GenShm", context="Context {A : Type}.", carrier=Carrier(T="unit"),
        functions=[FnSpec(
            cls=None, name="write_to_shared_memory", coq="write_to_shared_memory_leaf",
            segment_stmt="np.copyto(dest[", segment_contains="np.asarray(obs, dtype=dtype).flatten()", segment_deep=True,
            segment_inputs=[("index", "Z"), ("size", "Z"), ("dest", ("list", ("opaque", "A"))), ("obs", ("list", ("opaque", "A")))],
            segment_outputs=[("dest", ("list", ("opaque", "A")))], skip_params="*",
            expr_matchers=[(is_flat_row, flat_row)], stmt_shapes=[(is_copyto, copyto)],
            theorem="C12_translated_write_row_is_model")])])


def translate_pid(pid: str, repo: Path):
    return translate_client(CLIENTS[pid], repo)


if __name__ == "__main__":
    import sys
    pid = sys.argv[1]
    repo = Path(sys.argv[2] if len(sys.argv) > 2 else "/repo")
    text, fns, fails = translate_pid(pid, repo)
    print(text)
    for f in fns:
        print("(*", f, "*)")
    for f in fails:
        print("(* FAILURE:", f, "*)")
    sys.exit(1 if fails else 0)
