"""C13 — the vector environment rejects misuse and survives worker faults without hanging.

Real AsyncPettingZooVecEnv processes over the scripted sub-environment of c13_env.py with fault plans
(raise at command #k, sleep past the timeout, SIGKILL by the worker itself or by the harness).
Every API call runs under a wall-clock guard (> GUARD s = Hang, the run is torn down with terminate/kill).
To make a run deterministic (and comparable with the sequential Coq model) the parent ends of the pipes and the
process handles are wrapped by transparent proxies that wait for the addressed worker to become quiescent after
every send (using the sub-environment's own log in shared memory, never a wall-clock guess).
"""
from __future__ import annotations

import hashlib
import itertools
import json
import os
import random
import re
import signal
import sys
import threading
import time

import vlib
from vlib import Violation

import c13_env
from c13_env import (Ctl, EXC, EXC_NAMES, F_DONE, F_NORMAL, F_RAISED, F_RELEASE, F_SLEEPS, F_EXITED, make_env_fns)

GUARD = float(os.environ.get("C13_GUARD", "5"))   # seconds: a call that takes longer is a Hang (confirmation pass: 20)
STALL = 10.0           # seconds the harness waits for a worker to become quiescent before failing closed
FIN_TIMEOUT = 0.05     # the "finite timeout" handed to *_wait / close (workers are quiescent when it is used)
FREE_TIMEOUT = 0.4     # the same in free-running mode (no quiescence control: generous against scheduling noise)
FREE_PAUSE = 0.12      # free-running mode: pause between operations
STAG_T = 1.5           # staggered-answer cases: the timeout, generous against machine load (seconds)
STAG_MARGIN = 0.4      # ... and how long before the straggler's answer a TimeoutError must have been raised
FREE_WAKE = 0.8        # free-running mode: a blocked call lets sleeping workers wake up after this long
# number of exception kinds injected: 0-3 have one-argument constructors; 4 (UnicodeDecodeError) and 5 (a user type
# with a two-argument constructor) need the worker's exception instance to be re-raised as it is
NEXC = int(os.environ.get("C13_NEXC", "6"))
FORBIDDEN_CALLS = ("reset", "step", "close", "_setattr", "_check_spaces")
KINDS = ("reset", "step", "call")


class HarnessHang(BaseException):
    """raised inside an API call that would block forever (nothing outstanding on an idle live worker)"""


class HarnessStall(Exception):
    """the harness lost track of a worker (fails closed)"""


# ------------------------------------------------------------------------------------------------
# one run of the implementation
# ------------------------------------------------------------------------------------------------
class PipeProxy:
    """Transparent, buffering stand-in for the parent end of a worker pipe."""

    def __init__(self, run, j, conn):
        self.run, self.j, self.conn = run, j, conn
        self.buf = []
        self.eof = None
        self.no_eof = False
        self._closed = False

    # -- used by the implementation
    def send(self, msg):
        run, j = self.run, self.j
        self.conn.send(msg)                       # raises BrokenPipeError / ConnectionResetError if the worker is gone
        cmd = msg[0]
        if cmd == "_call" and msg[1][0] in FORBIDDEN_CALLS or cmd == "close":
            run.pending_exit[j] = True
        elif cmd in ("reset", "step", "_call", "_setattr"):
            run.env_sent[j] += 1
        else:
            run.pending_exit[j] = True            # unknown command: the worker raises RuntimeError
        run.settle(j)

    def recv(self):
        run, j = self.run, self.j
        if not self.buf and self.eof is None:
            run.settle(j)
        if not self.buf and self.eof is None:
            if run.is_blocked(j):                 # the parent blocks until the sleeper wakes up
                run.events.append(("blocked-on-sleeper", j))
                run.release(j)
            if not self.buf and self.eof is None:
                # idle live worker, nothing outstanding: recv() would never return
                if not self.conn.poll(1.0):
                    raise HarnessHang(f"recv on pipe {j}: worker idle, nothing outstanding")
                run.settle(j)
        if self.buf:
            return self.buf.pop(0)
        e = self.eof
        raise type(e)(*e.args)

    def poll(self, timeout=0.0):
        if self.buf or self.eof is not None:
            return True
        self.run.settle(self.j)
        if self.buf or self.eof is not None:
            return True
        return self.conn.poll(timeout)

    def close(self):
        self._closed = True
        self.conn.close()

    @property
    def closed(self):
        return self._closed or self.conn.closed

    def fileno(self):
        return self.conn.fileno()

    # -- used by the harness
    def pull(self, block_s):
        """move one message from the connection into the buffer; False if none arrived in time"""
        if self.eof is not None or self._closed:
            return False
        try:
            if not self.conn.poll(block_s):
                return False
            self.buf.append(self.conn.recv())
            self.run.arrived[self.j] += 1
            return True
        except (EOFError, OSError) as ex:
            self.eof = ex
            return False

    def drain_to_eof(self):
        # the worker is dead: everything it sent is readable at once, then EOF. If EOF does not show up (someone else
        # still holds the other end open) wait for it once only, not on every later visit
        while self.eof is None and not self._closed and self.pull(0.0 if self.no_eof else 1.0):
            pass
        if self.eof is None:
            self.no_eof = True


class ProcProxy:
    """Stand-in for a worker's Process handle: join() on a sleeping worker wakes it up (time passes)."""

    def __init__(self, run, j, proc):
        self.__dict__.update(run=run, j=j, proc=proc)

    def join(self, timeout=None):
        run, j, proc = self.run, self.j, self.proc
        if proc.is_alive():
            # a worker that was just told to close needs a moment; one that was sent SIGTERM/SIGKILL is certainly going to
            # die, however loaded the machine is: wait for it instead of mistaking it for a sleeper
            proc.join(8.0 if self.__dict__.get("signalled") else 0.3)
        for _ in range(50):
            if not proc.is_alive():
                break
            if run.is_blocked(j):
                run.events.append(("join-on-sleeper", j))
                run.release(j, after_close=True)
                continue
            proc.join(1.5 if timeout is None else min(timeout, 1.5))
            if proc.is_alive() and timeout is None:
                raise HarnessHang(f"join on worker {j}: alive and not told to close")
            break
        return proc.join(0 if timeout is None else timeout)

    def terminate(self):
        self.__dict__["signalled"] = True
        return self.proc.terminate()

    def kill(self):
        self.__dict__["signalled"] = True
        return self.proc.kill()

    def __getattr__(self, name):
        return getattr(self.proc, name)


class Run:
    def __init__(self, case):
        self.case = case
        self.n = len(case["plans"])
        self.ctl = Ctl(self.n)
        self.env_sent = [0] * self.n
        self.arrived = [0] * self.n
        self.pending_exit = [False] * self.n
        self.events = []
        self.vec = None
        self.procs = []
        self.pipes = []
        self.proxied = False
        self.free = case.get("mode") == "free"     # no proxies: true interleavings, wall-clock pauses, oracle only

    # ---- quiescence
    def is_blocked(self, j):
        return self.ctl.get(j, F_SLEEPS) > self.ctl.get(j, F_RELEASE)

    def settle(self, j, pipes_closed=False):
        """wait until worker j is dead, blocked in a sleep, or idle with every answer in the parent's buffer"""
        ctl, proc, px = self.ctl, self.procs[j], self.pipes[j]
        t_end = time.monotonic() + STALL
        while True:
            if not proc.is_alive():
                proc.join(1.0)
                if not pipes_closed:
                    px.drain_to_eof()
                return "dead"
            normal = ctl.get(j, F_NORMAL)
            if self.is_blocked(j) or (normal == self.env_sent[j] and not self.pending_exit[j]):
                # every answer produced so far must have reached the parent
                while self.arrived[j] < normal and not pipes_closed and px.eof is None and not px._closed:
                    if not px.pull(0.5) and time.monotonic() > t_end:
                        raise HarnessStall(f"worker {j}: {normal} answers due, {self.arrived[j]} arrived")
                # re-check: still in the same situation?
                if self.is_blocked(j) or ctl.get(j, F_NORMAL) == self.env_sent[j]:
                    return "blocked" if self.is_blocked(j) else "idle"
            if time.monotonic() > t_end:
                raise HarnessStall(f"worker {j} did not become quiescent: ctl={ctl.snapshot()[j]} sent={self.env_sent[j]}")
            time.sleep(0.001)

    def release(self, j, after_close=False):
        if self.is_blocked(j):
            target = self.ctl.get(j, F_SLEEPS)
            self.ctl.set(j, F_RELEASE, target)
            # wait until it has actually left that sleep (it may enter the next one at once), then until quiescent
            t_end = time.monotonic() + STALL
            while self.ctl.get(j, c13_env.F_WOKE) < target and self.procs[j].is_alive():
                if time.monotonic() > t_end:
                    raise HarnessStall(f"worker {j} did not wake up")
                time.sleep(0.001)
            self.settle(j, pipes_closed=after_close)

    # ---- construction / teardown
    def start(self):
        import gymnasium
        gymnasium.logger.min_level = 50
        from agilerl.vector.pz_async_vec_env import AsyncPettingZooVecEnv
        co = self.case.get("companion")           # a SECOND, independent vector environment in the same process
        self.vec2, self.procs2 = None, []
        if co and co["when"] == "before":
            self.ctl2 = Ctl(len(co["plans"]))
            self.vec2 = AsyncPettingZooVecEnv(make_env_fns(self.ctl2, co["plans"]))
        self.vec = AsyncPettingZooVecEnv(make_env_fns(self.ctl, self.case["plans"]))
        if co and co["when"] == "after":
            self.ctl2 = Ctl(len(co["plans"]))
            self.vec2 = AsyncPettingZooVecEnv(make_env_fns(self.ctl2, co["plans"]))
        if self.vec2 is not None:
            self.procs2 = list(self.vec2.processes)
        self.procs = list(self.vec.processes)
        pp = getattr(self.vec, "parent_pipes", None)
        if self.free:
            return
        if isinstance(pp, list) and len(pp) == self.n and len(self.procs) == self.n:
            self.pipes = [PipeProxy(self, j, c) for j, c in enumerate(pp)]
            self.vec.parent_pipes = list(self.pipes)
            self.vec.processes = [ProcProxy(self, j, p) for j, p in enumerate(self.procs)]
            self.proxied = True
        else:
            raise HarnessStall("cannot find parent_pipes/processes of the vector environment")

    def teardown(self):
        for p in list(getattr(self, "procs2", [])):
            try:
                if p.is_alive():
                    p.kill()
                p.join(1.0)
            except Exception:
                pass
        try:
            if getattr(self, "vec2", None) is not None:
                self.vec2.closed = True
                self.vec2.error_queue.close()
                self.vec2.error_queue.cancel_join_thread()
        except Exception:
            pass
        for p in self.procs:
            try:
                if p.is_alive():
                    p.terminate()
            except Exception:
                pass
        for p in self.procs:
            try:
                p.join(1.0)
                if p.is_alive():
                    p.kill()
                    p.join(1.0)
            except Exception:
                pass
        left = [p.pid for p in self.procs if p.is_alive()]
        try:
            if self.vec is not None:
                self.vec.closed = True            # keep __del__ from talking to dead workers
                self.vec.error_queue.close()
                self.vec.error_queue.cancel_join_thread()
        except Exception:
            pass
        return left

    # ---- calls
    def guarded(self, fn):
        box = {}

        def body():
            try:
                box["r"] = ("ok", fn())
            except BaseException as e:            # noqa: BLE001 — every outcome is data here
                box["r"] = ("exc", e)
        th = threading.Thread(target=body, daemon=True)
        t0 = time.monotonic()
        th.start()
        if not self.free:
            th.join(GUARD)
        else:
            # free-running: a call that blocks on a sleeping worker is unblocked by letting the sleeper wake up
            nxt = FREE_WAKE
            while th.is_alive() and time.monotonic() - t0 < GUARD:
                th.join(0.02)
                if th.is_alive() and time.monotonic() - t0 > nxt:
                    js = [j for j in range(self.n) if self.is_blocked(j)]
                    if js:
                        self.events.append(("auto-release", js))
                        for j in js:
                            self.ctl.set(j, F_RELEASE, self.ctl.get(j, F_SLEEPS))
                    nxt += FREE_WAKE
        dt = time.monotonic() - t0
        if "r" not in box:
            return ("hang", None), dt
        return box["r"], dt

    def api(self, op):
        v = self.vec
        k = op[0]
        import copy
        self.probes = []                          # (name, object handed to the call, deep copy taken before the call)

        def probe(name, obj):
            self.probes.append((name, obj, copy.deepcopy(obj)))
            return obj
        if k == "async":
            kind = op[1]
            if kind == "reset":
                opts = probe("options", {"k": [1, 2], "d": {"x": 0}})
                return lambda: v.reset_async(options=opts)
            if kind == "step":
                acts = probe("actions", [[0, 1] for _ in range(self.n)])
                return lambda: v.step_async(acts)
            return lambda: v.call_async("ping")
        if k == "co":                             # a call on the companion environment
            v2 = self.vec2
            if op[1] == "reset":
                return lambda: v2.reset()
            if op[1] == "call":
                return lambda: v2.call("ping")
            return lambda: v2.close()
        if k == "argerr":                         # calls that must be rejected for their arguments, before anything is sent
            m = self.n - 1 if op[1].endswith("short") else self.n + 1
            if op[1].startswith("setattr"):
                vals = probe("values", [3] * m)
                return lambda: v.set_attr("knob", vals)
            seeds = probe("seed", list(range(m)))
            return lambda: v.reset_async(seed=seeds)
        if k == "setattr_list":
            vals = probe("values", [10 + i for i in range(self.n)])
            return lambda: v.set_attr("knob", vals)
        if k == "getattr":
            return lambda: v.get_attr("knob")
        ft = FREE_TIMEOUT if self.free else FIN_TIMEOUT

        def tmo(x):                               # True -> the mode's standard finite timeout; a number -> seconds
            return (float(x) if is_num(x) else ft) if x else None
        if k == "wait":
            t = tmo(op[2])
            return {"reset": lambda: v.reset_wait(t), "step": lambda: v.step_wait(t), "call": lambda: v.call_wait(t)}[op[1]]
        if k == "sync":                           # the synchronous wrappers
            if op[1] == "reset":
                return lambda: v.reset()
            if op[1] == "step":
                import numpy as np
                acts = probe("actions", {a: np.arange(self.n, dtype=np.int64) % 3 for a in v.agents})
                return lambda: v.step(acts)
            return lambda: v.call("ping")
        if k == "callbad":
            return lambda: v.call_async("reset")
        if k == "setattr":
            return lambda: v.set_attr("knob", 7)
        if k == "close":
            fin, term = op[1], op[2]
            kw = {}
            if fin:
                kw["timeout"] = tmo(fin)
            if term:
                kw["terminate"] = True
            return lambda: v.close(**kw)
        raise ValueError(op)


def same_value(a, b):
    import numpy as np
    if isinstance(a, np.ndarray) or isinstance(b, np.ndarray):
        return isinstance(a, np.ndarray) and isinstance(b, np.ndarray) and a.dtype == b.dtype and a.shape == b.shape and bool(np.array_equal(a, b))
    if isinstance(a, dict) and isinstance(b, dict):
        return list(a.keys()) == list(b.keys()) and all(same_value(a[k], b[k]) for k in a)
    if isinstance(a, (list, tuple)) and isinstance(b, (list, tuple)):
        return type(a) is type(b) and len(a) == len(b) and all(same_value(x, y) for x, y in zip(a, b))
    return type(a) is type(b) and a == b


def is_num(x):
    return isinstance(x, (int, float)) and not isinstance(x, bool)


def classify_exc(e):
    import multiprocessing as mp
    from gymnasium.error import AlreadyPendingCallError, ClosedEnvironmentError, NoAsyncCallError
    if isinstance(e, HarnessHang):
        return "Hang", None
    if isinstance(e, AlreadyPendingCallError):
        return "Pending", None
    if isinstance(e, NoAsyncCallError):
        return "NoCall", None
    if isinstance(e, ClosedEnvironmentError):
        return "Closed", None
    if isinstance(e, mp.TimeoutError):
        return "Timeout", None
    if (isinstance(e, ValueError) and "Values must be a list or tuple" in str(e)) or \
            (isinstance(e, AssertionError) and "must match num_envs" in str(e)):
        return "ArgErr", None
    if isinstance(e, (EOFError, ConnectionError)):
        return "Gone", None
    if isinstance(e, AttributeError) and re.search(r"'NoneType' object has no attribute '(send|recv|close|poll|closed)'", str(e)):
        return "Attr", None               # a dropped pipe (parent_pipes[i] = None) was used
    # an exception that travelled from a worker: the injected ones say so, the worker's own ValueError for a
    # forbidden `call` name is recognised by its text; the same types raised by the parent's own code are "Other"
    txt = str(e)
    for i, c in enumerate(EXC):
        if type(e) is c and ("injected fault" in txt or (c is ValueError and "Trying to call function" in txt)):
            return "Exc", i
    return "Other", None


def extract_seqs(op, res, n):
    try:
        if op[1] == "call":
            return [int(x) for x in res]
        infos = res[-1]
        return [int(x) for x in infos["agent_0"]["seq"]]
    except Exception:
        return None


def run_case(case, progress=None):
    """-> JSON-serialisable observation of one run. `progress(tag, payload)` streams what happens to the supervising
    process (S = phase, P = an operation is about to start, R = its record), so that a hard overrun can be attributed."""
    progress = progress or (lambda tag, payload: None)
    run = Run(case)
    trace = []
    t_case = time.monotonic()
    try:
        progress("S", {"phase": "construct"})
        run.start()
        if run.free:
            time.sleep(FREE_PAUSE)
        else:
            for j in range(run.n):
                run.settle(j)
        hung = False
        for op in case["ops"]:
            rec = {"op": op, "exc": None, "code": None, "seqs": None}
            rec["state_before"] = run.vec._state.value
            rec["closed_before"] = bool(run.vec.closed)
            rec["blocked_before"] = [run.is_blocked(j) for j in range(run.n)]
            rec["alive_before"] = [p.is_alive() for p in run.procs]
            rec["raised_before"] = [run.ctl.get(j, F_RAISED) for j in range(run.n)]
            progress("P", rec)
            nev = len(run.events)
            if op[0] == "release":
                for j in range(run.n):
                    if run.free:
                        run.ctl.set(j, F_RELEASE, run.ctl.get(j, F_SLEEPS))
                    else:
                        run.release(j)
                rec["out"], rec["dt"] = "Ok", 0.0
            elif op[0] == "kill":
                j = op[1]
                if j < run.n and run.procs[j].is_alive():
                    os.kill(run.procs[j].pid, signal.SIGKILL)
                    run.procs[j].join(STALL)
                    if not run.free:
                        run.settle(j)
                rec["out"], rec["dt"] = "Ok", 0.0
            else:
                sent0 = list(run.env_sent)
                (tag, val), dt = run.guarded(run.api(op))
                rec["dt"] = round(dt, 4)
                if tag == "hang":
                    rec["out"] = "Hang"
                    rec["guard"] = True
                elif tag == "exc":
                    rec["out"], rec["code"] = classify_exc(val)
                    rec["exc"] = type(val).__name__
                    rec["msg"] = str(val)[:160]
                else:
                    rec["out"] = "Ok"
                    if op[0] in ("wait", "sync") or (op[0] == "co" and op[1] in ("reset", "call")):
                        rec["seqs"] = extract_seqs(op, val, run.n)
                    if op[0] == "getattr":
                        try:
                            rec["values"] = [int(x) for x in val]
                        except Exception:
                            rec["values"] = repr(val)[:80]
                if op[0] in ("async", "setattr", "sync") and rec["out"] == "Ok" and not run.free:
                    rec["expect_seqs"] = [s - 1 for s in run.env_sent]
                rec["sent"] = [a - b for a, b in zip(run.env_sent, sent0)]
                if rec["out"] != "Hang":
                    rec["args_modified"] = [nm for nm, obj, before in getattr(run, "probes", []) if not same_value(obj, before)]
                if rec["out"] != "Hang" and not run.free:
                    for j in range(run.n):
                        if not run.pipes[j]._closed:
                            run.settle(j)
                        elif not run.procs[j].is_alive():
                            run.procs[j].join(0.5)
            if run.free:
                time.sleep(FREE_PAUSE)
            rec["events"] = [list(e) for e in run.events[nev:]]
            rec["state"] = run.vec._state.value
            rec["closed"] = bool(run.vec.closed)
            rec["alive"] = [p.is_alive() for p in run.procs]
            if run.procs2:
                rec["co_alive"] = [p.is_alive() for p in run.procs2]
                rec["co_state"] = run.vec2._state.value
                rec["co_closed"] = bool(run.vec2.closed)
            rec["raised"] = [run.ctl.get(j, F_RAISED) for j in range(run.n)]
            rec["dropped"] = [p is None for p in run.vec.parent_pipes]
            rec["blocked_after"] = [run.is_blocked(j) for j in range(run.n)]
            trace.append(rec)
            progress("R", rec)
            if rec["out"] == "Hang":
                hung = True
                break
        obs = {"trace": trace, "hung": hung, "harness_error": None}
    except Exception as e:  # HarnessStall and anything unexpected: reported, fails closed
        import traceback
        obs = {"trace": trace, "hung": False, "harness_error": f"{type(e).__name__}: {e}\n{traceback.format_exc()[-1200:]}"}
    finally:
        progress("S", {"phase": "teardown"})
        left = run.teardown()
    obs["orphans"] = left
    obs["wall"] = round(time.monotonic() - t_case, 3)
    return obs


# ------------------------------------------------------------------------------------------------
# hard outer limit: every real-process case runs in a child process (own session / process group) that is
# supervised from OUTSIDE; an overrun is a Hang of the operation in flight, the whole group is killed
# ------------------------------------------------------------------------------------------------
MAGIC = "@@C13 "
CASE_LIMIT = float(os.environ.get("C13_CASE_LIMIT", "20"))      # seconds of wall clock per case (normal: < 4 s)
START_LIMIT = 180.0                                              # seconds for the runner to import the implementation
HANG_STOP = 12                                                   # cases with a Hang after which the remaining cases are skipped
MAX_HARD = 6                                                     # hard overruns after which the remaining cases are skipped
BUDGET = {"quick": 330.0, "thorough": 2400.0}                    # seconds for all cases of a tier


def runner_main(path):
    """child side: run the cases of the file one after the other, streaming progress on stdout"""
    cases = json.load(open(path))
    out = sys.stdout

    def emit(tag, idx, payload=None):
        out.write(MAGIC + tag + " " + str(idx) + " " + (json.dumps(payload, default=str) if payload is not None else "null") + "\n")
        out.flush()
    import agilerl.vector.pz_async_vec_env  # noqa: F401 — the slow import happens before the per-case clock starts
    emit("READY", -1)
    for idx, case in cases:
        emit("B", idx)
        obs = run_case(case, progress=lambda tag, payload, _i=idx: emit(tag, _i, payload))
        emit("E", idx, obs)
    return 0


def hard_obs(case, recs, pre, phase, limit):
    """observation of a case whose runner had to be killed: the operation in flight is a Hang"""
    n = len(case["plans"])
    obs = {"trace": list(recs), "hung": True, "harness_error": None, "orphans": [], "wall": limit, "hard_timeout": True,
           "hard_phase": phase}
    if phase == "op" and pre is not None:
        r = dict(pre)
        r.update({"out": "Hang", "exc": "HardTimeout", "code": None, "seqs": None, "dt": limit, "hard": True, "events": [],
                  "state": pre["state_before"], "closed": pre["closed_before"], "alive": pre["alive_before"],
                  "raised": pre["raised_before"], "dropped": [False] * n, "blocked_after": pre["blocked_before"],
                  "sent": [0] * n, "msg": f"no answer within {limit} s: the supervising process killed the whole process group"})
        obs["trace"].append(r)
    return obs


def group_members(pgids):
    """live (non-zombie) processes whose process group is one of pgids — the `ps` check, done through /proc"""
    out = []
    for name in os.listdir("/proc"):
        if not name.isdigit():
            continue
        try:
            st = open(f"/proc/{name}/stat").read()
            rest = st[st.rindex(")") + 2:].split()
            if rest[0] != "Z" and int(rest[2]) in pgids:
                out.append((int(name), int(rest[2])))
        except (OSError, ValueError, IndexError):
            continue
    return out


class Sandbox:
    def __init__(self, budget, case_limit=None, env=None):
        self.case_limit = case_limit or CASE_LIMIT
        self.env = env
        self.t_end = time.monotonic() + budget
        self.hard = 0
        self.hangs = 0
        self.any_hangs = 0
        self.skipped = 0
        self.skip_why = ""
        self.lock = threading.Lock()
        self.pgids = []
        self.notes = []

    def run_shard(self, shard, results, tag):
        """shard: list of (idx, case). Fills results[idx]."""
        import select
        import subprocess
        todo = list(shard)
        d = vlib.BUILD / ("C13" + vlib.ALT_TAG)
        d.mkdir(parents=True, exist_ok=True)
        attempt = 0
        while todo:
            if time.monotonic() > self.t_end or self.hard >= MAX_HARD or self.hangs >= HANG_STOP:
                why = ("wall-clock budget of the tier used up" if time.monotonic() > self.t_end else
                       f"{self.hard} hard overruns" if self.hard >= MAX_HARD else f"{self.hangs} cases already ended in a Hang")
                for idx, _c in todo:
                    results[idx] = {"trace": [], "hung": False, "orphans": [], "harness_error": None, "skipped": why}
                with self.lock:
                    self.skipped += len(todo)
                    self.skip_why = why
                return
            attempt += 1
            f = d / f"runner_{tag}_{os.getpid()}_{attempt}.json"
            f.write_text(json.dumps(todo))
            proc = subprocess.Popen([sys.executable, "-W", "ignore", os.path.abspath(__file__), "--runner", str(f)],
                                    stdout=subprocess.PIPE, stderr=subprocess.DEVNULL, stdin=subprocess.DEVNULL,
                                    start_new_session=True, env=self.env)
            with self.lock:
                self.pgids.append(proc.pid)
            fd = proc.stdout.fileno()
            buf = b""
            cur, recs, pre, phase = None, [], None, "start"
            deadline = time.monotonic() + START_LIMIT
            cases = dict(todo)
            done = set()
            overrun = False
            eof = False
            while not eof:
                left = min(deadline, self.t_end + 5) - time.monotonic()
                if left <= 0:
                    overrun = True
                    break
                if self.hangs >= HANG_STOP and cur is None:
                    break
                rl, _, _ = select.select([fd], [], [], min(left, 1.0))
                if not rl:
                    continue
                chunk = os.read(fd, 1 << 16)
                if not chunk:
                    eof = True
                    break
                buf += chunk
                while b"\n" in buf:
                    line, buf = buf.split(b"\n", 1)
                    line = line.decode("utf-8", "replace")
                    if not line.startswith(MAGIC):
                        continue
                    tg, idx, payload = line[len(MAGIC):].split(" ", 2)
                    idx = int(idx)
                    if tg == "READY":
                        deadline = time.monotonic() + self.case_limit
                    elif tg == "B":
                        cur, recs, pre, phase = idx, [], None, "construct"
                        deadline = time.monotonic() + self.case_limit
                    elif tg == "S":
                        phase = json.loads(payload)["phase"]
                    elif tg == "P":
                        pre, phase = json.loads(payload), "op"
                    elif tg == "R":
                        recs.append(json.loads(payload)); pre, phase = None, "between"
                    elif tg == "E":
                        results[idx] = json.loads(payload)
                        if results[idx].get("hung"):
                            with self.lock:
                                self.any_hangs += 1
                                # only hangs that cost the wall-clock guard count towards the early stop; the ones the
                                # proxies establish structurally are cheap (and some are legitimate second waits)
                                if any(r.get("guard") for r in results[idx].get("trace", [])):
                                    self.hangs += 1
                        done.add(idx)
                        cur, phase = None, "idle"
                        deadline = time.monotonic() + self.case_limit
            # whatever happened: nothing of that process group may survive
            try:
                os.killpg(proc.pid, signal.SIGKILL)
            except (ProcessLookupError, PermissionError):
                pass
            try:
                proc.wait(10)
            except Exception:
                pass
            proc.stdout.close()
            try:
                f.unlink()
            except OSError:
                pass
            todo = [(i, c) for i, c in todo if i not in done]
            if overrun and cur is not None:
                with self.lock:
                    self.hard += 1
                    self.hangs += 1
                    self.any_hangs += 1
                results[cur] = hard_obs(cases[cur], recs, pre, phase, self.case_limit)
                todo = [(i, c) for i, c in todo if i != cur]
            elif overrun:          # the runner never got as far as a case (import of the implementation blocked)
                with self.lock:
                    self.hard += 1
                for i, _c in todo:
                    results[i] = {"trace": [], "hung": False, "orphans": [],
                                  "harness_error": f"runner did not start a case within its limit (phase {phase})"}
                return
            elif todo and cur is not None and cur not in done:
                # the runner died in the middle of a case (e.g. a SIGKILL that hit the wrong process): fail closed on it
                results[cur] = {"trace": recs, "hung": False, "orphans": [],
                                "harness_error": f"runner exited (code {proc.returncode}) during phase {phase}"}
                todo = [(i, c) for i, c in todo if i != cur]
            elif todo and attempt > 3 + len(shard):
                for i, _c in todo:
                    results[i] = {"trace": [], "hung": False, "orphans": [], "harness_error": "runner keeps exiting early"}
                return

    def run(self, cases, jobs):
        results = {}
        idx_cases = list(enumerate(cases))
        shards = [idx_cases[k::jobs] for k in range(jobs)]
        ths = [threading.Thread(target=self.run_shard, args=(sh, results, k), daemon=True) for k, sh in enumerate(shards) if sh]
        for t in ths:
            t.start()
        for t in ths:
            t.join()
        survivors = []
        for attempt in range(20):                 # killed processes may take a moment to disappear (zombies do not count)
            survivors = group_members(set(self.pgids))
            if not survivors:
                break
            for pid, pg in survivors:
                try:
                    os.kill(pid, signal.SIGKILL)
                except (ProcessLookupError, PermissionError):
                    pass
            time.sleep(0.1)
        return [results.get(i) for i in range(len(cases))], survivors


# ------------------------------------------------------------------------------------------------
# Coq side
# ------------------------------------------------------------------------------------------------
ST = {"default": "DEFAULT", "reset": "W_RESET", "step": "W_STEP", "call": "W_CALL"}
KD = {"reset": "KReset", "step": "KStep", "call": "KCall"}
OUT = {"Ok": "CO_Ok", "Pending": "CO_Pending", "NoCall": "CO_NoCall", "Closed": "CO_Closed", "Timeout": "CO_Timeout",
       "Gone": "CO_Gone", "Attr": "CO_Attr", "Hang": "CO_Hang", "Other": "CO_Other", "ArgErr": "CO_ArgErr"}


def cq_bool(b):
    return "true" if b else "false"


def cq_behav(b):
    return {"normal": "Normal", "sleep": "Sleep", "die": "Die", "delay": "Sleep"}.get(b[0]) or f"Raise {int(b[1])}"


def cq_op(op):
    k = op[0]
    if k == "async":
        return f"OAsync {KD[op[1]]}"
    if k == "wait":
        return f"OWait {KD[op[1]]} {cq_bool(op[2])}"
    if k == "sync":
        return f"XSync {KD[op[1]]}"
    if k == "argerr":
        return "XArg"
    if k == "setattr_list":
        return "OSetAttr"
    if k == "getattr":
        return "XSync KCall"
    if k == "callbad":
        return "OCallBad"
    if k == "setattr":
        return "OSetAttr"
    if k == "close":
        return f"OClose {cq_bool(op[1])} {cq_bool(op[2])}"
    if k == "release":
        return "ORelease"
    if k == "kill":
        return f"OKill {int(op[1])}"
    raise ValueError(op)


# ------------------------------------------------------------------------------------------------
# the driver
# ------------------------------------------------------------------------------------------------
def ckey(case):
    return json.dumps({"plans": case["plans"], "ops": case["ops"], "mode": case.get("mode", "serial"), "co": case.get("companion")}, sort_keys=True)


def legal_close(ops):
    return ops + [["close", False, False]]


class C13(vlib.Driver):
    pid = "C13"
    preamble = "From AgileV Require Import C13.Model C13.Check.\nOpen Scope nat_scope."
    rule = ("case = (number of workers, fault plan per worker, sequence of interface calls and harness actions "
            "release/kill); distinct = distinct (plans, op list); non-trivial = at least one injected fault "
            "(raise/sleep/die/kill) reached by a command, or at least one misuse (out-of-order call / use after close)")
    trusted_base = ["hand-written model coq/theories/C13/Model.v (sequential: workers react when a command is delivered)",
                    "correspondence harness harness/c13.py + scripted sub-environment harness/c13_env.py "
                    "(pipe/process proxies that wait for worker quiescence; outcome classification)"]
    assumptions = ["multiprocessing semantics (pipes deliver in order, EOF/EPIPE/ECONNRESET on a dead peer, SIGTERM ends a worker) "
                   "are modelled, exercised by K only",
                   "a finite timeout is shorter than any injected sleep; a recv without timeout on a sleeping worker "
                   "returns when the worker wakes up (not a hang)",
                   "true interleavings of concurrently failing workers are serialised by the harness (index order)"]
    shard = 60
    variant = "V_current"

    def __init__(self):
        self.cache = {}

    # ---------- generation
    def generate(self, tier, rng):
        cases = []
        quick = tier == "quick"
        self.exhaustive = True
        self.notes = ["exhaustive sub-runs: family `misuse` (all call sequences up to length %d over the reduced alphabet, no faults) and "
                      "family `fault-exhaustive` (all sequences up to length %d under elementary fault plans); the other families are "
                      "sampled / seeded" % ((3, 2) if quick else (4, 3)),
                      "family `free` runs without the harness proxies (real interleavings) and is judged by the oracle only"]
        normal = lambda n: [[] for _ in range(n)]
        # (A) misuse: every sequence over the reduced alphabet, no faults — exhaustive
        alpha = [["async", "reset"], ["async", "step"], ["async", "call"], ["wait", "reset", False], ["wait", "step", True],
                 ["wait", "call", False], ["setattr"], ["close", False, False]]
        for n, maxlen in ([(2, 3)] if quick else [(1, 3), (2, 4)]):
            for L in range(1, maxlen + 1):
                for seq in itertools.product(alpha, repeat=L):
                    cases.append({"plans": normal(n), "ops": legal_close([list(o) for o in seq]), "fam": "misuse"})
        # (B) one fault (plus optionally a second one in another worker) at a chosen command, every command kind
        faults = [["raise", x] for x in range(NEXC)] + [["sleep"], ["die"]]
        closes = [[False, False], [True, False], [False, True]]
        fam_b = []
        for n in (2, 3):
            for kind in ("reset", "step", "call", "setattr"):
                for b in faults:
                    for w in range(n):
                        for at in (0, 1, 2):
                            for fin in (False, True):
                                for cl in closes:
                                    for other in (None, ["raise", 2], ["sleep"], ["die"]):
                                        fam_b.append((n, kind, b, w, at, fin, cl, other))
        rng.shuffle(fam_b)
        take = 170 if quick else 1200
        for (n, kind, b, w, at, fin, cl, other) in fam_b[:take]:
            plans = [[["normal"]] * at for _ in range(n)]
            plans[w] = plans[w] + [b]
            if other is not None:
                w2 = (w + 1) % n
                plans[w2] = plans[w2] + [other]
            ops = []
            rounds = at + 1
            for r in range(rounds):
                k2 = kind if r == rounds - 1 else rng.choice(["reset", "step", "call", "setattr"])
                if k2 == "setattr":
                    ops.append(["setattr"])
                else:
                    ops.append(["async", k2])
                    ops.append(["wait", k2, fin if r == rounds - 1 else False])
            tail = rng.choice([[], [["release"]], [["async", "step"], ["wait", "step", False]],
                               [["release"], ["async", "reset"], ["wait", "reset", True]],
                               [["wait", kind if kind != "setattr" else "step", False]]])
            ops = ops + tail + [["close"] + cl] + ([["close", False, False]] if rng.random() < 0.3 else [])
            cases.append({"plans": plans, "ops": ops, "fam": "fault"})
        # (C) harness kill at a chosen point
        fam_c = []
        for n in (2, 3):
            for kind in KINDS:
                for w in range(n):
                    for where in ("before-async", "pending", "after-wait"):
                        for fin in (False, True):
                            for cl in closes:
                                fam_c.append((n, kind, w, where, fin, cl))
        rng.shuffle(fam_c)
        for (n, kind, w, where, fin, cl) in fam_c[: (60 if quick else 300)]:
            ops = [["async", "reset"], ["wait", "reset", False]]
            if where == "before-async":
                ops += [["kill", w], ["async", kind], ["wait", kind, fin]]
            elif where == "pending":
                ops += [["async", kind], ["kill", w], ["wait", kind, fin]]
            else:
                ops += [["async", kind], ["wait", kind, fin], ["kill", w], ["setattr"]]
            if rng.random() < 0.3:
                ops = ops[2:]
            ops += [["close"] + cl]
            cases.append({"plans": normal(n), "ops": ops, "fam": "kill"})
        # (D) seeded random walks over the full alphabet with random plans
        full = alpha + [["wait", "reset", True], ["wait", "step", False], ["wait", "call", True], ["callbad"], ["release"],
                        ["kill", 0], ["kill", 1], ["close", True, False], ["close", False, True]]
        weights = [4, 4, 4, 3, 3, 3, 2, 1, 3, 3, 3, 1, 3, 1, 1, 1, 1]
        for i in range(90 if quick else 800):
            n = rng.choice([1, 2, 2, 3])
            plans = []
            for j in range(n):
                p = []
                for c in range(rng.randint(0, 4)):
                    r = rng.random()
                    p.append(["normal"] if r < 0.45 else ["sleep"] if r < 0.7 else ["die"] if r < 0.78
                             else ["raise", rng.randrange(NEXC)])
                plans.append(p)
            ops, pend, killed = [], None, False
            for _ in range(rng.randint(3, 8)):
                if rng.random() < 0.55:      # mostly legal continuation
                    if pend is None:
                        k = rng.choice(KINDS); o = ["async", k]; pend = k
                    else:
                        o = ["wait", pend, rng.random() < 0.5]; pend = None
                else:
                    o = list(rng.choices(full, weights)[0])
                    if o[0] == "async":
                        pend = pend or o[1]
                    if o[0] == "wait" and pend == o[1]:
                        pend = None
                ops.append(o)
                if o[0] == "close":
                    break
            cases.append({"plans": plans, "ops": legal_close(ops), "fam": "random"})
        # (F) every short sequence over the reduced alphabet (+ release) under each elementary fault plan — exhaustive
        alpha_f = alpha + [["release"], ["wait", "reset", True]]
        plans_f = [[[["raise", NEXC - 3]], []], [[], [["raise", NEXC - 1]]], [[["sleep"]], []], [[], [["die"]]],
                   [[["normal"], ["raise", 0]], [["normal"], ["sleep"]]]]
        for pi, plans in enumerate(plans_f):
            for L in range(1, (2 if (quick or pi in (1, 3)) else 3) + 1):
                for seq in itertools.product(alpha_f, repeat=L):
                    cases.append({"plans": plans, "ops": legal_close([list(o) for o in seq]), "fam": "fault-exhaustive"})
        # (E) free-running (no proxies, real interleavings of concurrently failing workers): oracle only
        fam_e = []
        for kind in KINDS:
            for cl in closes:
                fam_e.append(([[["raise", 1]], [["raise", NEXC - 2]], [["raise", NEXC - 1]]], [["async", kind], ["wait", kind, False], ["async", "reset"], ["close"] + cl]))
                fam_e.append(([[["normal"], ["raise", 0]], [["normal"], ["die"]], []],
                              [["async", "reset"], ["wait", "reset", False], ["async", kind], ["wait", kind, True], ["close"] + cl]))
                fam_e.append(([[["sleep"]], [["raise", 3]]], [["async", kind], ["wait", kind, True], ["wait", kind, False], ["close"] + cl]))
                fam_e.append(([[], [["sleep"]], []], [["async", kind], ["close"] + cl, ["async", kind]]))
                fam_e.append(([[], [], []], [["async", kind], ["kill", 2], ["wait", kind, False], ["setattr"], ["close"] + cl]))
                fam_e.append(([[], []], [["wait", kind, False], ["async", kind], ["async", "reset"], ["setattr"], ["callbad"],
                                         ["wait", kind, True], ["callbad"], ["wait", "call", False], ["close"] + cl, ["setattr"]]))
        rng.shuffle(fam_e)
        for plans, ops in fam_e[: (24 if quick else len(fam_e))]:
            cases.append({"plans": plans, "ops": ops, "fam": "free", "mode": "free"})
        # (H) a worker dies with a call pending and without having answered — EVERY victim index (first, middle, last),
        #     2 and 3 workers, default start method: the matching wait must raise promptly, then close()
        for n in (2, 3):
            for w in range(n):
                for ki, kind in enumerate(KINDS):
                    for fin in (False, True):
                        cl = closes[(w + ki + int(fin)) % 3]
                        # the victim is busy (asleep) in the pending command when the harness SIGKILLs it
                        plans = [[["normal"]] for _ in range(n)]
                        plans[w] = [["normal"], ["sleep"]]
                        cases.append({"plans": plans, "fam": "kill-pending",
                                      "ops": [["async", "reset"], ["wait", "reset", False], ["async", kind], ["kill", w],
                                              ["wait", kind, fin], ["close"] + cl]})
                        # ... or kills itself inside the pending command
                        plans = [[["normal"]] for _ in range(n)]
                        plans[w] = [["normal"], ["die"]]
                        cases.append({"plans": plans, "fam": "kill-pending",
                                      "ops": [["async", "reset"], ["wait", "reset", False], ["async", kind],
                                              ["wait", kind, fin], ["close"] + cl]})
                # free-running (no proxies at all): victim still computing (3 s) when it is killed
                plans = [[] for _ in range(n)]
                plans[w] = [["delay", 3.0]]
                cases.append({"plans": plans, "fam": "kill-pending", "mode": "free",
                              "ops": [["async", KINDS[(n + w) % 3]], ["kill", w], ["wait", KINDS[(n + w) % 3], False], ["close", False, False]]})
        # (I) the synchronous wrappers reset() / step() / call(): every sequence <= 2 over the alphabet + wrappers that
        #     contains a wrapper (misuse included), and the wrappers under elementary faults
        syncs = [["sync", "reset"], ["sync", "step"], ["sync", "call"]]
        for L in (1, 2):
            for seq in itertools.product(alpha + syncs, repeat=L):
                if any(o[0] == "sync" for o in seq):
                    cases.append({"plans": normal(2), "ops": legal_close([list(o) for o in seq]), "fam": "sync"})
        for so in syncs:
            for b in (["raise", 1], ["raise", NEXC - 1], ["die"], ["sleep"]):
                for w in (0, 1):
                    pl = [[], []]; pl[w] = [b]
                    cases.append({"plans": pl, "ops": [list(so), ["close", False, False]], "fam": "sync"})
                    pl = [[["normal"]], [["normal"]]]; pl[w] = [["normal"], b]
                    cases.append({"plans": pl, "ops": [["sync", "reset"], list(so), ["sync", "call"], ["close", False, True]], "fam": "sync"})
        # (J) calls rejected for their ARGUMENTS (set_attr / reset_async with the wrong number of values / seeds), per-env
        #     value lists and get_attr: every sequence <= 2 over a small alphabet that contains one of them; and the same
        #     after an exception was raised to (and caught by) the caller — further use of the same object
        argops = [["argerr", "setattr_short"], ["argerr", "setattr_long"], ["argerr", "seed_short"], ["argerr", "seed_long"],
                  ["setattr_list"], ["getattr"]]
        base_j = [["async", "reset"], ["async", "step"], ["wait", "reset", False], ["setattr"], ["sync", "step"], ["close", False, False]]
        for L in (1, 2):
            for seq in itertools.product(base_j + argops, repeat=L):
                if any(o[0] in ("argerr", "setattr_list", "getattr") for o in seq):
                    cases.append({"plans": normal(2), "ops": legal_close([list(o) for o in seq] + [["getattr"]]), "fam": "args"})
        for a in argops:
            cases.append({"plans": normal(3), "ops": [["setattr_list"], list(a), ["getattr"], ["sync", "reset"], ["close", False, False]], "fam": "args"})
            for b in (["raise", 1], ["raise", NEXC - 1]):
                cases.append({"plans": [[b], []], "fam": "args",
                              "ops": [["async", "reset"], ["wait", "reset", False], list(a), ["async", "step"], ["close", False, False]]})
                cases.append({"plans": [[], [["normal"], b]], "fam": "args",
                              "ops": [["setattr_list"], list(a), ["getattr"], list(a), ["close", False, False]]})
        # (K) state must not persist across OBJECTS: a second, independent vector environment lives in the same process
        #     (created before or after the main one); faults, misuse, terminate and close of one must not touch the other
        for when in ("before", "after"):
            for co_pl in ([[]], [[["raise", 2]], []]):
                comp = {"when": when, "plans": co_pl}
                scripts = [
                    ([[], []], [["async", "reset"], ["co", "reset"], ["wait", "reset", False], ["close", False, True], ["co", "call"], ["co", "close"]]),
                    ([[["raise", 1]], []], [["async", "step"], ["co", "reset"], ["wait", "step", False], ["co", "call"], ["close", False, False], ["co", "call"], ["co", "close"]]),
                    ([[], [["die"]]], [["async", "call"], ["wait", "call", True], ["co", "reset"], ["close", True, False], ["co", "close"]]),
                    ([[["sleep"]], []], [["async", "reset"], ["wait", "reset", True], ["co", "reset"], ["close", False, True], ["co", "reset"], ["co", "close"]]),
                    ([[], []], [["co", "reset"], ["co", "close"], ["sync", "reset"], ["async", "step"], ["kill", 0], ["wait", "step", False], ["close", False, False]]),
                    ([[], []], [["wait", "step", False], ["async", "reset"], ["async", "step"], ["co", "call"], ["callbad"], ["close", False, False], ["co", "reset"], ["co", "close"]]),
                ]
                for pl, ops in scripts:
                    cases.append({"plans": pl, "ops": ops, "fam": "companion", "companion": comp})
        # (L) KeyboardInterrupt raised by a sub-environment (code 6): forwarded like any other exception — every command
        #     kind, every worker index, 1-3 workers, first and later command, alone and next to an ordinary failure
        KI = 6
        for n in (1, 2, 3):
            for w in range(n):
                for at in (0, 1):
                    for ki, kind in enumerate(("reset", "step", "call", "setattr", "sync")):
                        plans = [[["normal"]] * at for _ in range(n)]
                        plans[w] = plans[w] + [["raise", KI]]
                        if n == 3 and at == 1:                     # several workers fail on the same command
                            plans[(w + 1) % 3] = plans[(w + 1) % 3] + [["raise", 1 + ki % 3]]
                        ops = [["sync", "reset"]] * at
                        if kind == "setattr":
                            ops = ops + [["setattr"]]
                        elif kind == "sync":
                            ops = ops + [["sync", KINDS[(w + at) % 3]]]
                        else:
                            ops = ops + [["async", kind], ["wait", kind, bool((w + at) % 2)]]
                        ops = [list(o) for o in ops] + [["async", "reset"], ["close", False, bool(at)]]
                        cases.append({"plans": plans, "ops": ops, "fam": "keyboard-interrupt"})
        # (G) staggered readiness in pipe order (free-running, real delays): worker answers after d_i seconds; with the
        #     shared deadline a wait/close with timeout T gives up at T as soon as max d_i > T, however the others are staggered
        T = STAG_T
        stag = []
        for kind in KINDS:
            stag.append(([1.0, 2.3], [["async", kind], ["wait", kind, T], ["close", False, False]]))
        stag.append(([1.0, 0.0, 2.3], [["async", "step"], ["wait", "step", T], ["close", False, True]]))
        stag.append(([0.6, 1.2, 2.3], [["async", "call"], ["wait", "call", T], ["close", False, False]]))
        stag.append(([1.0, 2.3], [["async", "reset"], ["close", T, False]]))
        stag.append(([0.7, 1.0, 2.3], [["async", "step"], ["close", T, False]]))
        stag.append(([0.4, 0.9], [["async", "step"], ["wait", "step", T], ["close", False, False]]))     # control: all in time
        if not quick:
            for kind in KINDS:
                stag.append(([2.3, 1.0], [["async", kind], ["wait", kind, T], ["close", False, False]]))   # straggler first
                stag.append(([1.0, 2.3, 0.2], [["async", kind], ["close", T, False]]))
                stag.append(([0.3, 1.1, 0.8], [["async", kind], ["wait", kind, T], ["close", T, False]]))  # control
        for ds, ops in stag:
            cases.append({"plans": [[["delay", d]] if d else [] for d in ds], "ops": ops, "fam": "staggered",
                          "mode": "free", "stag": ds})
        for c in cases:
            c["ops"] = self.prune(c["ops"])
        early = ("kill-pending", "staggered", "free", "keyboard-interrupt")
        first = [c for c in cases if c.get("fam") in early]
        cases = first + [c for c in cases if c.get("fam") not in early]
        self.prefetch(list(self.corpus()) + cases, tier)
        return cases

    @staticmethod
    def prune(ops):
        """after a harness kill at most one *_wait is issued before close: a second wait on the half-consumed
        call legitimately never returns (outside the property: only close() is promised after a dead worker)"""
        out, killed, waits = [], False, 0
        for o in ops:
            if o[0] == "kill":
                killed = True
            if killed and o[0] == "wait":
                waits += 1
                if waits > 1:
                    continue
            out.append(o)
        return out

    # ---------- implementation
    def prefetch(self, cases, tier="quick"):
        todo = {}
        for c in cases:
            k = ckey(c)
            if k not in self.cache and k not in todo:
                todo[k] = c
        if not todo:
            return
        keys = list(todo)
        sb = Sandbox(BUDGET.get(tier, BUDGET["quick"]))
        obs, survivors = sb.run([todo[k] for k in keys], max(1, min(int(os.environ.get("C13_JOBS", "2")), len(keys))))
        for k, o in zip(keys, obs):
            self.cache[k] = o if o is not None else {"trace": [], "hung": False, "orphans": [], "harness_error": "case lost by the sandbox"}
        # a Hang that rests on the wall clock alone (5 s guard / hard limit) may be machine load: such cases are run once more,
        # alone, with four times the guard; only what hangs again is a Hang
        def timing_hang(o):
            return bool(o.get("hard_timeout")) or any(r.get("guard") for r in o.get("trace", []))
        again = [k for k in keys if timing_hang(self.cache[k])][:HANG_STOP + MAX_HARD]
        if again:
            env2 = dict(os.environ, C13_GUARD=str(4 * GUARD))
            sb2 = Sandbox(240.0, case_limit=4 * CASE_LIMIT, env=env2)
            obs2, sv2 = sb2.run([todo[k] for k in again], max(1, min(2, len(again))))
            confirmed = 0
            for k, o in zip(again, obs2):
                if o is not None and not o.get("skipped") and not o.get("harness_error"):
                    confirmed += int(timing_hang(o) or o.get("hung", False))
                    self.cache[k] = o
            survivors = survivors + sv2
            self.notes = list(getattr(self, "notes", [])) + [f"{len(again)} case(s) exceeded the {GUARD} s guard and were re-run with a {4 * GUARD} s guard: {confirmed} hung again"]
        if sb.skipped:
            self.skipped = getattr(self, "skipped", 0) + sb.skipped
            self.skip_hangs = getattr(self, "skip_hangs", 0) + sb.hangs + sb.hard
            self.notes = list(getattr(self, "notes", [])) + [f"{sb.skipped} case(s) not run: {sb.skip_why}"]
        if sb.hard:
            self.notes = list(getattr(self, "notes", [])) + [f"{sb.hard} case(s) overran the hard wall-clock limit of {CASE_LIMIT} s and were killed from outside (outcome Hang)"]
        if survivors:
            self.survivors = list(getattr(self, "survivors", [])) + survivors

    def run_impl(self, case):
        k = ckey(case)
        obs = self.cache.pop(k, None)
        if obs is None:
            self.prefetch([case])
            obs = self.cache.pop(k)
        if obs.get("harness_error"):
            raise RuntimeError(obs["harness_error"])
        return obs

    def extra_static(self):
        sv = getattr(self, "survivors", [])
        if getattr(self, "skipped", 0) and not getattr(self, "skip_hangs", 0):
            # cases were dropped although nothing hung: the check could not do its work — fail closed
            return [Violation("harness", "harness-error:budget", f"{self.skipped} cases were not run and no Hang explains it: {self.notes[-1:]}",
                              None, None, found_input=False)]
        if sv:
            return [Violation("no-orphans", "orphan-processes", f"process groups {sv} still had members after their runner was stopped", None, None, found_input=False)]
        return []

    # ---------- model term
    def coq_term(self, case, obs):
        if obs.get("skipped"):
            return None
        if case.get("stag") is not None:
            # staggered answers: the timed poll loop of the model predicts the outcome of the first wait
            tr = obs["trace"]
            if len(tr) >= 2 and tr[1]["op"][0] == "wait" and tr[0]["out"] == "Ok":
                r = tr[1]
                oc = f"CO_Exc {r['code']}" if r["out"] == "Exc" else OUT[r["out"]]
                plans = "[" + "; ".join("[" + "; ".join(cq_behav(b) for b in p) + "]" for p in case["plans"]) + "]"
                cs = lambda x: str(int(round(float(x) * 100)))          # centiseconds
                return (f"check_staggered {plans} {KD[r['op'][1]]} {cs(r['op'][2])} "
                        f"[{'; '.join(cs(d) for d in case['stag'])}] {oc} {ST.get(r['state'], 'DEFAULT')}")
            return None
        if case.get("mode") == "free":
            return None                            # real interleavings: the oracle only
        tr = [r for r in obs["trace"] if r["op"][0] != "co"]
        # after a timeout the pipes hold answers of an earlier call; a *_wait of a different kind then fails inside
        # the parent with an arbitrary exception (reported by the oracle as timeout-stale): K compares the prefix
        seen_timeout = False
        for i, r in enumerate(tr):
            if r["out"] == "Timeout":
                seen_timeout = True
            if seen_timeout and r["out"] == "Other":
                tr = tr[:i]
                break
        ops = [cq_op(r["op"]) for r in tr]
        obl = []
        for r in tr:
            oc = f"CO_Exc {r['code']}" if r["out"] == "Exc" else OUT[r["out"]]
            st = ST.get(r["state"], "DEFAULT")
            alive = "[" + "; ".join(cq_bool(a) for a in r["alive"]) + "]"
            g = "None" if r.get("seqs") is None else "(Some [" + "; ".join(str(int(s)) for s in r["seqs"]) + "])"
            obl.append(f"({oc}, {st}, {cq_bool(r['closed'])}, {alive}, {g})")
        plans = "[" + "; ".join("[" + "; ".join(cq_behav(b) for b in p) + "]" for p in case["plans"]) + "]"
        if any(r["op"][0] in ("sync", "argerr", "getattr") for r in tr):
            ops = [o if o.startswith("X") else f"XOp ({o})" for o in ops]
            return f"check_run_x {self.variant} {plans} [{'; '.join(ops)}] [{'; '.join(obl)}]"
        return f"check_run {self.variant} {plans} [{'; '.join(ops)}] [{'; '.join(obl)}]"

    # ---------- oracle: the property stated directly on the run
    def oracle(self, case, obs):
        out = []
        if obs.get("skipped"):
            return out
        n = len(case["plans"])
        free = case.get("mode") == "free"
        if obs["orphans"]:
            out.append(Violation("no-orphans", "orphan-processes", f"worker processes survived the teardown: {obs['orphans']}"))
        if obs.get("hard_phase") in ("construct", "start"):
            out.append(Violation("no-hang", "hang:constructor", f"the environment could not be constructed within {CASE_LIMIT} s "
                                 "(the supervising process killed the run)"))
        elif obs.get("hard_phase") in ("teardown", "between", "idle"):
            out.append(Violation("no-hang", f"hang:{obs.get('hard_phase')}", f"the run did not finish within {CASE_LIMIT} s after its last "
                                 "operation (the supervising process killed the whole process group)"))
        co_used, co_failed, co_closed, co_cmds = False, False, False, 0
        knob = [0] * n          # what get_attr("knob") must return: the values of the last successful set_attr
        gone_before = False     # a wait on the pending call already failed because a worker is gone (half-consumed call)
        clean = True            # no timeout / dead worker / failed call so far
        killed = False
        pending_expect = None
        seen_timeout = False
        bad_pending = False
        for i, r in enumerate(obs["trace"]):
            op = r["op"]
            if r["out"] == "Timeout":
                seen_timeout = True
            k = op[0]
            sb, cb = r["state_before"], r["closed_before"]
            where = f"op {i} {op}"
            # ---- a second environment in the same process is a world of its own
            if "co_alive" in r:
                if k == "co":
                    co = case["companion"]
                    want_exc = [b[1] for p in co["plans"] for b in p[:1] if b[0] == "raise"] if not co_used else []
                    if op[1] in ("reset", "call"):
                        co_used = True
                        ok = (r["out"] == "Exc" and r["code"] in want_exc) if want_exc else (r["out"] == "Ok" and r["seqs"] is not None and all(x == co_cmds for x in r["seqs"]))
                        if not ok and not co_failed:
                            out.append(Violation("independent-environments", f"companion:{op[1]}",
                                                 f"{where}: the companion environment (plans {co['plans']}) answered {r['out']} ({r['exc']}), results {r['seqs']}; "
                                                 + (f"expected the exception its own worker raised ({[EXC_NAMES[x] for x in want_exc]})" if want_exc else f"expected Ok with command number {co_cmds}")))
                        if want_exc:
                            co_failed = True
                        co_cmds += 1
                    elif op[1] == "close":
                        if r["out"] != "Ok" or any(r["co_alive"]) or not r["co_closed"]:
                            out.append(Violation("independent-environments", "companion:close", f"{where}: companion close -> {r['out']} ({r['exc']}), alive {r['co_alive']}"))
                        co_closed = True
                    if r["state"] != sb or r["closed"] != cb or r["alive"] != r["alive_before"]:
                        out.append(Violation("independent-environments", "companion:disturbs-main",
                                             f"{where}: a call on the companion environment changed the main one: state {sb}->{r['state']}, closed {cb}->{r['closed']}, alive {r['alive_before']}->{r['alive']}"))
                    continue
                if not co_closed and not co_failed and not all(r["co_alive"]):
                    out.append(Violation("independent-environments", f"companion:worker-lost:{k}",
                                         f"{where}: a call on the main environment left the companion's workers {r['co_alive']}"))
                    co_failed = True
                if r.get("co_state") != "default" and not co_failed:
                    out.append(Violation("independent-environments", f"companion:state:{k}", f"{where}: the companion's state became `{r.get('co_state')}`"))
                    co_failed = True
            # ---- the callee must not write into what it was handed
            if r.get("args_modified"):
                out.append(Violation("arguments-unmodified", f"args-modified:{k}:{'+'.join(r['args_modified'])}",
                                     f"{where}: the call changed its argument(s) {r['args_modified']} (compared with a deep copy taken before the call)"))
            if k == "setattr_list":
                k = "setattr"
            elif k == "getattr":
                k, op = "sync", ["sync", "call"]
            # (free-running: a worker that raised earlier may finish exiting at any moment)
            unchanged = (r["state"] == sb and r["closed"] == cb and (free or r["alive"] == r["alive_before"]))
            if k in ("release", "kill"):
                if k == "kill":
                    killed = True
                    clean = False
                continue
            # ---- clause 1: misuse is rejected with the documented error and changes nothing
            if cb and k != "close":
                if r["out"] != "Closed" or not unchanged:
                    out.append(Violation("misuse-rejected", f"misuse:after-close:{k}",
                                         f"{where} after close(): outcome {r['out']} ({r['exc']}), state {sb}->{r['state']}"))
                continue
            if cb and k == "close":
                if r["out"] != "Ok":
                    out.append(Violation("misuse-rejected", "misuse:close-twice", f"{where}: second close() -> {r['out']} ({r['exc']})"))
                continue
            if k == "argerr":
                # rejected for its arguments before the pending-call guard is even looked at: documented error, nothing changes
                if r["out"] != "ArgErr" or not unchanged or any(r["sent"]):
                    out.append(Violation("misuse-rejected", f"argument:{op[1]}",
                                         f"{where} (state `{sb}`): outcome {r['out']} ({r['exc']}: {r.get('msg')}), state {sb}->{r['state']}, commands sent {r['sent']}"))
                continue
            if k in ("async", "callbad", "setattr", "sync") and sb != "default":
                if r["out"] != "Pending" or not unchanged or any(r["sent"]):
                    out.append(Violation("misuse-rejected", f"misuse:pending:{k}",
                                         f"{where} while `{sb}` is pending: outcome {r['out']} ({r['exc']}), state {sb}->{r['state']}, commands sent {r['sent']}"))
                continue
            if k == "wait" and sb != op[1]:
                if r["out"] != "NoCall" or not unchanged:
                    out.append(Violation("misuse-rejected", f"misuse:no-async-call:{op[1]}",
                                         f"{where} in state `{sb}`: outcome {r['out']} ({r['exc']}), state {sb}->{r['state']}"))
                continue
            # ---- staggered answers: the timeout is one shared deadline for all pipes
            if case.get("stag") is not None and ((k == "wait" and is_num(op[2])) or (k == "close" and is_num(op[1]) and sb != "default")):
                T = float(op[2] if k == "wait" else op[1])
                late = [d for d in case["stag"] if d > T]
                if late:
                    if k == "wait" and r["out"] != "Timeout":
                        out.append(Violation("timeout-reported", f"timeout:not-reported:{op[1]}:staggered",
                                             f"{where}: workers answer after {case['stag']} s, timeout {T} s: outcome {r['out']} ({r['exc']}) after {r['dt']} s "
                                             "instead of TimeoutError (the deadline must be shared by all pipes)"))
                    elif r["dt"] >= min(late) - STAG_MARGIN:
                        out.append(Violation("timeout-reported" if k == "wait" else "close-total",
                                             f"timeout:late:{op[1]}:staggered" if k == "wait" else "close:timeout-exceeded:staggered",
                                             f"{where}: workers answer after {case['stag']} s, timeout {T} s: the call took {r['dt']} s "
                                             f"(it waited for the straggler instead of giving up at {T} s)"))
                elif k == "wait" and r["out"] == "Timeout":
                    out.append(Violation("timeout-reported", f"timeout:spurious:{op[1]}:staggered",
                                         f"{where}: every worker answers within {case['stag']} s < {T} s but the call timed out"))
            # ---- legal calls
            if r["out"] == "Hang":
                if k == "close":
                    out.append(Violation("close-total", "close:hang", f"{where}: close() did not return within {GUARD}s"
                                         f" (state {sb}, alive before {r['alive_before']})"))
                elif not (k == "wait" and gone_before):
                    # (a SECOND wait on a call that already failed half-way may block: outside the property)
                    dead = [j for j in range(n) if not r["alive_before"][j]]
                    out.append(Violation("no-hang", f"hang:{k}" + (":dead-worker" if dead else ""),
                                         f"{where}: the call did not return" + (f" (hard limit {CASE_LIMIT} s, killed from outside)" if r.get("hard") else "")
                                         + (f"; worker(s) {dead} had died — their death must surface promptly as EOFError/ConnectionError (or TimeoutError)" if dead
                                            else " although every worker is alive")))
                break
            if k == "close":
                bad = []
                if r["out"] != "Ok":
                    bad.append(f"raised {r['exc']}: {r.get('msg')}")
                if any(r["alive"]):
                    bad.append(f"workers alive afterwards: {r['alive']}")
                if not r["closed"]:
                    bad.append("closed flag not set")
                if r["dt"] >= GUARD:
                    bad.append(f"took {r['dt']}s")
                if bad:
                    sig = "close:raises" if r["out"] != "Ok" else "close:leaves-workers" if any(r["alive"]) else "close:incomplete"
                    out.append(Violation("close-total", sig, f"{where} (state {sb}, alive before {r['alive_before']}): " + "; ".join(bad)))
                if (op[1] or op[2]) and any(e[0] in ("blocked-on-sleeper", "join-on-sleeper", "auto-release") for e in r["events"]):
                    if op[1] and not op[2] and sb == "default":
                        out.append(Violation("timeout-stale", "timeout-stale:close-waits-for-sleeper",
                                             f"{where}: close(timeout) waited for a sleeping worker "
                                             f"(the state had been reset to default by an earlier timeout): {r['events']}"))
                    else:
                        out.append(Violation("close-total", "close:waits-for-sleeper",
                                             f"{where} (state {sb}): close with a timeout / terminate=True waited for a sleeping worker: {r['events']}"))
                continue
            if k == "async" and r["out"] == "Ok":
                pending_expect = r.get("expect_seqs")
            if k == "callbad":
                # call_async of a forbidden name: every worker raises ValueError itself; the wait must re-raise it
                bad_pending = clean and r["out"] == "Ok"
                clean = False
                continue
            if k == "wait" and bad_pending:
                bad_pending = False
                if not (r["out"] == "Exc" and r["code"] == 0 and r["state"] == "default"):
                    out.append(Violation("fault-surfaces", "fault:not-surfaced:forbidden-call",
                                         f"{where}: the workers rejected the forbidden call with ValueError, caller got {r['out']} ({r['exc']}), state `{r['state']}`"))
                continue
            raisers = [j for j in range(n) if r["raised"][j] >= 0]
            others_alive = all(r["alive"][j] for j in range(n) if j not in raisers)
            if k == "sync" and r["out"] == "Ok" and r.get("expect_seqs") is not None and (r["seqs"] is None or list(r["seqs"]) != list(r["expect_seqs"])):
                out.append(Violation("timeout-stale" if seen_timeout else "legal-call", ("timeout-stale" if seen_timeout else "sync") + f":{op[1]}-returns-old-results",
                                     f"{where}: results carry command numbers {r['seqs']}, this call sent {r['expect_seqs']}"))
            if k in ("wait", "setattr", "sync"):
                # ---- clause 3: a sleeping worker + finite timeout is reported as a timeout (and only then)
                if k == "wait" and op[2] and clean and any(r["blocked_before"]) and r["out"] != "Timeout":
                    out.append(Violation("timeout-reported", f"timeout:not-reported:{op[1]}",
                                         f"{where}: worker(s) {r['blocked_before']} sleeping past the timeout, outcome {r['out']} ({r['exc']})"))
                if r["out"] == "Timeout" and not (k == "wait" and op[2]):
                    out.append(Violation("timeout-reported", f"timeout:spurious:{k}", f"{where}: timeout although no timeout was given"))
                elif r["out"] == "Timeout" and clean and not any(r["blocked_before"]) and all(r["alive_before"]) and not free:
                    out.append(Violation("timeout-reported", f"timeout:spurious:{k}", f"{where}: timeout although every worker had answered"))
                # ---- clause 2: an exception raised in a sub-environment reaches the caller with its type
                if clean and r["out"] != "Timeout" and others_alive:
                    kk = "setattr" if k == "setattr" else op[1]
                    if raisers:
                        types = {r["raised"][j] for j in raisers}
                        if not (r["out"] == "Exc" and r["code"] in types):
                            out.append(Violation("fault-surfaces", f"fault:not-surfaced:{kk}",
                                                 f"{where}: worker(s) {raisers} raised {[EXC_NAMES[r['raised'][j]] for j in raisers]}, "
                                                 f"caller got {r['out']} ({r['exc']})"))
                        elif r["state"] != "default":
                            out.append(Violation("fault-surfaces", "fault:state-stuck", f"{where}: state `{r['state']}` after the error was raised"))
                    elif r["out"] == "Exc":
                        out.append(Violation("fault-surfaces", f"fault:spurious:{kk}", f"{where}: {r['exc']} although no sub-environment raised"))
                # ---- separately reported clause: results belong to the call that was waited for
                if k == "wait" and r["out"] == "Other" and seen_timeout:
                    out.append(Violation("timeout-stale", f"timeout-stale:{op[1]}-wait-fails-on-old-results",
                                         f"{where}: {r['exc']}: {r.get('msg')} (answers of an earlier, timed-out call were still in the pipes)"))
                if k == "wait" and r["out"] == "Ok" and pending_expect is not None:
                    if r["seqs"] is None or list(r["seqs"]) != list(pending_expect):
                        out.append(Violation("timeout-stale", f"timeout-stale:{op[1]}-wait-returns-old-results",
                                             f"{where}: results carry command numbers {r['seqs']}, the pending call sent {pending_expect}"
                                             " (an earlier timeout reset the state while answers were still in flight)"))
            # ---- a legal call on a healthy environment succeeds
            if clean and not raisers and all(r["alive"]) and not any(r["blocked_before"]) and k != "callbad":
                if r["out"] != "Ok" and not (r["out"] == "Timeout"):
                    out.append(Violation("legal-call", f"legal-call-fails:{k}", f"{where} on a healthy environment: {r['out']} ({r['exc']}: {r.get('msg')})"))
                elif k in ("async",) and r["state"] != op[1]:
                    out.append(Violation("legal-call", f"legal-call-state:{k}", f"{where}: state `{r['state']}` after a successful {op[1]}_async"))
                elif k in ("wait", "setattr", "sync") and r["out"] == "Ok" and r["state"] != "default":
                    out.append(Violation("legal-call", f"legal-call-state:{k}", f"{where}: state `{r['state']}` after a successful call"))
            if r["op"][0] in ("setattr", "setattr_list") and r["out"] == "Ok":
                knob = [7] * n if r["op"][0] == "setattr" else [10 + j for j in range(n)]
            if r["op"][0] == "getattr" and r["out"] == "Ok" and clean and r.get("values") != knob:
                out.append(Violation("legal-call", "set_attr:values-not-distributed",
                                     f"{where}: get_attr returned {r.get('values')}, the last successful set_attr set {knob}"))
            if k == "wait" and r["out"] == "Gone":
                gone_before = True
            if r["state"] == "default":
                gone_before = False
            if r["out"] != "Ok":
                clean = False
            if not others_alive:              # a worker died without raising (killed / died by itself)
                clean = False
        return out

    # ---------- bookkeeping
    def key(self, case):
        return hashlib.sha1(ckey(case).encode()).hexdigest()

    def nontrivial(self, case, obs):
        if obs.get("skipped"):
            return False
        if case.get("stag") is not None:
            return True
        for r in obs["trace"]:
            if r["op"][0] in ("kill", "callbad"):
                return True
            if r["out"] in ("Pending", "NoCall", "Closed", "Timeout", "Exc", "Gone", "Attr", "Hang", "ArgErr"):
                return True
            if any(r["blocked_before"]):
                return True
        return False

    def classify(self, case, obs):
        if obs.get("skipped"):
            return ["skipped"]
        labs = [f"fam={case.get('fam', 'corpus')}", f"workers={len(case['plans'])}"]
        for r in obs["trace"]:
            op = r["op"]
            labs.append(f"op={op[0]}" + (f":{op[1]}" if op[0] in ("async", "wait") else ""))
            labs.append(f"outcome={r['out']}" + (f":{EXC_NAMES[r['code']]}" if r["out"] == "Exc" else ""))
            if op[0] == "close" and not r["closed_before"]:
                labs.append(f"close-from={r['state_before']}:fin={op[1]}:term={op[2]}:alive={sum(r['alive_before'])}/{len(r['alive_before'])}")
        for p in case["plans"]:
            for b in p:
                if b[0] != "normal":
                    labs.append(f"fault={b[0]}")
        return labs

    def neighbours(self, case, rng):
        # same case with one op dropped; run as one batch in the sandbox; bounded number of searches per check
        self.nb_calls = getattr(self, "nb_calls", 0) + 1
        if self.nb_calls > 5:
            return
        nbs = []
        for i in range(len(case["ops"])):
            c = dict(case)
            c["ops"] = case["ops"][:i] + case["ops"][i + 1:]
            if c["ops"] and c.get("stag") is None:
                nbs.append(c)
        nbs = nbs[:5]
        self.prefetch(nbs)
        for c in nbs:
            yield c


if __name__ == "__main__":
    if len(sys.argv) >= 3 and sys.argv[1] == "--runner":
        sys.exit(runner_main(sys.argv[2]))
    sys.exit(vlib.run_check(C13()))
