"""C08 helper — "the quantity minimised by a learn step is the defined loss".

The gradient every value network has at the moment its optimiser steps is recorded from outside (StepRecorder).
This module recomputes the gradient of the DEFINED
loss (Bellman target from the tables, mean-squared error / CQL regulariser / C51 cross-entropy) on a deep copy of
the network taken before the call, so the harness can compare directions.  Autograd is opaque to the Coq model:
this is an implementation-side oracle clause only.
"""
from __future__ import annotations

import copy

import numpy as np
import torch

SINGLE_DISCRETE = ("DQN", "DDQN", "CQN", "CDQN")


def _flat_grads(net):
    out = []
    for p in net.parameters():
        out.append((p.grad if p.grad is not None else torch.zeros_like(p)).detach().reshape(-1).to(torch.float64))
    return torch.cat(out).numpy().copy() if out else np.zeros(0)


class StepRecorder:
    """records, for every optimiser step taken inside the with-block, the gradient each parameter has at that moment
    (a global optimiser step pre-hook: nothing of the library is modified).  This is the gradient the update is
    computed from, also for critics whose .grad is overwritten later in the same learn call by the actor loss."""

    def __init__(self):
        self.grads = {}
        self.steps = 0

    def _hook(self, optimizer, args, kwargs):
        self.steps += 1
        for group in optimizer.param_groups:
            for p in group["params"]:
                self.grads[id(p)] = None if p.grad is None else p.grad.detach().clone()

    def __enter__(self):
        from torch.optim.optimizer import register_optimizer_step_pre_hook
        self._h = register_optimizer_step_pre_hook(self._hook)
        return self

    def __exit__(self, *a):
        self._h.remove()
        return False


def grad_nets(agent, algo, updating=None):
    """the online value networks: their gradient at the optimiser step must be the gradient of the defined loss"""
    if algo in SINGLE_DISCRETE or algo == "Rainbow":
        return [("actor", agent.actor)]
    if algo == "DDPG":
        return [("critic", agent.critic)]
    if algo == "TD3":
        return [("critic_1", agent.critic_1), ("critic_2", agent.critic_2)]
    out = []
    for i in range(len(agent.agent_ids)):
        if algo == "MATD3":
            out += [(f"critic_1[{i}]", agent.critics_1[i]), (f"critic_2[{i}]", agent.critics_2[i])]
        else:
            out += [(f"critic[{i}]", agent.critics[i])]
    return out


def copies(agent, algo, updating=None):
    return [(n, copy.deepcopy(net)) for n, net in grad_nets(agent, algo)]


def impl_grads(agent, algo, recorded):
    """gradient each value network had when its optimiser stepped (zeros where no step saw the parameter)"""
    out = {}
    for n, net in grad_nets(agent, algo):
        vec = []
        for p in net.parameters():
            g = recorded.get(id(p))
            vec.append((g if g is not None else torch.zeros_like(p)).reshape(-1).to(torch.float64))
        out[n] = torch.cat(vec).numpy().copy() if vec else np.zeros(0)
    return out


def _projection(tt, gam, sup, vmin, vmax, dz, N):
    rows = []
    for i in range(len(tt["r"])):
        tz = np.clip(tt["r"][i] + (1 - tt["d"][i]) * gam * sup, vmin, vmax)
        b = np.clip((tz - vmin) / dz, 0, N - 1)
        L, u = np.floor(b).astype(int), np.ceil(b).astype(int)
        L[(u > 0) & (L == u)] -= 1
        u[(L < N - 1) & (L == u)] += 1
        proj = np.zeros(N)
        p = np.array(tt["p"][i])
        np.add.at(proj, L, p * (u - b))
        np.add.at(proj, u, p * (b - L))
        rows.append(proj)
    return torch.tensor(np.array(rows), dtype=torch.float32)


def reference_grads(agent, case, batch, t, nets, agent_ids=None):
    """gradient of the defined loss w.r.t. the copied (pre-step) networks"""
    algo, g = case["algo"], float(case["gamma"])
    out = {}
    if not nets:
        return out
    for _, n in nets:
        n.zero_grad()
    if algo in SINGLE_DISCRETE:
        net = nets[0][1]
        dbl = algo in ("DDQN", "CDQN")
        ys = []
        for i in range(len(t["a"])):
            nxt = t["qtn"][i][int(np.argmax(t["qon"][i]))] if dbl else max(t["qtn"][i])
            ys.append(t["r"][i] + g * (1.0 - t["d"][i]) * nxt)
        y = torch.tensor(ys, dtype=torch.float32).reshape(-1, 1)
        obs = agent.preprocess_observation(batch["obs"])
        q_all = net(obs)
        q = q_all.gather(1, batch["action"].long().reshape(-1, 1))
        loss = torch.mean((q - y) ** 2)
        if algo in ("CQN", "CDQN"):
            loss = (torch.logsumexp(q_all, dim=1).mean() - q_all.mean()) + 0.5 * loss
        loss.backward()
    elif algo == "Rainbow":
        net = nets[0][1]
        rb = case["rb"]
        N = rb["atoms"]
        vmin, vmax = float(np.float32(rb["vmin"])), float(np.float32(rb["vmax"]))
        dz = (rb["vmax"] - rb["vmin"]) / (N - 1)
        sup = np.array(t["support"])
        use1 = rb["combined"] or t["n"] is None
        e = 0.0
        for key, b, gam, use in (("one", batch[0], float(np.float32(g)), use1),
                                 ("n", batch[1], float(np.float32(g ** rb["n_step"])), t["n"] is not None)):
            if not use:
                continue
            proj = _projection(t[key], gam, sup, vmin, vmax, dz, N)
            obs = agent.preprocess_observation(b["obs"])
            B = b["reward"].shape[0]
            logp = net(obs, q=False, log=True)[range(B), b["action"].reshape(-1).long()]
            e = e + (-(proj * logp).sum(1))
        w = torch.tensor(t["w"], dtype=torch.float32)
        torch.mean(e * w).backward()
    else:
        if algo in ("DDPG", "TD3"):
            tabs = [t] * len(nets)
            obs = agent.preprocess_observation(batch["obs"])
            args = (obs, batch["action"])
            ks = list(range(len(nets)))
        else:            # MADDPG (one critic per agent) / MATD3 (two): stacked observations / actions in agent_ids order
            st, ac = batch[0], batch[1]
            st = agent.preprocess_observation(st)
            sst = torch.cat([st[a] for a in agent_ids], dim=1)
            sac = torch.cat([ac[a] for a in agent_ids], dim=1)
            args = (sst, sac)
            per = 2 if algo == "MATD3" else 1
            tabs = [t["agents"][j // per] for j in range(len(nets))]
            ks = [j % per for j in range(len(nets))]
        for (name, net), ta, k in zip(nets, tabs, ks):
            qns = np.array(ta["qns"])
            y = np.array(ta["r"]) + (1 - np.array(ta["d"])) * g * qns.min(axis=1)
            y = torch.tensor(y, dtype=torch.float32).reshape(-1, 1)
            q = net(*args)
            torch.mean((q - y) ** 2).backward()
    for name, net in nets:
        out[name] = _flat_grads(net)
    return out


def compare(ref, got):
    """-> list of (name, cosine, norm ratio got/ref) for networks whose reference gradient is not ~0"""
    res = []
    for name, r in ref.items():
        gvec = got.get(name)
        if gvec is None or len(gvec) != len(r):
            res.append((name, None, None))
            continue
        nr, ng = float(np.linalg.norm(r)), float(np.linalg.norm(gvec))
        if nr < 1e-7:
            continue
        if ng == 0.0:
            res.append((name, 0.0, 0.0))       # grads cleared or never computed: cannot be observed
            continue
        res.append((name, float(np.dot(r, gvec) / (nr * ng)), ng / nr))
    return res
