"""C20 — runs one real train_* function on tiny real components and turns the event log into an observation.

Used by harness/c20.py (`run_impl`). Everything is driven from outside: scripted environments that log every
reset()/step(), class-level wrappers around the public agent API (get_action / learn / test / clone /
save_checkpoint) and thin subclasses of TournamentSelection / Mutations that log their public entry points.
"""
from __future__ import annotations

import contextlib
import copy
import io
import os
import random
import shutil
import signal
from pathlib import Path

import numpy as np
import torch

import c20_envs as E

LOOPS = {
    "off": ("agilerl.training.train_off_policy", "train_off_policy"),
    "on": ("agilerl.training.train_on_policy", "train_on_policy"),
    "offline": ("agilerl.training.train_offline", "train_offline"),
    "bandit": ("agilerl.training.train_bandits", "train_bandits"),
    "maoff": ("agilerl.training.train_multi_agent_off_policy", "train_multi_agent_off_policy"),
    "maon": ("agilerl.training.train_multi_agent_on_policy", "train_multi_agent_on_policy"),
}
ALGOS = {
    "off": ["DQN", "Rainbow DQN", "DDPG", "TD3"],
    "on": ["PPO"],
    "offline": ["CQN"],
    "bandit": ["NeuralUCB", "NeuralTS"],
    "maoff": ["MADDPG", "MATD3"],
    "maon": ["IPPO"],
}
CONT = {"DDPG", "TD3"}
NET = {"encoder_config": {"hidden_size": [16]}, "head_config": {"hidden_size": [16]}}


class Timeout(Exception):
    pass


def _alarm(signum, frame):
    raise Timeout("CPU-time guard: the training function did not return")


def fingerprint(agent):
    """content hash of the evaluation (policy / trained) networks of the agent, weights only. Target networks are
    left out on purpose: Mutations.mutation re-creates every shared (target) network from its evaluation network
    for every individual, whatever mutation was drawn (C02's subject), which does not change how the agent acts."""
    import hashlib
    h = hashlib.sha1()
    for name in sorted(g.eval for g in agent.registry.groups):
        net = getattr(agent, name)
        nets = [net] if hasattr(net, "state_dict") else (list(net.values()) if isinstance(net, dict) else list(net))
        for j, m in enumerate(nets):
            sd = m.state_dict()
            for k in sorted(sd):
                v = sd[k]
                if torch.is_tensor(v):
                    h.update(f"{name}.{j}.{k}".encode())
                    h.update(v.detach().cpu().contiguous().numpy().tobytes())
    return h.hexdigest()[:16]


def snap(agent, eval_loop=1):
    return {"id": id(agent), "index": int(agent.index), "steps": [int(s) for s in agent.steps],
            "nfit": len(agent.fitness), "fit_tail": [float(np.mean(f)) for f in agent.fitness[-max(1, eval_loop):]],
            "learn_step": int(getattr(agent, "learn_step", 1)), "batch_size": int(agent.batch_size)}


def tour_eval_loop(case):
    """TournamentSelection.eval_loop: the training function's eval_loop, but 1 when that is 3 (a mean over three fitness
    values is not dyadic: keeps the elite comparison exact)"""
    e = case.get("eval_loop", 1)
    return int(case.get("tour_eval_loop", e if e <= 2 else 1))


def _same(a, b):
    """deep equality of plain containers / arrays"""
    if isinstance(a, dict):
        return isinstance(b, dict) and list(a.keys()) == list(b.keys()) and all(_same(a[k], b[k]) for k in a)
    if isinstance(a, (list, tuple)):
        return type(a) is type(b) and len(a) == len(b) and all(_same(x, y) for x, y in zip(a, b))
    if isinstance(a, np.ndarray):
        return isinstance(b, np.ndarray) and a.dtype == b.dtype and a.shape == b.shape and bool(np.array_equal(a, b))
    return type(a) is type(b) and a == b


def _create(kw, algo, ospace, aspace, net, hp, hpc, npop, num_envs):
    """create_population; the caller's net_config and INIT_HP dictionaries must come back as they were handed over"""
    from agilerl.utils.utils import create_population
    net0, hp0 = copy.deepcopy(net), copy.deepcopy(hp)
    pop = create_population(algo, ospace, aspace, net, hp, hp_config=hpc, population_size=npop, num_envs=num_envs)
    ch = kw.setdefault("_args_changed", [])
    if not _same(net, net0):
        ch.append(f"create_population:net_config {net0} -> {net}")
    if not _same(hp, hp0):
        ch.append("create_population:INIT_HP")
    return pop


def build(case, log, ckdir):
    """environment, population, memory and the keyword arguments of the training function"""
    from gymnasium import spaces
    from agilerl.utils.utils import create_population
    from agilerl.components.replay_buffer import ReplayBuffer, MultiStepReplayBuffer, PrioritizedReplayBuffer
    from agilerl.components.multi_agent_replay_buffer import MultiAgentReplayBuffer
    from agilerl.algorithms.core.registry import HyperparameterConfig, RLParameter

    loop, algo, ne = case["loop"], case["algo"], case["num_envs"]
    act = "box" if algo in CONT or case.get("act") == "box" else "discrete"
    kw = {}
    hp = {"BATCH_SIZE": case["batch_size"], "LEARN_STEP": case["learn_step"], "N_STEP": case.get("n_step", 3),
          "NUM_ATOMS": 5, "V_MIN": 0.0, "V_MAX": 4.0, "UPDATE_EPOCHS": 1, "O_U_NOISE": True,
          "LAMBDA": 1.0, "REG": 0.000625, "GAMMA": 1.0, "LR": 0.001, "GAE_LAMBDA": 0.95, "ACTION_STD_INIT": 0.6,
          "CLIP_COEF": 0.2, "ENT_COEF": 0.01, "VF_COEF": 0.5, "MAX_GRAD_NORM": 0.5, "TARGET_KL": None}
    if case.get("share_encoders") is not None:
        hp["SHARE_ENCODERS"] = case["share_encoders"]
    hpc = None
    if case.get("mut") == "hp":
        hpc = HyperparameterConfig(batch_size=RLParameter(min=2, max=8, dtype=int),
                                   learn_step=RLParameter(min=1, max=8, dtype=int))
    npop = case["pop"]
    if loop in ("off", "on", "offline"):
        img = bool(case.get("image"))
        dob = bool(case.get("dictobs"))
        mx_ = bool(case.get("mixed"))
        env = (E.CountVecEnv(log, ne, case["ep_len"], act, image=img, dictobs=dob, mixed=mx_) if ne > 0
               else E.CountEnv(log, case["ep_len"], act, image=img, dictobs=dob, mixed=mx_))
        ospace = env.single_observation_space if ne > 0 else env.observation_space
        aspace = env.single_action_space if ne > 0 else env.action_space
        net = copy.deepcopy(NET)
        if img:     # the agents see channels-first images; the loop converts with swap_channels=True
            ospace = spaces.Box(-1.0, 1.0, (E.IMG[2], E.IMG[0], E.IMG[1]), np.float32)
            net = {"encoder_config": {"channel_size": [3], "kernel_size": [3], "stride_size": [1]},
                   "head_config": {"hidden_size": [16]}}
            kw["swap_channels"] = True
        if dob:
            net = None           # default multi-input encoder
        pop = _create(kw, algo, ospace, aspace, net, hp, hpc, npop, max(ne, 1))
    elif loop == "bandit":
        env = E.CountBanditEnv(log, arms=3, dim=2)
        ospace = spaces.Box(-10.0, 10.0, env.context_dim, np.float32)
        aspace = spaces.Discrete(env.arms)
        pop = _create(kw, algo, ospace, aspace, copy.deepcopy(NET), hp, hpc, npop, 1)
    else:
        ids = ["a_0", "a_1"] if not case.get("grouped") else ["a_0", "a_1", "b_0"]
        if case.get("ids") == "unsorted":      # caller-provided order that is neither sorted nor grouped
            ids = ["b_1", "a_0", "b_0"] if case.get("grouped") else ["z_0", "a_0"]
        act = "box" if case.get("act") == "box" else "discrete"
        rev = bool(case.get("rev"))            # the environment's dictionaries come in another key order
        env = (E.CountParallelVecEnv(log, ne, case["ep_len"], act, ids, rev=rev) if ne > 0
               else E.CountParallelEnv(log, case["ep_len"], act, ids, rev=rev))
        if case.get("sum_scores") is not None:
            kw["sum_scores"] = bool(case["sum_scores"])
        hp["AGENT_IDS"] = ids
        ospaces = [env._os[a] for a in ids]
        aspaces = [env._as[a] for a in ids]
        pop = _create(kw, algo, ospaces, aspaces, copy.deepcopy(NET), hp, hpc, npop, max(ne, 1))
    memory = None
    if loop in ("off", "offline", "bandit"):
        cap = case.get("mem_cap", 64)
        m = case.get("memory", "uniform")
        if m in ("per", "per+nstep"):
            memory = PrioritizedReplayBuffer(cap, alpha=0.6)
            kw["per"] = True
        else:
            memory = ReplayBuffer(cap)
        if m in ("nstep", "per+nstep"):
            kw["n_step_memory"] = MultiStepReplayBuffer(cap, n_step=case.get("n_step", 3), gamma=0.99)
            kw["n_step"] = True
        if loop != "off":
            kw.pop("per", None)
    elif loop == "maoff":
        memory = MultiAgentReplayBuffer(case.get("mem_cap", 64),
                                        field_names=["state", "action", "reward", "next_state", "done"],
                                        agent_ids=ids)
    if loop == "offline":
        n = case.get("dataset", 12)
        rs = np.random.RandomState(case.get("seed", 0))
        oshape = E.IMG if case.get("image") else (4,)       # images are stored channels-last, the loop swaps them
        kw["dataset"] = {"observations": rs.rand(n, *oshape).astype(np.float32), "actions": rs.randint(0, 2, (n, 1)),
                         "rewards": (rs.randint(0, 4, (n, 1)) * 0.25).astype(np.float32),
                         "terminals": (np.arange(n) % 4 == 3).reshape(n, 1)}
    return env, pop, memory, kw


def run_loop(case, build_dir: Path, guard_s=60):
    """-> observation dict (JSON-serialisable)"""
    import importlib
    from agilerl.hpo.tournament import TournamentSelection
    from agilerl.hpo.mutation import Mutations

    seed = case.get("seed", 0)
    random.seed(seed); np.random.seed(seed); torch.manual_seed(seed)
    torch.set_num_threads(1)      # tiny networks; avoids spin-waiting of the intra-op pool on a loaded machine
    log = []
    ckdir = build_dir / "ckpt" / f"{os.getpid()}"
    if ckdir.exists():
        shutil.rmtree(ckdir)
    ckdir.mkdir(parents=True)
    obs = {"completed": False, "error": None, "stage": "build"}
    patched = []
    try:
        env, pop, memory, kw = build(case, log, ckdir)
        if case.get("perm"):            # the caller hands the population over in another index order
            pop = [pop[i] for i in case["perm"]]
        if case.get("preset"):          # ... with history: counters at s, k earlier generations, one clearly best individual
            ps = case["preset"]
            for a in pop:
                a.steps = [int(ps["steps"])] * (int(ps["nfit"]) + 1)
                v = 100.0 if int(a.index) == int(ps.get("best", -1)) else 0.0
                if case.get("sum_scores") is False and hasattr(a, "agent_ids"):
                    v = np.full(len(a.agent_ids), v)          # per-agent scores: one entry per agent id
                a.fitness = [v] * int(ps["nfit"])
        obs["pop_in"] = len(pop)
        obs["pop_in_indices"] = [int(a.index) for a in pop]
        cls = type(pop[0])
        eval_loop = case.get("eval_loop", 1)

        # ---- class-level wrappers around the public agent API
        def wrap(name, mk):
            orig = getattr(cls, name)
            setattr(cls, name, mk(orig))
            patched.append((cls, name, orig))

        state = {"in_test": 0}

        def mk_act(orig):
            def get_action(self, *a, **k):
                if not state["in_test"]:
                    log.append(("act", id(self)))
                return orig(self, *a, **k)
            return get_action

        def mk_learn(orig):
            def learn(self, *a, **k):
                log.append(("learn", id(self)))
                return orig(self, *a, **k)
            return learn

        def mk_test(orig):
            def test(self, *a, **k):
                log.append(("test_begin", id(self)))
                state["in_test"] += 1
                try:
                    r = orig(self, *a, **k)
                finally:
                    state["in_test"] -= 1
                log.append(("test_end", snap(self, eval_loop), float(np.mean(r))))
                return r
            return test

        def mk_clone(orig):
            def clone(self, *a, **k):
                c = orig(self, *a, **k)
                log.append(("clone", id(self), id(c)))
                return c
            return clone

        def mk_save(orig):
            def save_checkpoint(self, path, *a, **k):
                log.append(("save", id(self), os.path.basename(str(path)), int(self.index), [int(x) for x in self.steps]))
                return orig(self, path, *a, **k)
            return save_checkpoint

        wrap("get_action", mk_act); wrap("learn", mk_learn); wrap("test", mk_test)
        wrap("clone", mk_clone); wrap("save_checkpoint", mk_save)

        keep = []   # keeps every agent alive so id() stays unique during the run

        class Tour(TournamentSelection):
            def select(self, population):
                keep.extend(population)
                log.append(("select_begin", [snap(a, self.eval_loop) for a in population],
                            [fingerprint(a) for a in population]))
                elite, new = super().select(population)
                keep.append(elite); keep.extend(new)
                log.append(("select_end", id(elite), [snap(a, self.eval_loop) for a in new],
                            [fingerprint(a) for a in new]))
                return elite, new

        class Mut(Mutations):
            def mutation(self, population, pre_training_mut=False):
                keep.extend(population)
                new = super().mutation(population, pre_training_mut)
                keep.extend(new)
                log.append(("mutation_end", bool(pre_training_mut), [snap(a) for a in new],
                            [fingerprint(a) for a in new], [str(a.mut) for a in new]))
                return new

        built_changed = kw.pop("_args_changed", [])
        tkw = dict(kw)
        tkw["INIT_HP"] = {"BATCH_SIZE": case["batch_size"], "LEARN_STEP": case["learn_step"], "NESTED": {"a": [1, 2]}}
        tkw["MUT_P"] = {"NO_MUT": 0.2, "RL_HP_MUT": 0.8, "LIST": [0.1, 0.2]}
        if case.get("evo"):
            tkw["tournament"] = Tour(case.get("tsize", 2), bool(case.get("elitism", True)),
                                     case.get("tour_pop", len(pop)), tour_eval_loop(case))
            mk = case.get("mut", "none")
            tkw["mutation"] = Mut(no_mutation=1.0 if mk == "none" else 0.2,
                                  architecture=0.4 if mk == "arch" else 0.0, new_layer_prob=0.5,
                                  parameters=0.4 if mk == "param" else 0.0, activation=0.6 if mk == "act" else 0.0,
                                  rl_hp=0.8 if mk == "hp" else 0.0, mutation_sd=0.1,
                                  mutate_elite=bool(case.get("mutate_elite", False)), rand_seed=seed)
        if case.get("checkpoint"):
            tkw["checkpoint"] = int(case["checkpoint"])
            tkw["checkpoint_path"] = str(ckdir / "ck.pt")
            tkw["overwrite_checkpoints"] = bool(case.get("overwrite", False))
        if case.get("save_elite"):
            tkw["save_elite"] = True
            tkw["elite_path"] = str(ckdir / "elite.pt")
        if case.get("target") is not None:
            tkw["target"] = float(case["target"])
        loop = case["loop"]
        mod, fn = LOOPS[loop]
        train = getattr(importlib.import_module(mod), fn)
        args = dict(env=env, env_name="c20", algo=case["algo"], pop=pop, max_steps=case["max_steps"],
                    eval_steps=case.get("eval_steps"), eval_loop=eval_loop, wb=False, verbose=False, **tkw)
        if loop == "bandit":
            args["episode_steps"] = case["episode_steps"]
            args["evo_steps"] = case["evo_steps"]
            args["eval_steps"] = case.get("eval_steps") or 2
        else:
            args["evo_steps"] = case["evo_steps"]
        if loop in ("off", "maoff"):
            args["learning_delay"] = case.get("learning_delay", 0)
        if memory is not None:
            args["memory"] = memory
        obs["stage"] = "train"
        # ---- one or several calls on the same population / memory / environment ("resume": the population a call
        #      returned is handed to the next call with another budget)
        budgets = list(case.get("budgets") or [case["max_steps"]])
        calls = [(b, None) for b in budgets]
        if case.get("second"):      # the SAME tournament / mutation objects, memory and environment, but ANOTHER population
            calls.append((case["second"]["budget"], case["second"]["indices"]))     # (e.g. one that evolved elsewhere)
        segments = []
        cur_pop = pop
        for bi, (budget, new_indices) in enumerate(calls):
            if new_indices is not None:
                _, cur_pop, _, _ = build(dict(case, pop=len(new_indices), perm=None, preset=None), [], ckdir)
                for a, i in zip(cur_pop, new_indices):
                    a.index = int(i)
                ps = case["second"].get("preset")
                if ps:      # it comes with history: counters at s, k earlier generations, one clearly best individual
                    for a in cur_pop:
                        a.steps = [int(ps["steps"])] * (int(ps["nfit"]) + 1)
                        a.fitness = [100.0 if int(a.index) == int(ps["best"]) else 0.0] * int(ps["nfit"])
            seg = {"completed": False, "error": None, "max_steps": int(budget), "call": bi, "fresh_pop": new_indices is not None,
                   "start": [{"index": int(a.index), "steps": [int(x) for x in a.steps],
                              "fitness": [float(np.mean(f)) for f in a.fitness]} for a in cur_pop],
                   "mem_start": int(getattr(memory, "counter", 0)) if memory is not None else 0,
                   "pop_in": len(cur_pop), "pop_in_indices": [int(a.index) for a in cur_pop]}
            segments.append(seg)
            off = len(log)
            args["pop"] = cur_pop
            args["max_steps"] = int(budget)
            # what the caller hands over must not be written into: its population list, the dictionaries, the dataset arrays
            given = list(cur_pop)
            before = {k: copy.deepcopy(args[k]) for k in ("INIT_HP", "MUT_P", "dataset") if k in args}
            mdef = repr(Mutations.__init__.__defaults__)
            # guard on the CPU time of this process (not wall clock: a loaded machine must not produce a false alarm)
            old = signal.signal(signal.SIGPROF, _alarm)
            signal.setitimer(signal.ITIMER_PROF, float(guard_s))
            try:
                try:
                    with contextlib.redirect_stdout(io.StringIO()), contextlib.redirect_stderr(io.StringIO()):
                        ret_pop, ret_fit = train(**args)
                finally:
                    signal.setitimer(signal.ITIMER_PROF, 0.0)
                    signal.signal(signal.SIGPROF, old)
            except Exception:
                seg["log"] = log[off:]
                raise
            seg["completed"] = True
            ch = list(built_changed) if bi == 0 else []
            if len(cur_pop) != len(given) or any(a is not b for a, b in zip(cur_pop, given)):
                ch.append(f"pop list: {len(given)} agents handed over, the caller's list now holds {len(cur_pop)} "
                          f"({sum(1 for a in cur_pop if not any(a is b for b in given))} of them other objects)")
            for k, v in before.items():
                if not _same(args[k], v):
                    ch.append(k)
            if repr(Mutations.__init__.__defaults__) != mdef:
                ch.append("Mutations.__init__ default arguments")
            seg["args_changed"] = ch
            seg["final"] = [snap(a, eval_loop) for a in ret_pop]
            seg["final_fp"] = [fingerprint(a) for a in ret_pop]
            seg["ret_fit_rows"] = [(len(r) if isinstance(r, (list, tuple)) else -1) for r in ret_fit]
            seg["files"] = sorted(p.name for p in ckdir.glob("*"))
            # checkpoints written by the loop (right after a mutation, no learn step in between) can be loaded back
            seg["reloaded"] = []
            for pth in sorted(ckdir.glob("ck_*.pt"))[-2:] + sorted(ckdir.glob("elite*.pt"))[:1]:
                try:
                    a2 = cls.load(str(pth))
                    seg["reloaded"].append({"file": pth.name, "ok": True, "index": int(a2.index), "steps": [int(x) for x in a2.steps],
                                            "nfit": len(a2.fitness), "learn_step": int(getattr(a2, "learn_step", 1)),
                                            "batch_size": int(a2.batch_size)})
                except Exception as e:
                    seg["reloaded"].append({"file": pth.name, "ok": False, "error": f"{type(e).__name__}: {str(e)[:200]}"})
            for pth in ckdir.glob("*"):
                pth.unlink()
            if memory is not None:
                seg["mem_len"] = int(len(memory))
            seg["log"] = log[off:]
            cur_pop = ret_pop
        obs["completed"] = True
        obs["stage"] = "done"
    except Timeout as e:
        obs["error"] = "Timeout: " + str(e)
    except Exception as e:  # the implementation raised: an observation, not a harness error
        import traceback
        tb = traceback.extract_tb(e.__traceback__)
        where = [f"{Path(f.filename).name}:{f.name}" for f in tb if "/agilerl/" in f.filename]
        obs["error"] = f"{type(e).__name__}: {str(e)[:300]}"
        obs["where"] = where[-3:]
        obs["harness_fault"] = not where      # raised outside agilerl (scripted env assertion => still the loop's doing)
    finally:
        for c, n, o in reversed(patched):
            setattr(c, n, o)
        shutil.rmtree(ckdir, ignore_errors=True)
    segs = locals().get("segments") or []
    for seg in segs:
        seg["gens"] = parse_log(seg.pop("log", []), seg["pop_in"])
    if segs and obs.get("error"):
        last = segs[-1]
        last["error"] = obs["error"]; last["where"] = obs.get("where"); last["harness_fault"] = obs.get("harness_fault")
        last["stage"] = obs.get("stage")
    obs["segments"] = segs
    if segs:           # the keys of the last call are mirrored at top level (single-call cases look as before)
        for k, v in segs[-1].items():
            if k not in ("error", "completed"):
                obs[k] = v
    else:
        obs["gens"] = []
    obs["n_events"] = len(log)
    return obs


def parse_log(log, npop):
    """event log -> list of generations.
    generation = {rollouts: [{id, env_steps, step_calls, learns}], tests: [snap+fit], select: {...}|None,
                  mutation: {...}|None, saves: [file names]}   (pre-training mutation is returned as generation -1)"""
    gens = []
    cur = None

    def new():
        return {"rollouts": [], "resets_train": 0, "tests": [], "eval_steps": 0, "eval_resets": 0, "select": None,
                "mutation": None, "saves": [], "pre": None}

    cur = new()
    in_test = False
    phase = "train"      # train -> test -> post
    sel = None
    clones = {}
    for ev in log:
        k = ev[0]
        if k == "mutation_end" and ev[1]:
            cur["pre"] = {"snaps": ev[2], "muts": ev[4]}
            continue
        starts_gen = (k in ("act", "learn", "reset", "step") and not in_test) or k == "test_begin"
        if (phase == "post" and starts_gen) or (phase == "test" and starts_gen and k != "test_begin"):
            gens.append(cur); cur = new(); phase = "train"
        if k == "test_begin":
            phase = "test"; in_test = True
        elif k == "test_end":
            in_test = False
            s = dict(ev[1]); s["fit"] = ev[2]
            cur["tests"].append(s)
        elif k in ("act", "learn"):
            if not cur["rollouts"] or cur["rollouts"][-1]["id"] != ev[1]:
                cur["rollouts"].append({"id": ev[1], "env_steps": 0, "step_calls": 0, "learns": 0})
            if k == "learn":
                cur["rollouts"][-1]["learns"] += 1
        elif k == "step":
            if in_test:
                cur["eval_steps"] += 1
            else:
                if not cur["rollouts"]:
                    cur["rollouts"].append({"id": None, "env_steps": 0, "step_calls": 0, "learns": 0})
                cur["rollouts"][-1]["env_steps"] += ev[1]
                cur["rollouts"][-1]["step_calls"] += 1
        elif k == "reset":
            if not in_test:
                cur["resets_train"] += 1
            else:
                cur["eval_resets"] += 1
        elif k == "clone":
            clones[ev[2]] = ev[1]
        elif k == "select_begin":
            phase = "post"
            sel = {"before": ev[1], "before_fp": ev[2]}
            clones = {}
        elif k == "select_end":
            ids = [s["id"] for s in sel["before"]]

            def root(i):
                seen = 0
                while i in clones and seen < 10:
                    i = clones[i]; seen += 1
                return ids.index(i) if i in ids else -1
            sel["after"] = ev[2]
            sel["after_fp"] = ev[3]
            sel["parents"] = [root(s["id"]) for s in ev[2]]
            sel["elite_parent"] = root(ev[1])
            cur["select"] = sel
        elif k == "mutation_end":
            phase = "post"
            cur["mutation"] = {"snaps": ev[2], "fp": ev[3], "muts": ev[4]}
        elif k == "save":
            if phase == "test":
                phase = "post"
            cur["saves"].append(ev[2])
            cur.setdefault("saved_agents", {})[ev[2]] = {"index": ev[3], "steps": ev[4]}
    if cur["tests"] or cur["rollouts"]:      # a call whose budget is already met only runs the pre-training mutation
        gens.append(cur)
    # drop python ids (not stable, not part of any comparison)
    for g in gens:
        for r in g["rollouts"]:
            r.pop("id", None)
        for t in g["tests"]:
            t.pop("id", None)
        if g["select"]:
            for s in g["select"]["before"] + g["select"]["after"]:
                s.pop("id", None)
        if g["mutation"]:
            for s in g["mutation"]["snaps"]:
                s.pop("id", None)
        if g["pre"]:
            for s in g["pre"]["snaps"]:
                s.pop("id", None)
    return gens
