"""C15 agent-level cases: real agents (DQN / PPO / DDPG, IPPO / MADDPG / MATD3).

kinds
  agent_batch  single-agent get_action on a permuted batch vs the same observations one at a time
  ma_route     multi-agent get_action: which (agent, env) observation produced the output reported for (agent, env)
  ma_ippo_prep IPPO.preprocess_observation: per shared id, the batch handed to the shared policy
  ma_assemble  assemble_homogeneous_outputs / disassemble_homogeneous_outputs on tagged arrays
  ma_stack     stack_critic_observations on prepared observations
(agent.preprocess_observation of single- and multi-agent algorithms is exercised through kind "prep" with an "algo" key.)
"""
from __future__ import annotations

import itertools
import json

import numpy as np
import torch
from gymnasium import spaces

from vlib import Violation, coq_Q
from c15_common import (build_space, leaf_array, space_shape, net_input_shape, tensor1, coq_leaf, coq_tq, coq_nats, coq_qs,
                        is_md_rank3, TOL_NORM, uses_inexact_norm)

KINDS = {"agent_batch", "ma_route", "ma_ippo_prep", "ma_assemble", "ma_stack"}
NOMATCH = 4999

VEC = {"t": "box", "shape": [3], "dtype": "float32", "low": -1, "high": 1}
IMG = {"t": "box", "shape": [2, 6, 6], "dtype": "uint8", "low": 0, "high": 255}
D5 = {"t": "discrete", "n": 5}
MD = {"t": "md", "nvec": [2, 3]}
MB = {"t": "mb", "n": 3}
S0 = {"t": "box", "shape": [], "dtype": "float32", "low": -1, "high": 1}
TUP = {"t": "tuple", "members": [{"t": "discrete", "n": 3}, {"t": "box", "shape": [2], "dtype": "float32", "low": -1, "high": 1}]}
DIMG = {"t": "dict", "fields": [[0, {"t": "box", "shape": [2, 6, 6], "dtype": "uint8", "low": 0, "high": 255}],
                                [1, {"t": "box", "shape": [3], "dtype": "float32", "low": -1, "high": 1}]]}
DCT = {"t": "dict", "fields": [[0, {"t": "discrete", "n": 3}], [1, {"t": "box", "shape": [2], "dtype": "float32", "low": -1, "high": 1}]]}

_cache = {}


def group_of(name):
    return name.rsplit("_", 1)[0] if isinstance(name, str) else name


def shared_ids(names):
    out = []
    for n in names:
        if group_of(n) not in out:
            out.append(group_of(n))
    return out


def get_agent(algo, space_spec, names=None, normalize=True, variant=None):
    """variant: None = freshly built, "clone" = agent.clone(), "reload" = saved to a checkpoint and loaded back.
    normalize None = the constructor's default argument."""
    key = json.dumps([algo, space_spec, names, normalize, variant], sort_keys=True)
    if key in _cache:
        return _cache[key]
    if variant is not None:
        base = get_agent(algo, space_spec, names, normalize)
        if variant == "clone":
            a = base.clone()
        else:
            import tempfile, os
            d = tempfile.mkdtemp(prefix="c15_", dir=str(__import__("vlib").BUILD))
            path = os.path.join(d, "ck.pt")
            base.save_checkpoint(path)
            a = type(base).load(path)
            os.remove(path); os.rmdir(d)
        _cache[key] = a
        return a
    torch.manual_seed(12345)
    np.random.seed(12345)
    nzkw = {} if normalize is None else {"normalize_images": normalize}
    if isinstance(space_spec, list):                 # one space per agent
        sps = [build_space(x) for x in space_spec]
        sp = sps[0]
    else:
        sp = build_space(space_spec)
        sps = [sp] * (len(names) if names else 1)
    if algo == "DQN":
        from agilerl.algorithms.dqn import DQN
        a = DQN(sp, spaces.Discrete(3), **nzkw)
    elif algo == "PPO":
        from agilerl.algorithms.ppo import PPO
        a = PPO(sp, spaces.Discrete(3), **nzkw)
    elif algo == "DDPG":
        from agilerl.algorithms.ddpg import DDPG
        a = DDPG(sp, spaces.Box(-1, 1, (2,)), **nzkw)
    elif algo == "TD3":
        from agilerl.algorithms.td3 import TD3
        a = TD3(sp, spaces.Box(-1, 1, (2,)), **nzkw)
    elif algo == "CQN":
        from agilerl.algorithms.cqn import CQN
        a = CQN(sp, spaces.Discrete(3), **nzkw)
    elif algo == "IPPO":
        from agilerl.algorithms.ippo import IPPO
        a = IPPO(sps, [spaces.Discrete(3)] * len(names), list(names), **nzkw)
    elif algo == "MADDPG":
        from agilerl.algorithms.maddpg import MADDPG
        a = MADDPG(sps, [spaces.Box(-1, 1, (2,))] * len(names), list(names), **nzkw)
    elif algo == "MATD3":
        from agilerl.algorithms.matd3 import MATD3
        a = MATD3(sps, [spaces.Box(-1, 1, (2,))] * len(names), list(names), **nzkw)
    else:
        raise ValueError(algo)
    _cache[key] = a
    return a


# ------------------------------------------------------------------ generation
def generate(tier, rng):
    thorough = tier == "thorough"
    cases = []
    # agent.preprocess_observation (method level) — compared with the model like the module-level function
    leads = [[], [1], [3], [2, 2]] if not thorough else [[], [1], [2], [3], [1, 1], [1, 3], [2, 1], [2, 3]]
    for algo in ["DQN", "PPO", "DDPG"]:
        for sp in [VEC, IMG, D5, {"t": "discrete", "n": 1}, MD, MB, S0]:
            for lead in leads:
                for nz in ((True, False) if sp is IMG else (True,)):
                    cases.append({"kind": "prep", "algo": algo, "space": sp, "lead": lead, "input": "numpy", "normalize": nz, "pat": 1})
        for lead in leads:
            cases.append({"kind": "prep", "algo": algo, "space": DCT, "lead": lead, "input": "numpy", "normalize": True, "pat": 1,
                          "order": [1, 0]})
    # MultiAgentRLAlgorithm.preprocess_observation: the observation dict is handled agent by agent
    names3 = ["a_0", "a_1", "b_0"]
    for algo in ["MADDPG", "MATD3"]:
        for sp in [VEC, D5, MD, IMG]:
            for lead in [[], [2], [1]]:
                for order in ([0, 1, 2], [2, 0, 1]):
                    cases.append({"kind": "prep", "algo": algo, "names": names3, "lead": lead, "input": "numpy",
                                  "normalize": True, "pat": 2, "order": order,
                                  "space": {"t": "dict", "fields": [[i, sp] for i in range(3)]}})
    # ---- generator audit (deepening)
    V2s = {"t": "box", "shape": [2], "dtype": "float32", "low": -1, "high": 1}
    # agents that are not freshly built: clones and agents loaded from a checkpoint; constructor default of normalize_images
    for algo in ["DQN", "PPO", "DDPG"]:
        for variant in ["clone", "reload"]:
            for lead in [[], [2]]:
                for nz in (True, False):
                    cases.append({"kind": "prep", "algo": algo, "variant": variant, "space": IMG, "lead": lead, "input": "numpy",
                                  "normalize": nz, "pat": 4})
                cases.append({"kind": "prep", "algo": algo, "variant": variant, "space": D5, "lead": lead, "input": "numpy", "normalize": True, "pat": 4})
        for lead in [[], [2]]:
            cases.append({"kind": "prep", "algo": algo, "space": IMG, "lead": lead, "input": "numpy", "normalize": True, "nz_default": True, "pat": 4})
    # heterogeneous observation spaces across agents (same kind, different sizes); unsorted / non-string / multi-underscore ids
    for algo in ["MADDPG", "MATD3"]:
        for names in (["a_0", "a_1", "b_0"], ["b_0", "a_1", "a_0"]):
            for het in ([VEC if group_of(n) == "a" else V2s for n in names],
                        [{"t": "discrete", "n": 3} if group_of(n) == "a" else D5 for n in names]):   # sizes that matter: one-hot widths
              for lead in [[], [2]]:
                for order in ([0, 1, 2], [2, 1, 0], [1, 2, 0]):
                    cases.append({"kind": "prep", "algo": algo, "names": names, "hetero": True, "lead": lead, "input": "numpy",
                                  "normalize": True, "pat": 2, "order": order,
                                  "space": {"t": "dict", "fields": [[i, het[i]] for i in range(3)]}})
    odd_names = [["a_1", "a_0"], ["b_0", "a_1", "a_0"], [0, 1], ["team_a_0", "team_a_1", "team_b_0"], ["alice", "bob"]]
    for algo in ["IPPO", "MADDPG"] + (["MATD3"] if thorough else []):
        for names in odd_names:
            n = len(names)
            for E in [0, 2]:
                for order in [list(range(n)), list(reversed(range(n)))]:
                    cases.append({"kind": "ma_route", "algo": algo, "names": names, "E": E, "order": order, "space": VEC})
    for names in odd_names:
        n = len(names)
        for order in [list(range(n)), list(reversed(range(n)))]:
            cases.append({"kind": "ma_ippo_prep", "names": names, "E": 2, "order": order, "space": VEC, "normalize": True})
            cases.append({"kind": "ma_assemble", "names": names, "E": 2, "width": 1, "order": order})
    # clones / reloaded multi-agent agents; Dict and Tuple observation spaces through the shared policies
    for algo in ["IPPO", "MADDPG"]:
        for variant in ["clone", "reload"]:
            for order in ([0, 1, 2], [2, 0, 1]):
                cases.append({"kind": "ma_route", "algo": algo, "variant": variant, "names": ["a_0", "a_1", "b_0"], "E": 2,
                              "order": order, "space": VEC})
    for algo in ["IPPO", "MADDPG"]:
        for sp in [DCT, TUP]:
            for order in ([0, 1, 2], [1, 0, 2]):
                cases.append({"kind": "ma_route", "algo": algo, "names": ["a_0", "a_1", "b_0"], "E": 2, "order": order, "space": sp})
    # 1-D outputs (actions of Discrete spaces) and a missing agent in assemble
    for names in [["a_0", "a_1"], ["a_0", "a_1", "b_0"]]:
        for E in [1, 3]:
            cases.append({"kind": "ma_assemble", "names": names, "E": E, "width": 0, "order": list(range(len(names)))})
    cases.append({"kind": "ma_assemble", "names": ["a_0", "a_1", "b_0"], "E": 2, "width": 2, "order": [0, 2], "subset": True})
    for names in [["a_0", "a_1"], ["a_0", "a_1", "b_0"]]:
        for sp in [TUP, DIMG]:
            for B in [1, 2]:
                cases.append({"kind": "ma_stack", "algo": "MADDPG", "names": names, "space": sp, "B": B})
    # ---- round 5: agents built with normalize_images on / off on Tuple and Dict spaces that contain an image
    V3 = {"t": "box", "shape": [3], "dtype": "float32", "low": -1, "high": 1}
    TIMG = {"t": "tuple", "members": [V3, IMG]}
    DIMG1 = {"t": "dict", "fields": [[0, IMG], [1, V3]]}
    for algo in ["DQN", "PPO", "DDPG"]:
        for sp in (TIMG, DIMG1):
            for nz in (True, False):
                for lead in [[], [2]]:
                    for variant in ((None, "clone") if nz is False else (None,)):
                        c = {"kind": "prep", "algo": algo, "space": sp, "lead": lead, "input": "numpy", "normalize": nz, "pat": 3}
                        if sp["t"] == "dict":
                            c["order"] = [0, 1]
                        if variant:
                            c["variant"] = variant
                        cases.append(c)
    # single-agent: batch vs one at a time, every permutation of a 3-element batch
    perms = list(itertools.permutations(range(3)))
    for algo in ["DQN", "PPO", "DDPG", "TD3", "CQN"]:
        for sp in [VEC, IMG, D5, MD, S0, DCT] + ([MB] if thorough else []):
            for perm in (perms if thorough or sp is VEC else perms[::2]):
                cases.append({"kind": "agent_batch", "algo": algo, "space": sp, "perm": list(perm)})
    # multi-agent routing through shared policies / per-agent actors
    groupings = [["a_0", "a_1"], ["a_0", "a_1", "b_0"], ["a_0", "b_0", "a_1"], ["a_0", "a_1", "a_2"], ["a_0", "b_0"]]
    if thorough:
        groupings += [["a_0", "b_0", "b_1", "a_1"], ["x_0"], ["a_0", "b_0", "c_0"]]
    for algo in ["IPPO", "MADDPG", "MATD3"]:
        for names in groupings:
            n = len(names)
            orders = [list(range(n)), list(reversed(range(n)))]
            if n == 3:
                orders += [[1, 0, 2], [2, 0, 1]] if not thorough else [list(p) for p in itertools.permutations(range(3))][1:5]
            for E in ([0, 1, 2, 3] if algo == "IPPO" or thorough else [0, 2]):
                for order in orders:
                    for sp in ([VEC] if not thorough else [VEC, DCT]):
                        cases.append({"kind": "ma_route", "algo": algo, "names": names, "E": E, "order": order, "space": sp})
    for names in groupings:
        n = len(names)
        for E in [0, 1, 2]:
            for order in [list(range(n)), list(reversed(range(n)))]:
                for sp in [VEC, D5] + ([IMG, MD] if thorough else []):
                    cases.append({"kind": "ma_ippo_prep", "names": names, "E": E, "order": order, "space": sp, "normalize": True})
    for names in groupings:
        n = len(names)
        for E in [1, 2, 3]:
            for w in [1, 2]:
                for order in [list(range(n)), list(reversed(range(n)))]:
                    cases.append({"kind": "ma_assemble", "names": names, "E": E, "width": w, "order": order})
    for algo in ["MADDPG"] + (["MATD3"] if thorough else []):
        for names in [["a_0", "a_1"], ["a_0", "a_1", "b_0"]]:
            for sp in [VEC, IMG, D5, DCT]:
                for B in [1, 2, 3]:
                    cases.append({"kind": "ma_stack", "algo": algo, "names": names, "space": sp, "B": B})
    return cases


# ------------------------------------------------------------------ helpers
def _obs_for(space_spec, lead, pat):
    """numpy observation of a (possibly Dict / Tuple) space with the given leading dims"""
    if space_spec["t"] == "tuple":
        return tuple(leaf_array(l, lead, pat + k) for k, l in enumerate(space_spec["members"]))
    if space_spec["t"] == "dict":
        return {f"k{k}": leaf_array(l, lead, pat + k) for k, l in space_spec["fields"]}
    return leaf_array(space_spec, lead, pat)


def _row_of(space_spec, obs, lead, i):
    B = int(np.prod(lead)) if lead else 1
    if space_spec["t"] == "tuple":
        return tuple(obs[k].reshape((B,) + tuple(space_shape(l)))[i] for k, l in enumerate(space_spec["members"]))
    if space_spec["t"] == "dict":
        return {f"k{k}": obs[f"k{k}"].reshape((B,) + tuple(space_shape(l)))[i] for k, l in space_spec["fields"]}
    return obs.reshape((B,) + tuple(space_shape(space_spec)))[i]


def _take(space_spec, obs, idx):
    if space_spec["t"] == "tuple":
        return tuple(v[idx] for v in obs)
    if space_spec["t"] == "dict":
        return {k: v[idx] for k, v in obs.items()}
    return obs[idx]


def _match(v, refs, tol=2e-5):
    """index of the unique reference equal to v (within tol), else NOMATCH"""
    hits = [t for t, r in refs.items() if r.shape == v.shape and np.allclose(r, v, rtol=0, atol=tol)]
    return hits[0] if len(hits) == 1 else NOMATCH


def _distinct(refs, gap=5e-4):
    vals = list(refs.values())
    for i in range(len(vals)):
        for j in range(i + 1, len(vals)):
            if vals[i].shape == vals[j].shape and np.max(np.abs(vals[i] - vals[j])) < gap:
                return False
    return True


def _single_value(agent, algo, obs):
    """deterministic per-observation report of a single-agent algorithm: (value-like vector, greedy action)"""
    with torch.no_grad():
        if algo == "DQN":
            q = agent.actor(agent.preprocess_observation(obs)).cpu().numpy()
            act = agent.get_action(obs, epsilon=0.0)
            return q, np.asarray(act)
        if algo == "CQN":                   # CQN.get_action evaluates the network in eval mode
            agent.actor.eval()
            q = agent.actor(agent.preprocess_observation(obs)).cpu().numpy()
            agent.actor.train()
            act = agent.get_action(obs, epsilon=0.0)
            return q, np.asarray(act)
        if algo == "PPO":
            out = agent.get_action(obs)
            return np.asarray(out[3]).reshape(-1, 1).astype(np.float64), None
        if algo in ("DDPG", "TD3"):
            act = agent.get_action(obs, training=False)
            return np.asarray(act), np.asarray(act)
    raise ValueError(algo)


# ------------------------------------------------------------------ implementation runs
def run_impl(case):
    f = {"agent_batch": run_batch, "ma_route": run_route, "ma_ippo_prep": run_ippo_prep, "ma_assemble": run_assemble,
         "ma_stack": run_stack}[case["kind"]]
    try:
        return f(case)
    except (RuntimeError, ValueError, IndexError, TypeError, KeyError, AssertionError) as e:
        # the entry point exists but rejects a legal call: a concrete failing input, not a harness problem
        import traceback
        tb = traceback.extract_tb(e.__traceback__)
        if not any("/agilerl/" in fr.filename for fr in tb):
            raise
        return {"err": type(e).__name__, "msg": str(e)[:200]}


def sp_tag(sp):
    if sp["t"] == "box":
        return "image" if len(sp["shape"]) == 3 else f"box-rank{len(sp['shape'])}"
    return sp["t"]


def run_batch(case):
    try:
        return _run_batch(case)
    except RuntimeError as e:              # the network rejected the prepared batch
        return {"err": type(e).__name__, "msg": str(e)[:200]}


def _run_batch(case):
    algo, sp, perm = case["algo"], case["space"], case["perm"]
    agent = get_agent(algo, sp)
    n = len(perm)
    for pat in range(1, 6):
        base = _obs_for(sp, [n], pat)
        refs, acts = {}, {}
        for i in range(n):
            v, a = _single_value(agent, algo, _row_of(sp, base, [n], i))
            refs[i] = np.asarray(v, dtype=np.float64).reshape(-1)
            acts[i] = a
        if _distinct(refs):
            break
    else:
        return {"degenerate": True}
    batch = _take(sp, base, list(perm))
    v, a = _single_value(agent, algo, batch)
    v = np.asarray(v, dtype=np.float64).reshape(n, -1)
    match = [_match(v[i], refs) for i in range(n)]
    act_ok = True
    if a is not None and algo in ("DQN", "CQN"):
        act_ok = all(int(np.asarray(a).reshape(-1)[i]) == int(np.asarray(acts[perm[i]]).reshape(-1)[0]) for i in range(n))
    return {"match": match, "actions_consistent": bool(act_ok), "pat": pat}


def _ma_obs(case, pat0=1):
    names, E, sp = case["names"], case["E"], case["space"]
    lead = [E] if E else []
    return {i: _obs_for(sp, lead, pat0 + 3 * i) for i in range(len(names))}, lead


def run_route(case):
    algo, names, E, order, sp = case["algo"], case["names"], case["E"], case["order"], case["space"]
    agent = get_agent(algo, sp, names, True, case.get("variant"))
    nE = E if E else 1
    space = build_space(sp)
    from agilerl.utils.algo_utils import preprocess_observation as P
    for pat0 in range(1, 6):
        per_agent, lead = _ma_obs(case, pat0)
        # reference reports, one observation at a time, straight from the networks
        refs = {}          # IPPO: per group {tag: value}; MADDPG: per actor index {tag: action}
        with torch.no_grad():
            if algo == "IPPO":
                for gi, g in enumerate(agent.shared_agent_ids):
                    critic = agent.critics[gi]
                    critic.eval()
                    refs[g] = {}
                    for a, nm in enumerate(names):
                        if group_of(nm) != g:
                            continue
                        for e in range(nE):
                            o = P(_row_of(sp, per_agent[a], lead, e), space)
                            refs[g][a * 100 + e] = critic(o).squeeze(-1).cpu().numpy().astype(np.float64).reshape(-1)
            else:
                for ai in range(len(names)):
                    actor = agent.actors[ai]
                    actor.eval()
                    refs[ai] = {}
                    for a in range(len(names)):
                        for e in range(nE):
                            o = P(_row_of(sp, per_agent[a], lead, e), space)
                            refs[ai][a * 100 + e] = actor(o).cpu().numpy().astype(np.float64).reshape(-1)
                    actor.train()
        if all(_distinct(r) for r in refs.values()):
            break
    else:
        return {"degenerate": True}
    obs = {names[a]: per_agent[a] for a in order}
    if algo == "IPPO":
        out = agent.get_action(obs)
        values = out[3]
        route = []
        for g in agent.shared_agent_ids:
            for a, nm in enumerate(names):
                if group_of(nm) != g:
                    continue
                v = np.asarray(values[nm], dtype=np.float64).reshape(nE, -1)
                route.append([a, [_match(v[e], refs[g]) for e in range(nE)]])
        shapes_ok = all(np.asarray(out[0][nm]).shape[0] == nE for nm in names)
    else:
        out = agent.get_action(obs, training=False)
        acts = out[0]
        route = []
        for a, nm in enumerate(names):
            v = np.asarray(acts[nm], dtype=np.float64).reshape(nE, -1)
            route.append([a, [_match(v[e], refs[a]) for e in range(nE)]])
        shapes_ok = all(np.asarray(acts[nm]).shape[0] == nE for nm in names)
    return {"route": route, "shapes_ok": bool(shapes_ok)}


def run_ippo_prep(case):
    names, E, order, sp = case["names"], case["E"], case["order"], case["space"]
    agent = get_agent("IPPO", sp, names, case["normalize"])
    per_agent, lead = _ma_obs(case)
    obs = {names[a]: per_agent[a] for a in order}
    try:
        out = agent.preprocess_observation(obs)
    except Exception as e:
        return {"err": type(e).__name__, "msg": str(e)[:200]}
    groups = []
    for gi, g in enumerate(shared_ids(names)):
        t = out[g]
        groups.append([gi, tensor1(t)])
    return {"ok": groups}


def run_assemble(case):
    names, E, w, order = case["names"], case["E"], case["width"], case["order"]
    agent = get_agent("IPPO", VEC, names)
    w1 = max(w, 1)
    vals = {a: (a * 1000 + np.arange(E * w1, dtype=np.float32).reshape((E, w1) if w else (E,)) * 7 + 1) for a in range(len(names))}
    outputs = {names[a]: vals[a].copy() for a in order}
    if case.get("subset"):                       # an agent is missing: only the assembled batches are observed
        homo = agent.assemble_homogeneous_outputs(outputs, E)
        return {"assembled": [[gi, [int(x) for x in np.asarray(homo[g]).shape], [float(x) for x in np.asarray(homo[g]).reshape(-1)]]
                              for gi, g in enumerate(shared_ids(names)) if g in homo], "back": []}
    homo = agent.assemble_homogeneous_outputs(outputs, E)
    assembled = [[gi, [int(x) for x in np.asarray(homo[g]).shape], [float(x) for x in np.asarray(homo[g]).reshape(-1)]]
                 for gi, g in enumerate(shared_ids(names))]
    back = agent.disassemble_homogeneous_outputs({g: np.array(v, copy=True) for g, v in homo.items()}, E)
    backl = [[a, [int(x) for x in np.asarray(back[nm]).shape], [float(x) for x in np.asarray(back[nm]).reshape(-1)]]
             for a, nm in enumerate(names)]
    return {"assembled": assembled, "back": backl}


def run_stack(case):
    algo, names, sp, B = case["algo"], case["names"], case["space"], case["B"]
    agent = get_agent(algo, sp, names)
    per_agent = {i: _obs_for(sp, [B], 1 + 3 * i) for i in range(len(names))}
    prepared = agent.preprocess_observation({names[a]: per_agent[a] for a in range(len(names))})
    out = agent.stack_critic_observations(prepared)
    def members(x):
        if isinstance(x, dict):
            return [[int(str(k)[1:]), tensor1(v)] for k, v in x.items()]
        if isinstance(x, tuple):
            return [[i, tensor1(v)] for i, v in enumerate(x)]
        return [[0, tensor1(x)]]
    ins = [members(prepared[nm]) for nm in names]
    return {"inputs": ins, "out": members(out)}


# ------------------------------------------------------------------ Coq terms
def _b(x):
    return "true" if x else "false"


def _pairs(l):
    return "[" + "; ".join(f"({a}, {b})" for a, b in l) + "]"


def _groups(names):
    sh = shared_ids(names)
    return [(a, sh.index(group_of(nm))) for a, nm in enumerate(names)]


def _route_expected(case):
    names, E = case["names"], case["E"]
    nE = E if E else 1
    if case["algo"] == "IPPO":
        return [[a, [a * 100 + e for e in range(nE)]] for g in shared_ids(names) for a, nm in enumerate(names) if group_of(nm) == g]
    return [[a, [a * 100 + e for e in range(nE)]] for a in range(len(names))]


def coq_term(case, obs):
    k = case["kind"]
    if obs.get("degenerate"):
        return None
    if k == "agent_batch":
        return _batch_term(case, obs)
    if "err" in obs and k != "ma_ippo_prep":
        return "false"
    if k == "agent_batch":
        return None                      # oracle only (the network itself is not modelled; see batch_independent)
    if k == "ma_route":
        names, E, order = case["names"], case["E"], case["order"]
        nE = E if E else 1
        od = "[" + "; ".join(f"({a}, {coq_nats([a * 100 + e for e in range(nE)])})" for a in order) + "]"
        seen = "[" + "; ".join(f"({a}, {coq_nats(tags)})" for a, tags in obs["route"]) + "]"
        fixed = "true"                   # agents are walked in agent_ids order since 3fff701
        ids = coq_nats(range(len(names)))
        if case["algo"] == "IPPO":
            return f"check_ippo {fixed} {_pairs(_groups(names))} {ids} {nE} {od} {seen}"
        return f"check_maddpg {fixed} {ids} {od} {seen}"
    if k == "ma_ippo_prep":
        names, E, order, sp = case["names"], case["E"], case["order"], case["space"]
        per_agent, lead = _ma_obs(case)
        od = "[" + "; ".join(f"({a}, {coq_tq(list(per_agent[a].shape), per_agent[a].reshape(-1).tolist())})" for a in order) + "]"
        if "err" in obs:
            seen = "None"
            fixed = "false"
        else:
            rows = []
            for gi, t in obs["ok"]:
                b = t["shape"][0]
                d = np.asarray(t["data"]).reshape(b, -1)
                rows.append(f"({gi}, [" + "; ".join(coq_qs(r.tolist()) for r in d) + "])")
            seen = "(Some [" + "; ".join(rows) + "])"
            fixed = "true"
        tol = TOL_NORM if (case["normalize"] and uses_inexact_norm({"space": sp, "normalize": True})) else "0"
        return (f"check_ippo_prep {tol} {fixed} true {_b(case['normalize'])} {_pairs(_groups(names))} {coq_nats(range(len(names)))} "
                f"{coq_leaf(sp)} {od} {seen}")
    if k == "ma_assemble":
        names, E = case["names"], case["E"]
        sh = shared_ids(names)
        back = {a: d for a, _, d in obs["back"]}
        terms = []
        w1 = max(case["width"], 1)
        for gi, shape, flat in obs["assembled"]:
            mem = [a for a, nm in enumerate(names) if group_of(nm) == sh[gi] and a in case["order"]]
            ins = "[" + "; ".join(coq_qs((a * 1000 + np.arange(E * w1) * 7 + 1).tolist()) for a in mem) + "]"
            terms.append(f"check_assemble {ins} {coq_qs(flat)}")
            if not case.get("subset"):
                terms.append(f"check_disassemble {len(mem)} {coq_qs(flat)} [" + "; ".join(coq_qs(back[a]) for a in mem) + "]")
        return "(" + " && ".join(terms) + ")%bool"
    if k == "ma_stack":
        sp = case["space"]
        leaves = (dict((kk, l) for kk, l in sp["fields"]) if sp["t"] == "dict" else
                  dict(enumerate(sp["members"])) if sp["t"] == "tuple" else {0: sp})
        terms = []
        for kk, t in obs["out"]:
            image = leaves[kk]["t"] == "box" and len(leaves[kk]["shape"]) == 3
            ts = "[" + "; ".join(coq_tq(dict(m)[kk]["shape"], dict(m)[kk]["data"]) for m in obs["inputs"]) + "]"
            terms.append(f"check_stack {_b(image)} {ts} (Some {coq_tq(t['shape'], t['data'])})")
        return "(" + " && ".join(terms) + ")%bool"
    return None


def _batch_term(case, obs):
    """single-agent get_action on a permuted batch vs singles, against get_action_model (row-wise network)"""
    sp, perm = case["space"], case["perm"]
    if sp["t"] in ("dict", "tuple"):
        return None                                   # Dict observations: oracle only
    if "match" in obs and obs["match"] != perm:
        return None                                   # not row-wise (training-mode BatchNorm): reported by the oracle
    n = len(perm)
    if "err" in obs:
        base = _obs_for(sp, [n], 1)
        seen = "None"
    else:
        base = _obs_for(sp, [n], obs["pat"])
        seen = "(Some " + coq_nats(obs["match"]) + ")"
    batch = base[list(perm)]
    singles = "[" + "; ".join(coq_tq(list(base[i].shape), base[i].reshape(-1).tolist()) for i in range(n)) + "]"
    # rank-0 Box: repaired semantics iff the tree gives the scalar a feature axis
    r0 = "true"                                    # scalar Box observations carry a feature axis since 69cb5f0
    return (f"check_batch {r0} true true {coq_leaf(sp)} {coq_tq(list(batch.shape), batch.reshape(-1).tolist())} {singles} {seen}")


def _ippo_prep_in_agent_order(case, obs):
    """is every group's batch the concatenation of its agents' prepared rows in agent_ids order?"""
    from agilerl.utils.algo_utils import preprocess_observation as P
    names, sp = case["names"], case["space"]
    space = build_space(sp)
    per_agent, lead = _ma_obs(case)
    for gi, t in obs["ok"]:
        g = shared_ids(names)[gi]
        want = np.concatenate([P(per_agent[a], space, normalize_images=case["normalize"]).numpy().astype(np.float64).reshape(-1)
                               for a, nm in enumerate(names) if group_of(nm) == g])
        if want.shape != np.asarray(t["data"]).shape or not np.allclose(want, np.asarray(t["data"]), atol=1e-6):
            return False
    return True


# ------------------------------------------------------------------ oracle
def oracle(case, obs):
    k = case["kind"]
    out = []
    if obs.get("degenerate"):
        return out
    if k == "agent_batch":
        if "err" in obs:
            out.append(Violation("batch-independent", f"batch-raises:{case['algo']}:{sp_tag(case['space'])}",
                                 f"{case['algo']}.get_action raised {obs['err']}: {obs['msg']} on a batch of 3 observations (or on one of them alone)"))
        elif obs["match"] != case["perm"]:
            out.append(Violation("batch-independent", f"batch:{case['algo']}:{sp_tag(case['space'])}",
                                 f"{case['algo']}: the report for position i of the batch should be the report of observation {case['perm']} "
                                 f"taken alone, found {obs['match']} ({NOMATCH} = equals none of them)"))
        elif not obs["actions_consistent"]:
            out.append(Violation("batch-independent", f"batch-action:{case['algo']}:{sp_tag(case['space'])}",
                                 "greedy action in the batch differs from the greedy action of the same observation taken alone"))
    elif "err" in obs:
        out.append(Violation("agent-env-consistent", f"{k}:{case.get('algo', 'IPPO')}:raises",
                             f"{case.get('algo', 'IPPO')} raised {obs['err']}: {obs['msg']} on a legal multi-agent call ({case})"))
    elif k == "ma_route":
        want = _route_expected(case)
        if obs["route"] != want or not obs["shapes_ok"]:
            names, order = case["names"], case["order"]
            # is the dict order, restricted to each group (IPPO) / overall (MADDPG), different from agent_ids order?
            if case["algo"] == "IPPO":
                permuted = any([a for a in order if group_of(names[a]) == g] != [a for a in range(len(names)) if group_of(names[a]) == g]
                               for g in shared_ids(names))
            else:
                permuted = order != list(range(len(names)))
            sig = f"route:{case['algo']}:dict-order" if permuted else f"route:{case['algo']}:wrong"
            out.append(Violation("agent-env-consistent", sig,
                                 f"{case['algo']}.get_action with observation dict order {[names[a] for a in order]} (agent_ids {names}, "
                                 f"{case['E']} envs): reported outputs come from (agent*100+env) {obs['route']}, expected {want}"))
    elif k == "ma_ippo_prep":
        # the batch of a shared policy: one block of rows per agent of the group (whatever the order of the blocks)
        from agilerl.utils.algo_utils import preprocess_observation as P
        names, sp = case["names"], case["space"]
        space = build_space(sp)
        per_agent, lead = _ma_obs(case)
        nE = case["E"] if case["E"] else 1
        for gi, t in obs["ok"]:
            g = shared_ids(names)[gi]
            mem = [a for a, nm in enumerate(names) if group_of(nm) == g]
            want_shape = [len(mem) * nE] + net_input_shape(sp)
            blocks = [P(per_agent[a], space, normalize_images=case["normalize"]).numpy().astype(np.float64).reshape(nE, -1) for a in mem]
            ok = t["shape"] == want_shape
            if ok:
                got = np.asarray(t["data"], dtype=np.float64).reshape(len(mem), nE, -1)
                ok = sorted(b.tolist() for b in got) == sorted(b.tolist() for b in blocks)
            if not ok:
                out.append(Violation("agent-env-consistent", "ippo-prep:group-batch",
                                     f"IPPO.preprocess_observation: batch of shared id {g} has shape {t['shape']}, expected {want_shape} made of "
                                     f"one block of {nE} rows per agent {mem}"))
                break
    elif k == "ma_assemble":
        E, w = case["E"], max(case["width"], 1)
        for a, shape, flat in obs["back"]:
            want = (a * 1000 + np.arange(E * w) * 7 + 1).astype(np.float64)
            if shape[0] != E or not np.array_equal(np.asarray(flat), want):
                out.append(Violation("disassemble-assemble", "assemble:roundtrip",
                                     f"agent {a}: disassemble(assemble(x)) = {flat} with shape {shape}, expected {want.tolist()}"))
                break
    elif k == "ma_stack":
        sp = case["space"]
        leaves = (dict((kk, l) for kk, l in sp["fields"]) if sp["t"] == "dict" else
                  dict(enumerate(sp["members"])) if sp["t"] == "tuple" else {0: sp})
        for kk, t in obs["out"]:
            image = leaves[kk]["t"] == "box" and len(leaves[kk]["shape"]) == 3
            ins = [np.asarray(dict(m)[kk]["data"]).reshape(dict(m)[kk]["shape"]) for m in obs["inputs"]]
            want = np.stack(ins, axis=2) if image else np.concatenate(ins, axis=1)
            got = np.asarray(t["data"]).reshape(t["shape"]) if list(want.shape) == t["shape"] else None
            if got is None or not np.array_equal(got, want):
                out.append(Violation("critic-stack", f"stack:{'image' if image else 'vector'}",
                                     f"stack_critic_observations: member {kk} has shape {t['shape']}, expected {list(want.shape)} with row b made of the agents' rows b"))
    return out


def nontrivial(case, obs):
    if obs.get("degenerate"):
        return False
    k = case["kind"]
    if k == "agent_batch":
        return True
    if k in ("ma_route", "ma_ippo_prep", "ma_assemble"):
        return len(case["names"]) >= 2
    return case["B"] >= 1 and len(case["names"]) >= 2


def classify(case, obs):
    k = case["kind"]
    labs = [f"kind={k}"]
    if "algo" in case:
        labs.append(f"algo={case['algo']}")
    if "names" in case:
        sh = shared_ids(case["names"])
        labs.append(f"agents={len(case['names'])}/groups={len(sh)}")
    if "E" in case:
        labs.append(f"envs={'unvectorised' if case['E'] == 0 else case['E']}")
    if "order" in case and "names" in case:
        labs.append("dict-order=" + ("agent_ids" if case["order"] == list(range(len(case["names"]))) else "permuted"))
    if obs.get("degenerate"):
        labs.append("degenerate-skipped")
    if k == "agent_batch":
        labs.append("space=" + sp_tag(case["space"]))
        labs.append("result=" + ("raises" if "err" in obs else "ok"))
    return labs
