"""C15 agent-level cases (stub; filled in below)."""
KINDS = set()


def generate(tier, rng):
    return []
