"""C13 — scripted PettingZoo sub-environment with fault plans, and the shared control block.

A plan maps the number n of a command that enters the sub-environment (reset, step, a remote call,
a remote attribute write — counted together, from 0, per worker) to what the sub-environment does:
  ["normal"] | ["raise", code] | ["sleep"] | ["die"] | ["delay", seconds]
"sleep" blocks until the harness releases the worker (or MAX_SLEEP elapses / the harness is gone);
"die" is a SIGKILL of the worker by itself. Everything the sub-environment does is logged in the
shared control block so that the harness (a) can wait for quiescence instead of guessing with
wall-clock sleeps and (b) has an account of the injected faults that is independent of the Coq model.
This module does not import agilerl.
"""
from __future__ import annotations

import multiprocessing as mp
import os
import signal
import time

import numpy as np
from gymnasium import spaces
from pettingzoo import ParallelEnv


class EnvFault(Exception):
    """a user-defined exception type (constructor takes the message only)"""


class TwoArgFault(Exception):
    """a user-defined exception type whose constructor takes two arguments"""

    def __init__(self, code, msg):
        super().__init__(code, msg)
        self.code, self.msg = code, msg


# KeyboardInterrupt: the one non-Exception type the worker promises to forward (`except (KeyboardInterrupt, Exception)`);
# SystemExit / GeneratorExit are NOT caught by the worker and are deliberately not injected
EXC = [ValueError, KeyError, RuntimeError, EnvFault, UnicodeDecodeError, TwoArgFault, KeyboardInterrupt]
EXC_NAMES = [c.__name__ for c in EXC]


def make_exc(code: int, text: str) -> BaseException:
    c = EXC[code]
    if c is UnicodeDecodeError:
        return UnicodeDecodeError("utf-8", b"x", 0, 1, text)
    if c is TwoArgFault:
        return TwoArgFault(code, text)
    return c(text)
MAX_SLEEP = 40.0

# fields of the control block, one slot per worker
F_ENTERED, F_DONE, F_BLOCKED, F_SLEEPS, F_RELEASE, F_WOKE, F_NORMAL, F_RAISED, F_EXITED, F_PID, F_KIND = range(11)
NF = 11
K_NORMAL, K_RAISE, K_SLEEP, K_DIE = 0, 1, 2, 3


class Ctl:
    def __init__(self, n):
        self.n = n
        self.parent_pid = os.getpid()
        self.a = mp.get_context().RawArray("l", n * NF)
        for j in range(n):
            self.a[j * NF + F_RAISED] = -1

    def get(self, j, f):
        return self.a[j * NF + f]

    def set(self, j, f, v):
        self.a[j * NF + f] = v

    def snapshot(self):
        return [[self.a[j * NF + f] for f in range(NF)] for j in range(self.n)]


class FaultEnv(ParallelEnv):
    metadata = {"render_modes": [], "name": "c13_fault_env"}
    render_mode = None

    def __init__(self, ctl: Ctl, index: int, plan: list):
        self.ctl, self.index, self.plan = ctl, index, plan
        self.possible_agents = ["agent_0", "agent_1"]
        self.agents = self.possible_agents[:]
        self.count = 0
        self._knob = 0
        self.in_worker = os.getpid() != ctl.parent_pid
        if self.in_worker:
            ctl.set(index, F_PID, os.getpid())
            try:  # keep the worker's tracebacks (expected: injected faults) off the terminal
                fd = os.open(os.devnull, os.O_WRONLY)
                os.dup2(fd, 2)
            except OSError:
                pass

    def observation_space(self, agent):
        return spaces.Box(-1e6, 1e6, (2,), np.float32)

    def action_space(self, agent):
        return spaces.Discrete(3)

    # ---- one command entering the sub-environment
    def _command(self):
        n = self.count
        self.count += 1
        if not self.in_worker:
            return n
        c, j = self.ctl, self.index
        c.set(j, F_ENTERED, n + 1)
        b = self.plan[n] if n < len(self.plan) else ["normal"]
        if b[0] == "raise":
            c.set(j, F_RAISED, int(b[1]))
            c.set(j, F_KIND, K_RAISE)
            c.set(j, F_DONE, n + 1)
            raise make_exc(int(b[1]), f"injected fault at command {n} of worker {j}")
        if b[0] == "die":
            c.set(j, F_KIND, K_DIE)
            c.set(j, F_DONE, n + 1)
            os.kill(os.getpid(), signal.SIGKILL)
            time.sleep(10)
        if b[0] == "delay":                  # answers normally, but only after b[1] seconds of wall-clock time
            time.sleep(float(b[1]))
            c.set(j, F_KIND, K_NORMAL)
            return n
        if b[0] == "sleep":
            ticket = c.get(j, F_SLEEPS)
            c.set(j, F_SLEEPS, ticket + 1)
            c.set(j, F_KIND, K_SLEEP)
            c.set(j, F_BLOCKED, 1)
            c.set(j, F_DONE, n + 1)
            t_end = time.monotonic() + MAX_SLEEP
            while c.get(j, F_RELEASE) <= ticket and time.monotonic() < t_end:
                if os.getppid() != c.parent_pid:      # the harness is gone: do not linger
                    os._exit(3)
                time.sleep(0.002)
            c.set(j, F_BLOCKED, 0)
            c.set(j, F_WOKE, c.get(j, F_WOKE) + 1)
            return n
        c.set(j, F_KIND, K_NORMAL)
        return n

    def _finish(self, n):
        if self.in_worker:
            c, j = self.ctl, self.index
            c.set(j, F_NORMAL, c.get(j, F_NORMAL) + 1)
            if c.get(j, F_DONE) < n + 1:
                c.set(j, F_DONE, n + 1)

    def _obs(self, n):
        return {a: np.array([n, self.index], dtype=np.float32) for a in self.possible_agents}

    def reset(self, seed=None, options=None):
        n = self._command()
        out = self._obs(n), {a: {"seq": n} for a in self.possible_agents}
        self._finish(n)
        return out

    def step(self, actions):
        n = self._command()
        out = (self._obs(n), {a: 0.0 for a in self.possible_agents}, {a: False for a in self.possible_agents},
               {a: False for a in self.possible_agents}, {a: {"seq": n} for a in self.possible_agents})
        self._finish(n)
        return out

    def ping(self):                       # target of call_async("ping")
        n = self._command()
        self._finish(n)
        return n

    @property
    def knob(self):                       # target of get_attr("knob"): reading it is a command like any other
        n = self._command()
        v = self._knob
        self._finish(n)
        return v

    @knob.setter
    def knob(self, v):                    # target of set_attr("knob", v)
        n = self._command()
        self._knob = v
        self._finish(n)

    def close(self):
        if self.in_worker:
            self.ctl.set(self.index, F_EXITED, 1)


def make_env_fns(ctl: Ctl, plans: list):
    def mk(j):
        return lambda: FaultEnv(ctl, j, plans[j])
    return [mk(j) for j in range(len(plans))]
