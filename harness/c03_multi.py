"""C03: EvolvableMultiInput (Dict / Tuple observation spaces) and networks built on it."""
from __future__ import annotations

import copy
import re

import torch
from gymnasium import spaces

import c03_blocks as B
from c03_blocks import Block, Script, Violation, BLOCKS, cz, czl, copt, coq_bool, cobs, cshapes, draws, meth_args, py
from agilerl.modules.multi_input import EvolvableMultiInput
from agilerl.networks.q_networks import QNetwork
from agilerl.networks.value_networks import ValueNetwork
from agilerl.networks.actors import DeterministicActor

IMG = (2, 16, 16)


def multi_canon(sd):
    out = []
    for k, v in sd.items():
        k2 = re.sub(r"^feature_net\.([A-Za-z0-9_]+)\.model\.\1_", r"fn:", k) if k.startswith("feature_net.") else k
        k2 = re.sub(r"^fn:", "fn:", k2)
        nums = [int(x) for x in re.findall(r"\d+", k2)]
        out.append([re.sub(r"\d+", "#", k2), nums, [int(x) for x in v.shape]])
    return out


class Multi(Block):
    """EvolvableMultiInput over Dict{a: Box(4,), b: Box(2,16,16)}; clone-and-mutate steps; compared with the model"""
    name = "multi"

    def space(self, case):
        if case.get("space", "dict") == "dict":
            return spaces.Dict({"a": spaces.Box(-1, 1, (4,)), "b": spaces.Box(0, 1, IMG)})
        if case.get("space") == "dict2":       # image member first in key order, two vector members around it
            return spaces.Dict({"img": spaces.Box(0, 1, IMG), "aa": spaces.Box(-1, 1, (2,)), "zz": spaces.Discrete(3)})
        return spaces.Tuple((spaces.Box(-1, 1, (3,)), spaces.Discrete(3), spaces.Box(0, 1, IMG)))

    def img_key(self, case):
        return {"dict": "b", "dict2": "img"}.get(case.get("space", "dict"), "2")

    def kwargs(self, case):
        cnn = dict(case["cfg"]["cnn_config"])
        cnn.update(channel_size=list(case["init"]["cnn"]["widths"]), kernel_size=list(case["init"]["cnn"]["kernels"]),
                   stride_size=list(case["init"]["cnn"]["strides"]))
        kw = {"observation_space": self.space(case), "num_outputs": case["static"]["num_outputs"], "latent_dim": case["init"]["latent"],
              "min_latent_dim": case["cfg"]["min_latent_dim"], "max_latent_dim": case["cfg"]["max_latent_dim"], "cnn_config": cnn}
        if case.get("vector_mlp"):
            kw["vector_space_mlp"] = True
            kw["mlp_config"] = {"hidden_size": [16], "min_mlp_nodes": 8, "max_mlp_nodes": 64}
        return kw

    def build(self, case):
        return EvolvableMultiInput(**self.kwargs(case))

    def desc(self, m):
        d = m.init_dict
        key = self.img_key(self._case)
        c = d["init_dicts"][key]
        ch = [int(x) for x in py(c["channel_size"])]
        out = {"latent": int(d["latent_dim"]),
               "cnn": {"layers": len(ch), "widths": ch, "kernels": [int(x) for x in py(c["kernel_size"])], "strides": [int(x) for x in py(c["stride_size"])]}}
        if "vector_mlp" in d["init_dicts"]:
            h = [int(x) for x in py(d["init_dicts"]["vector_mlp"]["hidden_size"])]
            out["mlp"] = {"layers": len(h), "widths": h}
        return out

    def advertised(self, case):
        k = self.img_key(case)
        out = ["add_latent_node", "remove_latent_node"] + [f"feature_net.{k}.{x}" for x in ("add_channel", "add_layer", "change_kernel", "remove_channel", "remove_layer")]
        if case.get("vector_mlp"):
            out += [f"feature_net.vector_mlp.{x}" for x in ("add_layer", "add_node", "remove_layer", "remove_node")]
        return sorted(out)

    def make_input(self, case, b):
        if case.get("space", "dict") == "dict":
            return {"a": torch.rand(b, 4), "b": torch.rand(b, *IMG)}
        if case.get("space") == "dict2":       # handed over in a key order different from the space's
            return {"zz": torch.nn.functional.one_hot(torch.randint(0, 3, (b,)), 3).float(), "img": torch.rand(b, *IMG), "aa": torch.rand(b, 2)}
        onehot = torch.nn.functional.one_hot(torch.randint(0, 3, (b,)), 3).float()    # Discrete sub-space as preprocess_observation delivers it
        return (torch.rand(b, 3), onehot, torch.rand(b, *IMG))

    def out_shape(self, case, b):
        return [b, case["static"]["num_outputs"]]

    def run(self, case):
        torch.manual_seed(0)
        self._case = case
        m = self.build(case)
        obs = {"methods": sorted(m.mutation_methods), "desc0": self.desc(m), "shapes0": multi_canon(m.state_dict()), "steps": []}
        every, n = case.get("every", 1), len(case["steps"])
        seen_latent = False
        for i, step in enumerate(case["steps"]):
            rec = {"error": None, "attr": None, "ret": [], "shapes": None, "rebuilt": None}
            sc = Script(step.get("r", []))
            ret = None
            try:
                twin = m.clone() if case.get("twin") else None
                rec["after_latent"] = seen_latent
                seen_latent = seen_latent or (case.get("clone") == "once" and step["m"] in ("add_latent_node", "remove_latent_node") and step.get("bad") is None)
                if case.get("clone", True) is True or i == 0:
                    m = m.clone()                                 # clone-and-mutate (clone == "once": only before the first step)
                with sc:
                    ret = self.call(m, step)
                rec["attr"] = m.last_mutation_attr or ""
                rec["ret"] = [int(v) for v in ret.values()] if isinstance(ret, dict) else []
            except B.BadCallRaised as e:
                rec["bad_raised"] = str(e)
            except Exception as e:  # noqa
                rec["error"] = f"{type(e).__name__}: {e}"[:400]
            try:
                rec["desc"] = self.desc(m)
            except Exception as e:  # noqa
                rec["desc"] = None
                rec["error"] = rec["error"] or f"descriptor: {type(e).__name__}: {e}"[:300]
            if rec["error"] is None and twin is not None:
                self.twin_replay(twin, rec, ret)
            if rec["error"] is None and every > 0 and (i % every == 0 or i == n - 1):
                self.observe_full(m, case, rec)
            obs["steps"].append(rec)
            if rec["error"] is not None:
                break
        if not any(r["error"] for r in obs["steps"]):
            self.end_checks(m, obs)
        return obs

    def observe_full(self, m, case, rec):
        rec["shapes"] = multi_canon(m.state_dict())
        fw = []
        x3 = None
        for b in (1, 2, 3):
            try:
                x = self.make_input(case, b)
                x3 = x
                with torch.no_grad():
                    y = m(copy.copy(x))
                fw.append({"shape": [int(v) for v in y.shape], "finite": bool(torch.isfinite(y).all())})
            except Exception as e:  # noqa
                fw.append({"error": f"{type(e).__name__}: {e}"[:300]})
        rec["fw"] = fw
        try:
            clone = type(m)(**copy.deepcopy(m.init_dict))
            rec["rebuilt"] = multi_canon(clone.state_dict())
            try:
                clone.load_state_dict(m.state_dict(), strict=True)
                rec["load"] = "ok"
                with torch.no_grad():
                    rec["same_fn"] = bool(torch.allclose(m(copy.copy(x3)), clone(copy.copy(x3)), atol=1e-6))
            except Exception as e:  # noqa
                rec["load"] = f"{type(e).__name__}: {e}"[:300]
            rec["rebuilt_desc_same"] = (self.desc(clone) == self.desc(m))
        except Exception as e:  # noqa
            rec["rebuilt"] = f"raised {type(e).__name__}: {e}"[:300]
            rec["load"] = None

    # ---- oracle
    def cnn_case(self, case):
        c = case["cfg"]["cnn_config"]
        return {"cfg": {"min_hidden_layers": c.get("min_hidden_layers", 1), "max_hidden_layers": c.get("max_hidden_layers", 6),
                        "min_channel_size": c.get("min_channel_size", 32), "max_channel_size": c.get("max_channel_size", 256)},
                "static": {"input_shape": list(IMG)}}

    def quantities(self, case, d):
        q = [("latent", d["latent"], case["cfg"]["min_latent_dim"], case["cfg"]["max_latent_dim"])]
        q += [("cnn." + nm, v, lo, hi) for (nm, v, lo, hi) in BLOCKS["cnn"].quantities(self.cnn_case(case), d["cnn"])]
        if "mlp" in d:
            q += [("mlp." + nm, v, lo, hi) for (nm, v, lo, hi) in
                  BLOCKS["mlp"].quantities({"cfg": {"min_hidden_layers": 1, "max_hidden_layers": 3, "min_mlp_nodes": 8, "max_mlp_nodes": 64}}, d["mlp"])]
        return q

    def effect(self, case, step, pre, post, rec):
        out = []
        m, attr = step["m"], rec["attr"]
        lo, hi = case["cfg"]["min_latent_dim"], case["cfg"]["max_latent_dim"]
        if m in ("add_latent_node", "remove_latent_node"):
            if attr != m:
                out.append(("resolved-method", f"{m} reported as {attr!r}"))
            n = rec["ret"][0] if rec["ret"] else 0
            tgt = pre["latent"] + (n if m == "add_latent_node" else -n)
            if n > 0 and lo < tgt < hi and post["latent"] != tgt:
                out.append(("effective", f"{m}({n}) not stopped by a bound ({pre['latent']} -> {tgt} inside ({lo},{hi})) but latent={post['latent']}"))
            if ((m == "add_latent_node" and tgt > hi) or (m == "remove_latent_node" and tgt < lo)) and post["latent"] != pre["latent"]:
                out.append(("bounds", f"{m}({n}) must be stopped by [{lo},{hi}] but latent {pre['latent']} -> {post['latent']}"))
            if {k: v for k, v in post.items() if k != "latent"} != {k: v for k, v in pre.items() if k != "latent"}:
                out.append(("effective", f"{m} changed more than the latent width: {pre} -> {post}"))
            return out
        part, inner = m.split(".")[1], m.split(".")[2]
        which = "mlp" if part == "vector_mlp" else "cnn"
        pref = f"feature_net.{part}."
        if attr == "" and rec.get("after_latent") and post == pre:
            return out + [("effective", f"{m} on the same clone after a latent-width mutation changed nothing and reports no applied method",
                           f"multi:same-clone-nested-after-latent:{which}")]
        if not attr.startswith(pref):
            out.append(("resolved-method", f"{m} reported as {attr!r}"))
            return out
        if {k: v for k, v in post.items() if k != which} != {k: v for k, v in pre.items() if k != which}:
            out.append(("effective", f"{m} changed another part: {pre} -> {post}"))
        rec2 = dict(rec); rec2["attr"] = attr[len(pref):]
        if which == "cnn":
            out += BLOCKS["cnn"].effect(self.cnn_case(case), {"m": inner, "args": step.get("args", {})}, pre["cnn"], post["cnn"], rec2)
        else:
            out += BLOCKS["mlp"].effect({"cfg": {"min_hidden_layers": 1, "max_hidden_layers": 3, "min_mlp_nodes": 8, "max_mlp_nodes": 64}},
                                        {"m": inner, "args": step.get("args", {})}, pre["mlp"], post["mlp"], rec2)
        return out

    def oracle(self, case, obs):
        self._case = case
        return super().oracle(case, obs)

    # ---- Coq (dict space without vector MLP only)
    def arch_term(self, d):
        c = d["cnn"]
        return (f"{{| mu_latent := {cz(d['latent'])}; mu_cnn := {{| channels := {czl(c['widths'])}; kernels := {czl(c['kernels'])}; "
                f"strides := {czl(c['strides'])} |}} |}}")

    MLP_BOUNDS = {"min_hidden_layers": 1, "max_hidden_layers": 3, "min_mlp_nodes": 8, "max_mlp_nodes": 64}

    def coq(self, case, obs):
        tup = case.get("space", "dict") != "dict"
        if case.get("space") == "dict2" or bool(case.get("vector_mlp")) != tup:
            return None                      # modelled: Dict space without vector MLP, Tuple space with vector MLP
        cc = self.cnn_case(case)["cfg"]
        vec = 6 if tup else 4                # Box(3) + one-hot Discrete(3)  |  Box(4)
        st = (f"{{| mus_in_ch := {IMG[0]}; mus_h := {IMG[1]}; mus_w := {IMG[2]}; mus_layer_norm := {coq_bool(case['cfg']['cnn_config'].get('layer_norm', False))}; "
              f"mus_vec_dims := {vec}; mus_out := {cz(case['static']['num_outputs'])} |}}")
        cfg = (f"{{| mu_min_latent := {cz(case['cfg']['min_latent_dim'])}; mu_max_latent := {cz(case['cfg']['max_latent_dim'])}; "
               f"mu_cnn_cfg := {BLOCKS['cnn'].cfg_term(cc)} |}}")
        key = self.img_key(case)

        def core(s):
            m, a = s["m"], s.get("args", {})
            if m == "add_latent_node":
                return f"(MuAddLatent {copt(a.get('numb_new_nodes'))})"
            if m == "remove_latent_node":
                return f"(MuRemoveLatent {copt(a.get('numb_new_nodes'))})"
            return f"(MuCnn {BLOCKS['cnn'].meth_term({'m': m.split('.')[2], 'args': a})})"
        if not tup:
            steps = "[" + "; ".join(f"({core(s)}, {draws(s, 2)}, {cobs(self.arch_term(r['desc']), r)})" for s, r in B.good_pairs(case, obs)) + "]"
            d0 = {"latent": case["init"]["latent"], "cnn": case["init"]["cnn"]}
            return f"check_multi {st} {cfg} {self.arch_term(d0)} (Some {cshapes(obs['shapes0'])}) {steps}"

        def a2(d):
            return f"{{| m2_core := {self.arch_term(d)}; m2_mlp := {czl(d['mlp']['widths'])} |}}"

        def m2(s):
            if s["m"].startswith("feature_net.vector_mlp."):
                return f"(M2Mlp {BLOCKS['mlp'].meth_term({'m': s['m'].split('.')[2], 'args': s.get('args', {})})})"
            return f'(M2Core "{key}" {core(s)})'
        st2 = f"{{| m2_base := {st}; m2_mlp_layer_norm := true |}}"
        cfg2 = f"{{| m2_cfg := {cfg}; m2_mlp_cfg := {BLOCKS['mlp'].cfg_term(self.MLP_BOUNDS)} |}}"
        steps = "[" + "; ".join(f"({m2(s)}, {draws(s, 2)}, {cobs(a2(r['desc']), r)})" for s, r in B.good_pairs(case, obs)) + "]"
        return f"check_multi2 {st2} {cfg2} {a2(obs['desc0'])} (Some {cshapes(obs['shapes0'])}) {steps}"


class NetMulti(Block):
    """networks over Dict / Tuple observation spaces (encoder = EvolvableMultiInput): oracle only"""
    name = "netmulti"

    def space(self, case):
        return Multi.space(self, case)

    def build(self, case):
        cnn = {"channel_size": [8], "kernel_size": [3], "stride_size": [1], "min_channel_size": 8, "max_channel_size": 48, "init_layers": False}
        kw = {"observation_space": self.space(case), "latent_dim": 32, "encoder_config": {"cnn_config": cnn, "latent_dim": 16}}
        cls = {"q": QNetwork, "value": ValueNetwork, "det": DeterministicActor}[case["net"]]
        if case["net"] == "q":
            kw["action_space"] = spaces.Discrete(3)
        if case["net"] == "det":
            kw["action_space"] = spaces.Box(-1, 1, (2,))
        return cls(**kw)

    def desc(self, m):
        d = m.init_dict
        e = d["encoder_config"]
        key = [k for k in e["init_dicts"] if k != "vector_mlp"][0]
        c = e["init_dicts"][key]
        ch = [int(x) for x in py(c["channel_size"])]
        h = [int(x) for x in py(d["head_config"]["hidden_size"])]
        return {"latent": int(d["latent_dim"]), "enc_latent": int(e["latent_dim"]),
                "cnn": {"layers": len(ch), "widths": ch, "kernels": [int(x) for x in py(c["kernel_size"])], "strides": [int(x) for x in py(c["stride_size"])]},
                "head": {"layers": len(h), "widths": h}}

    def advertised(self, case):
        return None

    def make_input(self, case, b):
        x = Multi.make_input(self, case, b)
        return x

    def out_shape(self, case, b):
        return {"q": [b, 3], "value": [b, 1], "det": [b, 2]}[case["net"]]

    def run(self, case):
        torch.manual_seed(0)
        m = self.build(case)
        meths = sorted(m.mutation_methods)
        d0 = m.init_dict
        hb, cb = d0["head_config"], d0["encoder_config"]["init_dicts"]
        cb = cb[[k for k in cb if k != "vector_mlp"][0]]
        obs = {"methods": meths, "desc0": self.desc(m), "shapes0": [], "steps": [], "chosen": [],
               "bounds": {"latent": (int(d0["min_latent_dim"]), int(d0["max_latent_dim"])),
                          "enc_latent": (int(d0["encoder_config"]["min_latent_dim"]), int(d0["encoder_config"]["max_latent_dim"])),
                          "head.width": (int(hb["min_mlp_nodes"]), int(hb["max_mlp_nodes"])),
                          "head.layers": (int(hb["min_hidden_layers"]), int(hb["max_hidden_layers"])),
                          "cnn.width": (int(cb["min_channel_size"]), int(cb["max_channel_size"])),
                          "cnn.layers": (int(cb["min_hidden_layers"]), int(cb["max_hidden_layers"]))}}
        every, n = case.get("every", 1), len(case["steps"])
        for i, step in enumerate(case["steps"]):
            rec = {"error": None, "attr": None, "ret": [], "shapes": None, "rebuilt": None}
            name = meths[step["pick"] % len(meths)]          # the step names an index into the advertised list
            obs["chosen"].append(name)
            sc = Script(step.get("r", []))
            try:
                m = m.clone()
                with sc:
                    ret = getattr(m, name)()
                rec["attr"] = m.last_mutation_attr or ""
                rec["ret"] = [int(v) for v in ret.values()] if isinstance(ret, dict) else []
            except Exception as e:  # noqa
                rec["error"] = f"{type(e).__name__}: {e}"[:400]
            try:
                rec["desc"] = self.desc(m)
            except Exception as e:  # noqa
                rec["desc"] = None
                rec["error"] = rec["error"] or f"descriptor: {type(e).__name__}: {e}"[:300]
            if rec["error"] is None and every > 0 and (i % every == 0 or i == n - 1):
                Multi.observe_full(self, m, case, rec)
                rec["shapes"] = None
                rec["rebuilt"] = "ok" if not isinstance(rec["rebuilt"], str) else rec["rebuilt"]
            obs["steps"].append(rec)
            if rec["error"] is not None:
                break
        return obs

    def coq(self, case, obs):
        return None

    def oracle(self, case, obs):
        out = []
        pre = obs["desc0"]
        B_ = {k: tuple(v) for k, v in obs["bounds"].items()}      # the bounds the network declares in its constructor description

        def q(d):
            r = [("latent", d["latent"]), ("enc_latent", d["enc_latent"]), ("head.layers", d["head"]["layers"]), ("cnn.layers", d["cnn"]["layers"])]
            r += [("head.width", w) for w in d["head"]["widths"]] + [("cnn.width", w) for w in d["cnn"]["widths"]]
            return r
        for i, (name, rec) in enumerate(zip(obs["chosen"], obs["steps"])):
            where = f"step {i} {name}() draws {case['steps'][i].get('r')} from {pre}"
            sig = f"netmulti:{name}"
            if rec["error"] is not None:
                out.append(Violation("valid", f"{sig}:raised", f"{where}: {rec['error']}")); break
            post = rec["desc"]
            inside = all(B_[k][0] <= v <= B_[k][1] for k, v in q(pre))
            for k, v in q(post):
                if inside and not (B_[k][0] <= v <= B_[k][1]):
                    out.append(Violation("bounds", f"{sig}:bounds:{k}", f"{where}: {k}={v} outside {B_[k]}"))
            if rec["attr"] == "" and not (name.endswith("change_kernel") and pre["cnn"]["layers"] == 1):
                out.append(Violation("effective", f"{sig}:no-method-applied", f"{where}: no applied method reported, architecture {post}"))
            if rec.get("fw") is not None:
                for b, f in zip((1, 2, 3), rec["fw"]):
                    if "error" in f or f["shape"] != self.out_shape(case, b) or not f["finite"]:
                        out.append(Violation("valid", f"{sig}:forward", f"{where}: forward(batch {b}) at {post}: {f}")); break
                if isinstance(rec["rebuilt"], str) and rec["rebuilt"] != "ok":
                    out.append(Violation("rebuild", f"{sig}:ctor-raised", f"{where}: {rec['rebuilt']}"))
                elif rec.get("load") != "ok":
                    out.append(Violation("rebuild", f"{sig}:load-state-dict", f"{where}: {rec.get('load')}"))
                elif rec.get("same_fn") is False:
                    out.append(Violation("rebuild", f"{sig}:rebuilt-different-function", f"{where}: rebuilt network computes different outputs with the same weights"))
            if out:
                break
            pre = post
        return out


def S(m, r=(), **args):
    return {"m": m, "args": args, "r": list(r)}


def gen_multi(tier, rng):
    quick = tier == "quick"
    cases = []
    cnn_cfg = {"min_hidden_layers": 1, "max_hidden_layers": 3, "min_channel_size": 4, "max_channel_size": 16, "init_layers": False}
    cfg = {"min_latent_dim": 8, "max_latent_dim": 48, "cnn_config": cnn_cfg}
    k = "feature_net.b."
    meths = ["add_latent_node", "remove_latent_node"] + [k + x for x in ("add_channel", "remove_channel", "change_kernel", "add_layer", "remove_layer")]
    for w in range(4 if quick else 30):
        steps = []
        for _ in range(10 if quick else 40):
            m = rng.choice(meths)
            if m.endswith("latent_node") and rng.random() < 0.5:
                steps.append(S(m, numb_new_nodes=8))
            elif m.endswith("_channel") and rng.random() < 0.6:
                steps.append(S(m, hidden_layer=rng.randrange(3), numb_new_channels=4))
            else:
                steps.append(S(m, (rng.randrange(100), rng.randrange(100))))
        cases.append({"block": "multi", "space": "dict", "static": {"num_outputs": rng.choice([3, 5])},
                      "cfg": dict(cfg, cnn_config=dict(cnn_cfg, layer_norm=rng.random() < 0.4)),
                      "init": {"latent": 16, "cnn": {"layers": 1, "widths": [8], "kernels": [3], "strides": [1]}},
                      "steps": steps, "every": 3, "src": "walk"})
    k2 = "feature_net.2."
    meths2 = ["add_latent_node", "remove_latent_node"] + [k2 + x for x in ("add_channel", "remove_channel", "change_kernel", "add_layer", "remove_layer")] \
        + ["feature_net.vector_mlp." + x for x in ("add_layer", "remove_layer", "add_node", "remove_node")]
    for w in range(2 if quick else 12):
        steps = [S(rng.choice(meths2), (rng.randrange(100), rng.randrange(100))) for _ in range(8 if quick else 40)]
        cases.append({"block": "multi", "space": "tuple", "vector_mlp": True, "static": {"num_outputs": 4},
                      "cfg": {"min_latent_dim": 8, "max_latent_dim": 128, "cnn_config": {"min_channel_size": 8, "max_channel_size": 48, "init_layers": False}},
                      "init": {"latent": 16, "cnn": {"layers": 1, "widths": [8], "kernels": [3], "strides": [1]}},
                      "steps": steps, "every": 3, "src": "walk"})
    k3 = "feature_net.img."
    meths3 = ["add_latent_node", "remove_latent_node"] + [k3 + x for x in ("add_channel", "remove_channel", "change_kernel", "add_layer", "remove_layer")]
    for w in range(1 if quick else 6):
        steps = [S(rng.choice(meths3), (rng.randrange(100), rng.randrange(100))) for _ in range(8 if quick else 40)]
        cases.append({"block": "multi", "space": "dict2", "static": {"num_outputs": 4},
                      "cfg": {"min_latent_dim": 8, "max_latent_dim": 128, "cnn_config": {"min_channel_size": 8, "max_channel_size": 48, "init_layers": False}},
                      "init": {"latent": 16, "cnn": {"layers": 1, "widths": [8], "kernels": [3], "strides": [1]}},
                      "steps": steps, "every": 2, "src": "walk-oracle-only"})
    # one clone, then a latent mutation followed by nested mutations on that same clone
    for first in ("add_latent_node", "remove_latent_node"):
        steps = [{"m": "add_latent_node", "args": {}, "r": [0, 0], "bad": {"numb_new_nodes": "8"}},
                 S(first, (0, 0)), S(k + "add_channel", (0, 0)), S(k + "add_layer", (0, 0)), S(k + "change_kernel", (0, 0)), S("add_latent_node", (0, 1)), S(k + "remove_layer", (0, 0))]
        cases.append({"block": "multi", "space": "dict", "clone": "once", "static": {"num_outputs": 3}, "cfg": dict(cfg),
                      "init": {"latent": 24, "cnn": {"layers": 1, "widths": [8], "kernels": [3], "strides": [1]}},
                      "steps": steps, "every": 1, "src": "same-clone"})
    # strided feature extractor: explicit kernels at the boundary of what fits (16x16 image, kernels [3,2], strides [2,1]: map 7 -> 6)
    bsteps = [S(k + "change_kernel", (0, 0), kernel_size=kk, hidden_layer=1) for kk in (8, 9, 7, 8, 6)] + \
             [S(k + "change_kernel", (0, 1)), S("add_latent_node", (0, 1)), S(k + "add_channel", (1, 0)), S(k + "change_kernel", (0, 0), kernel_size=8, hidden_layer=1)]
    cases.append({"block": "multi", "space": "dict", "static": {"num_outputs": 3}, "cfg": dict(cfg),
                  "init": {"latent": 16, "cnn": {"layers": 2, "widths": [8, 8], "kernels": [3, 2], "strides": [2, 1]}},
                  "steps": bsteps, "every": 1, "src": "strided", "twin": True})
    for n in ("q", "value", "det"):
        for sp in ("dict", "tuple"):
            if quick and (n, sp) not in (("q", "dict"), ("value", "tuple"), ("det", "dict")):
                continue
            steps = [{"m": "advertised[pick]", "pick": rng.randrange(1000), "args": {}, "r": [rng.randrange(100), rng.randrange(100)]} for _ in range(8 if quick else 40)]
            cases.append({"block": "netmulti", "net": n, "space": sp, "static": {}, "cfg": {}, "init": {}, "steps": steps, "every": 3, "src": "walk-oracle-only"})
    return cases, True


# ------------------------------------------------------------------ Conv3d CNN (multi-agent image observations): oracle only
class CNN3d(B.CNN):
    name = "cnn3d"
    DEPTH = 2

    def kwargs(self, case):
        kw = super().kwargs(case)
        c, h, w = case["static"]["input_shape"]
        kw["block_type"] = "Conv3d"
        kw["sample_input"] = torch.zeros(1, c, self.DEPTH, h, w)
        return kw

    def make_input(self, case, b):
        c, h, w = case["static"]["input_shape"]
        return torch.rand(b, c, self.DEPTH, h, w)

    def coq(self, case, obs):
        steps = "[" + "; ".join(
            f"({self.meth_term(s)}, {draws(s, 2)}, "
            f"{cobs('(' + czl(r['desc']['widths']) + ', ' + czl(r['desc']['kernels']) + ', ' + czl(r['desc']['strides']) + ')', r)})"
            for s, r in B.good_pairs(case, obs)) + "]"
        return (f"check_cnn3d {self.static_term(case['static'])} {self.DEPTH} {self.cfg_term(case['cfg'])} {self.arch_term(case['init'])} "
                f"(Some {cshapes(obs['shapes0'])}) {steps}")


def gen_cnn3d(tier, rng):
    cases = []
    cfg0 = {"min_hidden_layers": 1, "max_hidden_layers": 4, "min_channel_size": 8, "max_channel_size": 48}
    for shp in ([2, 24, 24], [2, 20, 32], [2, 32, 20]):
        static = {"input_shape": shp, "num_outputs": 4, "layer_norm": False, "init_layers": False}
        steps = [S("change_kernel", (0, 0), kernel_size=[2, 1, 1], hidden_layer=0), S("change_kernel", (0, 0), kernel_size=[1, 3, 3], hidden_layer=1),
                 S("change_kernel", (0, 0), kernel_size=[2, 2, 2], hidden_layer=0), S("add_layer", (1, 0)), S("change_kernel", (0, 0), kernel_size=[1, 2, 2], hidden_layer=2),
                 S("change_kernel", (0, 0), kernel_size=[3, 1, 1], hidden_layer=1), S("change_kernel", (1, 1)), S("change_kernel", (0, 0), kernel_size=3, hidden_layer=0)]
        cases.append({"block": "cnn3d", "static": static, "cfg": cfg0, "init": {"channels": [8, 8], "kernels": [3, 3], "strides": [1, 1]},
                      "steps": steps, "every": 1, "src": "walk", "twin": True})
    for w in range(2 if tier == "quick" else 10):
        static = {"input_shape": [[2, 24, 24], [2, 18, 30], [2, 30, 18]][w % 3], "num_outputs": 4, "layer_norm": rng.random() < 0.5, "init_layers": False}
        cfg = {"min_hidden_layers": 1, "max_hidden_layers": 4, "min_channel_size": 8, "max_channel_size": 48}
        steps = [S(rng.choice(["add_layer", "remove_layer", "change_kernel", "change_kernel", "add_channel", "remove_channel"]),
                   (rng.randrange(100), rng.randrange(100))) for _ in range(12 if tier == "quick" else 60)]
        cases.append({"block": "cnn3d", "static": static, "cfg": cfg, "init": {"channels": [8, 8], "kernels": [3, 3], "strides": [1, 1]},
                      "steps": steps, "every": 3, "src": "walk"})
    return cases, True


# ------------------------------------------------------------------ further network configurations: oracle only
from agilerl.networks.q_networks import RainbowQNetwork  # noqa: E402
from agilerl.networks.actors import StochasticActor  # noqa: E402


def _flat_numbers(d, prefix=""):
    """numeric leaves of a constructor description (lists of ints included), keyed by their path"""
    out = {}
    if isinstance(d, dict):
        for k, v in d.items():
            out.update(_flat_numbers(v, f"{prefix}{k}."))
    elif isinstance(d, (list, tuple)) and d and all(isinstance(x, (int,)) or hasattr(x, "item") and getattr(x, "ndim", 1) == 0 for x in d):
        out[prefix[:-1]] = [int(x) for x in d]
    elif isinstance(d, bool):
        pass
    elif isinstance(d, int) or (hasattr(d, "item") and getattr(d, "ndim", 1) == 0 and "int" in type(d).__name__):
        out[prefix[:-1]] = int(d)
    return out


class NetAny(Block):
    """network classes / encoder choices the modelled `net` block does not build: custom encoder class (ResNet), Rainbow over
    images, stochastic actor over a Discrete action space, Dict space with a recurrent (LSTM) and a MultiDiscrete member.
    Steps pick an index into the CURRENTLY advertised methods (so methods that appear after a mutation are exercised too)."""
    name = "netany"
    IMG = (3, 16, 16)

    def build(self, case):
        sp = case["spec"]
        img = spaces.Box(0, 1, self.IMG)
        if sp == "resnet-q":
            return QNetwork(img, spaces.Discrete(3), latent_dim=32, encoder_cls="ResNet",
                            encoder_config={"input_shape": list(self.IMG), "channel_size": 32, "kernel_size": 3, "stride_size": 1, "num_blocks": 1,
                                            "min_channel_size": 16, "max_channel_size": 96})
        if sp == "rainbow-img":
            return RainbowQNetwork(img, spaces.Discrete(3), support=torch.linspace(0, 1, 5), num_atoms=5, latent_dim=32,
                                   encoder_config={"channel_size": [16], "kernel_size": [3], "stride_size": [1], "min_channel_size": 8, "max_channel_size": 64, "init_layers": False})
        if sp == "stoch-discrete":
            return StochasticActor(spaces.Box(-1, 1, (4,)), spaces.Discrete(3), latent_dim=16)
        if sp == "stoch-near-max":
            return StochasticActor(spaces.Box(-1, 1, (4,)), spaces.Box(-1, 1, (2,)), latent_dim=120, max_latent_dim=128, min_latent_dim=8)
        if sp == "dict-recurrent-q":
            d = spaces.Dict({"v": spaces.Box(-1, 1, (3,)), "s": spaces.Box(-1, 1, (5, 4)), "d": spaces.MultiDiscrete([2, 3])})
            return QNetwork(d, spaces.Discrete(3), latent_dim=32, recurrent=True, encoder_config={"recurrent": True, "latent_dim": 16})
        raise ValueError(sp)

    def make_input(self, case, b):
        sp = case["spec"]
        if sp in ("resnet-q", "rainbow-img"):
            return torch.rand(b, *self.IMG)
        if sp.startswith("stoch"):
            return torch.rand(b, 4)
        oh = torch.cat([torch.nn.functional.one_hot(torch.randint(0, 2, (b,)), 2), torch.nn.functional.one_hot(torch.randint(0, 3, (b,)), 3)], dim=1).float()
        return {"v": torch.rand(b, 3), "s": torch.rand(b, 5, 4), "d": oh}

    def out_shape(self, case, b):
        return {"resnet-q": [b, 3], "rainbow-img": [b, 3], "stoch-discrete": [b], "stoch-near-max": [b, 2], "dict-recurrent-q": [b, 3]}[case["spec"]]

    def desc(self, m):
        d = m.init_dict
        return _flat_numbers({"latent_dim": d["latent_dim"], "encoder": d["encoder_config"], "head": d["head_config"]})

    def advertised(self, case):
        return None

    def coq(self, case, obs):
        return None

    def run(self, case):
        torch.manual_seed(0)
        m = self.build(case)
        obs = {"methods": sorted(m.mutation_methods), "desc0": self.desc(m), "shapes0": [], "steps": [], "chosen": []}
        every, n = case.get("every", 1), len(case["steps"])
        for i, step in enumerate(case["steps"]):
            rec = {"error": None, "attr": None, "ret": [], "shapes": None, "rebuilt": None}
            sc = Script(step.get("r", []))
            try:
                m = m.clone()
                meths = sorted(m.mutation_methods)
                name = meths[step["pick"] % len(meths)]
                obs["chosen"].append(name)
                with sc:
                    ret = getattr(m, name)()
                rec["attr"] = m.last_mutation_attr or ""
                rec["ret"] = [int(v) for v in ret.values()] if isinstance(ret, dict) else []
            except Exception as e:  # noqa
                obs["chosen"].append("?") if len(obs["chosen"]) <= i else None
                rec["error"] = f"{type(e).__name__}: {e}"[:400]
            try:
                rec["desc"] = self.desc(m)
            except Exception as e:  # noqa
                rec["desc"] = None
                rec["error"] = rec["error"] or f"descriptor: {type(e).__name__}: {e}"[:300]
            if rec["error"] is None and every > 0 and (i % every == 0 or i == n - 1):
                self.observe(m, case, rec)
            obs["steps"].append(rec)
            if rec["error"] is not None:
                break
        return obs

    def observe(self, m, case, rec):
        fw, x3, y3 = [], None, None
        for b in (1, 2, 3):
            try:
                x = self.make_input(case, b)
                with torch.no_grad():
                    y = m(copy.copy(x))
                y = y[0] if isinstance(y, tuple) else y
                x3, y3 = x, y
                fw.append({"shape": [int(v) for v in y.shape], "finite": bool(torch.isfinite(y.float()).all())})
            except Exception as e:  # noqa
                fw.append({"error": f"{type(e).__name__}: {e}"[:300]})
        rec["fw"] = fw
        try:
            clone = type(m)(**copy.deepcopy(m.init_dict))
            rec["rebuilt"] = "ok"
            try:
                clone.load_state_dict(m.state_dict(), strict=True)
                rec["load"] = "ok"
                if not case["spec"].startswith("stoch") and y3 is not None:
                    with torch.no_grad():
                        y2 = clone(copy.copy(x3))
                    rec["same_fn"] = bool(torch.allclose(y2, y3, atol=1e-6))
            except Exception as e:  # noqa
                rec["load"] = f"{type(e).__name__}: {e}"[:300]
            rec["rebuilt_desc_same"] = (self.desc(clone) == self.desc(m))
        except Exception as e:  # noqa
            rec["rebuilt"] = f"raised {type(e).__name__}: {e}"[:300]
            rec["load"] = None

    def oracle(self, case, obs):
        out = []
        pre = obs["desc0"]
        for i, (name, rec) in enumerate(zip(obs["chosen"], obs["steps"])):
            where = f"{case['spec']} step {i} {name}() draws {case['steps'][i].get('r')} from {pre}"
            sig = f"netany:{case['spec']}:{name}"
            if rec["error"] is not None:
                out.append(Violation("valid", f"{sig}:raised", f"{where}: {rec['error']}")); break
            post = rec["desc"]
            # declared bounds: <x> with siblings min_<x>/max_<x> in the same description (latent_dim, and whatever the blocks declare)
            for k, v in post.items():
                stem, leaf = k.rsplit(".", 1) if "." in k else ("", k)
                for lo_k, hi_k in ((f"min_{leaf}", f"max_{leaf}"),):
                    lo, hi = post.get((stem + "." if stem else "") + lo_k), post.get((stem + "." if stem else "") + hi_k)
                    if isinstance(v, int) and isinstance(lo, int) and isinstance(hi, int):
                        pv = pre.get(k)
                        if isinstance(pv, int) and lo <= pv <= hi and not (lo <= v <= hi):
                            out.append(Violation("bounds", f"{sig}:bounds:{leaf}", f"{where}: {k}={v} outside [{lo},{hi}]"))
            if rec["attr"] == "" and not name.endswith("change_kernel"):
                out.append(Violation("effective", f"{sig}:no-method-applied", f"{where}: no applied method reported, description {post}"))
            if rec.get("fw") is not None:
                for b, f in zip((1, 2, 3), rec["fw"]):
                    if "error" in f or f["shape"] != self.out_shape(case, b) or not f["finite"]:
                        out.append(Violation("valid", f"{sig}:forward", f"{where}: forward(batch {b}) at {post}: {f}, declared {self.out_shape(case, b)}")); break
                if rec["rebuilt"] != "ok":
                    out.append(Violation("rebuild", f"{sig}:ctor-raised", f"{where}: {rec['rebuilt']}"))
                elif rec.get("load") != "ok":
                    out.append(Violation("rebuild", f"{sig}:load-state-dict", f"{where}: {rec.get('load')}"))
                elif rec.get("same_fn") is False:
                    out.append(Violation("rebuild", f"{sig}:rebuilt-different-function", f"{where}: rebuilt network computes different outputs with the same weights"))
                elif rec.get("rebuilt_desc_same") is False:
                    out.append(Violation("rebuild", f"{sig}:ctor-not-fixed-point", f"{where}: rebuilt network reports a different description"))
            if out:
                break
            pre = post
        return out


def gen_netany(tier, rng):
    cases = []
    quick = tier == "quick"
    for sp in ("resnet-q", "rainbow-img", "stoch-discrete", "stoch-near-max", "dict-recurrent-q"):
        for w in range(1 if quick else 6):
            steps = [{"m": "advertised[pick]", "pick": rng.randrange(1000), "args": {}, "r": [rng.randrange(100), rng.randrange(100)]}
                     for _ in range(10 if quick else 40)]
            cases.append({"block": "netany", "spec": sp, "static": {}, "cfg": {}, "init": {}, "steps": steps, "every": 2, "src": "walk-oracle-only"})
    return cases, True
