"""C11 — prioritised replay samples stored items with consistent priorities and weights."""
from __future__ import annotations

import itertools
import math
import random
import sys
from fractions import Fraction

import numpy as np
import torch

import vlib
from vlib import Violation, coq_float, coq_Q

from agilerl.components.data import Transition
from agilerl.components.replay_buffer import MultiStepReplayBuffer, PrioritizedReplayBuffer
from agilerl.components.sampler import Sampler

INF = float("inf")
U_MAX = 1.0 - 2.0 ** -24          # the largest value torch.rand (float32) can return
FLOOR = 1e-5


def f32(x: float) -> float:
    return float(np.float32(x))


def make_transition(tags):
    t = np.asarray(tags, dtype=np.float32)
    n = len(tags)
    tr = Transition(obs=np.stack([t, t + 0.5], axis=1), action=t.copy(), reward=t.copy(),
                    next_obs=np.stack([t, t + 0.5], axis=1), done=(t % 2).copy(), batch_size=[n])
    return tr.to_tensordict()


def row_tags(td):
    """decoded tag per sampled row (None if the row is not an intact tagged transition)"""
    obs = np.asarray(td["obs"], dtype=np.float64).reshape(len(td["action"]), -1)
    act = np.asarray(td["action"], dtype=np.float64).reshape(-1)
    rew = np.asarray(td["reward"], dtype=np.float64).reshape(-1)
    out = []
    for o, a, r in zip(obs, act, rew):
        ok = o[0] == a == r and o[1] == a + 0.5 and float(a).is_integer() and a > 0
        out.append(int(a) if ok else None)
    return out


class ScriptedRand:
    """replacement of torch.rand: hands out the scripted draws in order, whatever the requested shape"""

    def __init__(self, us):
        self.us = list(us)
        self.pos = 0

    def __call__(self, *size, **kw):
        if len(size) == 1 and isinstance(size[0], (tuple, list, torch.Size)):
            size = tuple(size[0])
        n = int(np.prod(size)) if size else 1
        if self.pos + n > len(self.us):
            raise RuntimeError(f"torch.rand asked for more draws than scripted ({self.pos}+{n} > {len(self.us)})")
        v = self.us[self.pos:self.pos + n]
        self.pos += n
        return torch.tensor(v, dtype=torch.float32).reshape(size if size else ())


def eff_prios(op):
    """the Python numbers update_priorities sees through priority.item() (the tensor dtype rounds the value)"""
    dt = op[3]
    if dt == "f32":
        return [f32(p) for p in op[2]]
    if dt == "f16":
        return [float(np.float16(p)) for p in op[2]]
    if dt == "i64":
        return [float(int(p)) for p in op[2]]
    return [float(p) for p in op[2]]


TORCH_DT = {"f32": torch.float32, "f64": torch.float64, "f16": torch.float16, "i64": torch.int64}


# -------------------------------------------------------------------------------- Coq literals
def cq_f(x):
    return coq_float(x)


def cq_of(x):
    return "None" if x is None or x == INF else f"(Some {coq_float(x)})"


def cq_q(x):
    return coq_Q(x)


def cq_oq(x):
    return "None" if x is None or x == INF else f"(Some {coq_Q(x)})"


class C11(vlib.Driver):
    pid = "C11"
    preamble = ("From Coq Require Import ZArith QArith PrimFloat.\n"
                "From AgileV Require Import C11.Model C11.Check.\nOpen Scope nat_scope.")
    rule = ("op sequences over {add n<=max_size (with wrap-around), update_priorities on stored indices (tiny, huge, "
            "repeated), sample with scripted torch.rand draws (incl. 0 and 1-2^-24), clear} on max_size 1..9 (power of two "
            "or not) and a few larger; kind=float: arbitrary binary64 priorities, alpha in {0,0.4,0.6,1}, compared bit-exactly "
            "with the PrimFloat instance after every op; kind=exact: integer priorities, alpha=1, dyadic draws, batch a power of "
            "two, compared with the rational instance (the instance the theorems are about) AND the float instance; "
            "exhaustive sequences of length <= 4 on max_size 1..3 (quick), <= 5 on max_size 1..4 (thorough; of the 6976 length-5 sequences on max_size 4 every 8th is K-compared, all go through the oracle); paired n-step buffer cases (kind=nstep, oracle only); boundary cases for defaults / empty-slot updates / numpy arguments. Distinct = distinct (kind, max_size, alpha, beta, op list incl. values). "
            "Non-trivial = at least one wrap-around of the write pointer, or a sample after >= 2 additions.")
    trusted_base = ["hand-written model coq/theories/C11/Model.v (carrier-generic; x**alpha and x**-beta are computed by CPython "
                    "and passed as tables)",
                    "correspondence harness harness/c11.py (scripted torch.rand, tagged transitions, hex-float exchange)",
                    "PrimFloat/Uint63 primitives (binary64 arithmetic of the Coq kernel) for the correspondence instance only"]
    assumptions = ["theorems per_invariant / sampled_are_stored (code as it is): update_priorities addresses stored indices; the "
                   "property's quantifier has no such restriction, so an accepted update of an empty slot is reported "
                   "(clause update-unstored-accepted, theorem unstored_update_refuted; repair fixes/C11-update-priority-stored-index.patch, "
                   "for which strict_invariant / strict_sampled_are_stored hold without the guard)",
                   "batches no wider than max_size (ReplayBuffer precondition, C09)",
                   "sample is called on a non-empty buffer with batch_size >= 1",
                   "exact arithmetic in the theorems; binary64 rounding is tied by bit-exact K on the reachable draw grid "
                   "(float32 draws); the one-ulp descent into a zero leaf needs a draw within 2^-53 of 1 (Example retrieve_float_gap)",
                   "priorities are finite positive floats; float('inf') of the min tree is represented by None in the model"]
    shard = 20       # small files: coqc needs ~0.5 GB per MB of hex-float literals
    coq_dirs = ("C09",)      # C11/Joint.v composes the priority model with the C09 ring buffer

    strict = True      # the model K runs: _update_priority asserts idx < len(buffer) (fix 123e2e4; Strict.v, strict = true)

    def setup(self, tier):
        b = PrioritizedReplayBuffer(max_size=2, alpha=1.0)
        b.add(make_transition([1]))
        try:
            b.update_priorities(torch.tensor([1]), torch.tensor([1.0]))
            seen = "idx < max_size (pre-fix)"
        except AssertionError:
            seen = "idx < len(buffer)"
        self.notes = [f"_update_priority assertion observed on this tree: {seen}; model: idx < len(buffer)"]

    # ------------------------------------------------------------------ generation
    def _draw(self, rng):
        r = rng.random()
        if r < 0.14:
            return 0.0
        if r < 0.28:
            return U_MAX
        if r < 0.34:
            return 2.0 ** -24
        if r < 0.40:
            return 0.5
        return f32(rng.random())

    def _prio(self, rng, dtype):
        r = rng.random()
        if r < 0.12:
            p = rng.choice([0.0, 1e-9, 1e-6, FLOOR, 9.999e-6, 1.0000001e-5])
        elif r < 0.24:
            p = rng.choice([1e4, 1e6, 3.5e7, 1e12, 1e17])
        elif r < 0.34:
            p = rng.choice([1.0, 0.5, 2.0, 0.2, 0.7, 0.001])
        else:
            p = math.exp(rng.uniform(-9, 6))
        if dtype == "f16":
            return float(np.float16(min(p, 6.0e4)))
        if dtype == "i64":
            return float(int(min(p, 1e15)))
        return f32(p) if dtype == "f32" else float(p)

    def _float_case(self, rng, m, nops, every):
        alpha = rng.choice([0.0, 0.4, 0.6, 0.6, 1.0])
        beta = rng.choice([0.0, 0.4, 0.4, 1.0])
        ops, size = [], 0
        for _ in range(nops):
            r = rng.random()
            if size == 0 or r < 0.34:
                n = min(m, rng.choice([1, 1, 1, 2, 3, m, rng.randint(1, m)]))
                ops.append(["add", n]); size = min(m, size + n)
            elif r < 0.62:
                k = rng.randint(1, 5)
                dt = rng.choice(["f32", "f32", "f64", "f64", "f16", "i64"])
                idxs = [rng.randrange(size) for _ in range(k)]
                if rng.random() < 0.3 and k > 1:
                    idxs[-1] = idxs[0]                     # repeated index
                prios = [self._prio(rng, dt) for _ in range(k)]
                if rng.random() < 0.04:
                    idxs[rng.randrange(k)] = m            # malformed: the assertion 0 <= idx < max_size fires
                elif rng.random() < 0.02:
                    idxs[rng.randrange(k)] = -1           # malformed: negative index, the assertion 0 <= idx fires
                elif size < m and rng.random() < 0.05:
                    idxs[rng.randrange(k)] = rng.choice([size, m - 1])   # an empty slot below max_size
                if rng.random() < 0.06:
                    prios = prios + [self._prio(rng, dt)]  # one priority too many: zip() drops it
                elif k > 1 and rng.random() < 0.06:
                    prios = prios[:-1]                    # one priority too few: the last index is not updated
                shape = [rng.choice(["col", "np", "i32", "mixed"])] if rng.random() < 0.6 else []
                if len(prios) != len(idxs) and shape in (["col"], ["mixed"]):
                    shape = []
                ops.append(["update", idxs, prios, dt] + shape)
            elif r < 0.96:
                b = rng.choice([1, 2, 3, 4, 5, 7, 8])
                ops.append(["sample", [self._draw(rng) for _ in range(b)]])
            else:
                ops.append(["clear"]); size = 0
        return {"kind": "float", "cap": m, "alpha": alpha, "beta": beta, "ops": ops, "every": every,
                "via_sampler": rng.random() < 0.5, "defaults": rng.random() < 0.5, "decoy": rng.random() < 0.5}

    def _exact_case(self, rng, m, nops, every):
        ops, size = [], 0
        for _ in range(nops):
            r = rng.random()
            if size == 0 or r < 0.34:
                n = min(m, rng.choice([1, 1, 2, 3, m]))
                ops.append(["add", n]); size = min(m, size + n)
            elif r < 0.62:
                k = rng.randint(1, 4)
                idxs = [rng.randrange(size) for _ in range(k)]
                prios = [float(rng.choice([1, 1, 2, 3, 5, 8, 64, 1000, 65536, rng.randint(1, 4096)])) for _ in range(k)]
                ops.append(["update", idxs, prios, "f32"])
            elif r < 0.96:
                b = rng.choice([1, 2, 4, 8])
                ops.append(["sample", [rng.randrange(16) / 16.0 for _ in range(b)]])
            else:
                ops.append(["clear"]); size = 0
        return {"kind": "exact", "cap": m, "alpha": 1.0, "beta": 0.4, "ops": ops, "every": every}

    @staticmethod
    def _with_ranges(rng, case):
        """range queries sum(start, end) / min(start, end) after a few ops (end exclusive, 0 = up to capacity)"""
        c = 1
        while c < case["cap"]:
            c *= 2
        rg = {}
        for oi in rng.sample(range(len(case["ops"])), min(len(case["ops"]), rng.choice([1, 2, 3]))):
            qs = []
            for _ in range(rng.choice([1, 2, 3])):
                a = rng.randrange(c)
                b = rng.choice([0, a + 1, c, rng.randint(a + 1, c)])
                if a + 1 < c and rng.random() < 0.2:
                    b = rng.randint(a + 1, c - 1) - c          # negative end: counts back from the capacity
                qs.append([a, b])
            rg[str(oi)] = qs
        case["ranges"] = rg
        return case

    def _boundary_cases(self):
        """guards and defaults no random case is sure to hit"""
        out = []
        # update of an empty slot: every (max_size, len, index) with len <= index < max_size, max_size <= 5
        for m in (2, 3, 4, 5):
            for size in range(1, m):
                for idx in sorted({size, m - 1}):
                    out.append({"kind": "exact", "cap": m, "alpha": 1.0, "beta": 0.4, "every": 1,
                                "ops": [["add", size], ["update", [0, idx], [2.0, 3.0], "f32"], ["sample", [0.0, 0.9375]],
                                        ["add", 1], ["sample", [0.5, 0.9375]]]})
        # stale indices after clear()
        out.append({"kind": "exact", "cap": 4, "alpha": 1.0, "beta": 0.4, "every": 1,
                    "ops": [["add", 3], ["sample", [0.5, 0.9375]], ["clear"], ["add", 1], ["update", [2], [5.0], "f32"],
                            ["sample", [0.9375]]]})
        # constructor / sample defaults (alpha = 0.6, beta = 0.4 not passed), numpy index and priority arrays
        for m in (1, 3, 8):
            out.append({"kind": "float", "cap": m, "alpha": 0.6, "beta": 0.4, "every": 1, "defaults": True, "via_sampler": False,
                        "ops": [["add", 1], ["update", [0], [7.25], "f64", "np"], ["add", m], ["sample", [0.0, U_MAX, 0.5]],
                                ["update", [0, m - 1], [1e-7, 250.0], "f32", "np"], ["sample", [U_MAX, 0.0]]]})
        # a slot takes a huge priority and later an ordinary one (every ancestor must be recomputed, not adjusted by a delta);
        # identical calls in a row; integer / half-precision priority tensors; int32 indices; (k,) indices with (k,1) priorities
        for m in (2, 3, 4, 8):
            for i in sorted({0, m - 1}):
                out.append({"kind": "float", "cap": m, "alpha": 1.0, "beta": 0.4, "every": 1, "decoy": True, "via_sampler": True,
                            "ops": [["add", m], ["update", [i], [1e17], "f64"], ["update", [i], [0.5], "f64"], ["sample", [0.0, 0.5, U_MAX]],
                                    ["update", [i, (i + 1) % m], [3e17, 1e-9], "f64", "mixed"], ["update", [i], [2.0], "f32"],
                                    ["sample", [U_MAX, 0.0]], ["sample", [U_MAX, 0.0]]],
                            "ranges": {"2": [[0, 0], [i, i + 1]], "5": [[0, 0], [0, m]]}})
        for m in (3, 5):
            out.append({"kind": "float", "cap": m, "alpha": 0.6, "beta": 1.0, "every": 1, "decoy": True, "via_sampler": True,
                        "ops": [["add", 3], ["update", [0, 2], [7, 0], "i64"], ["update", [0, 2], [7, 0], "i64"],
                                ["sample", [0.25, 0.75]], ["sample", [0.25, 0.75]], ["add", 1],
                                ["update", [1, 1, 0], [0.3337, 60000.0, 1e-7], "f16", "i32"], ["sample", [0.25, 0.75]],
                                ["update", [2, 1], [4, 9], "i64", "np"], ["add", m], ["sample", [0.0, U_MAX, 0.5]]]})
        return out

    def generate(self, tier, rng):
        cases = self._boundary_cases() + self._generate(tier, rng) + self._nstep_cases(tier, rng)
        for i, c in enumerate(cases):
            if i % 2 == 0 and c["kind"] != "nstep":
                self._with_ranges(rng, c)
        return cases

    def _generate(self, tier, rng):
        cases = []
        # --- boundary-complete small enumeration (exact kind: compared with both instances, strict oracle)
        caps = [1, 2, 3] if tier == "quick" else [1, 2, 3, 4]
        maxlen = 4 if tier == "quick" else 5
        self.exhaustive = True
        for m in caps:
            for L in range(1, maxlen + 1):
                alphabet = [("add", n) for n in range(1, m + 1)] + [("upd",), ("smp",), ("clear",)]
                for seq in itertools.product(alphabet, repeat=L):
                    if seq[0][0] != "add" or seq[-1][0] in ("clear",):
                        continue
                    size, ok, ops, adds = 0, True, [], 0
                    for o in seq:
                        if o[0] == "add":
                            size = min(m, size + o[1]); ops.append(["add", o[1]])
                        elif o[0] == "clear":
                            if size == 0:
                                ok = False; break
                            size = 0; ops.append(["clear"])
                        elif size == 0:
                            ok = False; break
                        elif o[0] == "upd":
                            i = rng.randrange(size)
                            ops.append(["update", [i, rng.randrange(size)], [float(rng.choice([1, 2, 3, 7])), float(rng.choice([1, 4, 5]))], "f32"])
                        else:
                            b = rng.choice([1, 2, 4])
                            # u = 0 puts the query mass exactly on a stratum boundary
                            ops.append(["sample", [rng.choice([0.0, 0.0, 0.5, 0.25, 0.9375]) for _ in range(b)]])
                    if ok:
                        c = {"kind": "exact", "cap": m, "alpha": 1.0, "beta": 0.4, "ops": ops, "every": 1}
                        if m == 4 and L == 5:
                            # 6976 sequences: all of them run on the implementation and through the oracle,
                            # every 8th one is also compared with the model inside Coq (cost)
                            nbig = getattr(self, "_nbig", 0); self._nbig = nbig + 1
                            if nbig % 8:
                                c["no_k"] = True
                        cases.append(c)
        # --- seeded interleavings
        nfloat, nexact = (260, 90) if tier == "quick" else (1200, 400)
        for _ in range(nfloat):
            m = rng.choice([1, 2, 3, 4, 5, 6, 7, 8, 9, 9, 5, 3, 12, 17])
            nops = rng.choice([8, 16, 30]) if tier == "quick" else rng.choice([10, 30, 60])
            cases.append(self._float_case(rng, m, nops, every=4 if nops > 10 else 1))
        for _ in range(nexact):
            m = rng.choice([1, 2, 3, 4, 5, 6, 7, 8, 9])
            nops = rng.choice([6, 12, 24]) if tier == "quick" else rng.choice([10, 30, 60])
            cases.append(self._exact_case(rng, m, nops, every=3 if nops > 10 else 1))
        return cases

    # ------------------------------------------------------------------ implementation
    def run_impl(self, case):
        if case["kind"] == "nstep":
            return self.run_nstep(case)
        m = case["cap"]
        use_defaults = bool(case.get("defaults"))
        if use_defaults and case["alpha"] == 0.6:
            buf = PrioritizedReplayBuffer(max_size=m)              # alpha left to its default
        else:
            buf = PrioritizedReplayBuffer(max_size=m, alpha=case["alpha"])
        nxt = 1
        trace = []
        orig = torch.rand
        # a second buffer of the same size used in between (state must not leak between objects), one Sampler per buffer
        decoy = PrioritizedReplayBuffer(max_size=m, alpha=0.3) if case.get("decoy") else None
        main_sampler = Sampler(memory=buf)
        decoy_sampler = Sampler(memory=decoy) if decoy is not None else None
        try:
            for oi_, op in enumerate(case["ops"]):
                rec = {"raised": False, "sample": None, "tags": None, "exc": None, "args_modified": None}
                if decoy is not None:
                    decoy.add(make_transition([900 + oi_]))
                    decoy.update_priorities(torch.tensor([0]), torch.tensor([77.0 + oi_]))
                    decoy_sampler.sample(2, 0.7)
                    if oi_ % 3 == 2:
                        decoy.clear()
                        decoy.add(make_transition([950 + oi_]))
                try:
                    if op[0] == "add":
                        tags = list(range(nxt, nxt + op[1])); nxt += op[1]
                        rec["tags"] = tags
                        buf.add(make_transition(tags))
                    elif op[0] == "update":
                        dt = TORCH_DT[op[3]]
                        vals = [int(p) for p in op[2]] if op[3] == "i64" else op[2]
                        it, pt = torch.tensor(op[1], dtype=torch.int64), torch.tensor(vals, dtype=dt)
                        if len(op) > 4 and op[4] == "col":   # (B, 1) tensors, as sample() returns idxs and the agents pass them back
                            it, pt = it.unsqueeze(1), pt.unsqueeze(1)
                        elif len(op) > 4 and op[4] == "np":  # numpy arrays (as the repository's own test passes them)
                            it, pt = it.numpy(), pt.numpy()
                        elif len(op) > 4 and op[4] == "i32":
                            it = it.to(torch.int32)
                        elif len(op) > 4 and op[4] == "mixed":  # (k,) indices with a (k, 1) priority column
                            pt = pt.unsqueeze(1)
                        it0, pt0 = (it.copy(), pt.copy()) if isinstance(it, np.ndarray) else (it.clone(), pt.clone())
                        try:
                            buf.update_priorities(it, pt)
                        except AssertionError:
                            rec["raised"] = True
                        same = (lambda a, b: a.shape == b.shape and a.dtype == b.dtype and bool((a == b).all()))
                        rec["args_modified"] = not (same(it, it0) and same(pt, pt0))
                    elif op[0] == "sample":
                        src = ScriptedRand(op[1])
                        torch.rand = src
                        try:
                            if case.get("via_sampler"):      # the path the training loops use (sampler.py: sample_per); one Sampler reused
                                s = main_sampler.sample(len(op[1]), case["beta"])
                            elif use_defaults and case["beta"] == 0.4:
                                s = buf.sample(len(op[1]))             # beta left to its default
                            else:
                                s = buf.sample(len(op[1]), beta=case["beta"])
                        except AssertionError:
                            rec["raised"] = True
                            s = None
                        finally:
                            torch.rand = orig
                        if s is not None:
                            if src.pos != len(op[1]):
                                raise RuntimeError(f"sample({len(op[1])}) consumed {src.pos} uniform draws")
                            rec["sample"] = {"idx": [int(i) for i in s["idxs"].reshape(-1)],
                                             "w": [float(w) for w in s["weights"].reshape(-1)],
                                             "rows": row_tags(s)}
                    else:
                        buf.clear()
                except (AssertionError, ArithmeticError, RecursionError, LookupError, TypeError, ValueError) as e:
                    # the implementation itself failed on a legitimate operation: an observation, not a harness fault
                    rec["exc"] = f"{type(e).__name__}: {e}"[:300]
                rec["len"] = len(buf)
                rec["ptr"] = int(buf.tree_ptr)
                rec["maxp"] = float(buf.max_priority)
                rec["tcap"] = int(buf.sum_tree.capacity)
                rec["sum"] = [float(x) for x in buf.sum_tree.tree]
                rec["min"] = [None if x == INF else float(x) for x in buf.min_tree.tree]      # None = float("inf")
                rec["ranges"] = []
                for a, b in case.get("ranges", {}).get(str(len(trace)), []):
                    try:
                        mv = float(buf.min_tree.min(a, b))
                        rec["ranges"].append([a, b, float(buf.sum_tree.sum(a, b)), None if mv == INF else mv])
                    except (ArithmeticError, RecursionError, LookupError, TypeError, ValueError, AssertionError) as e:
                        rec["exc"] = f"range query ({a},{b}): {type(e).__name__}: {e}"[:300]
                try:
                    rec["sum_root"] = float(buf.sum_tree.sum())
                    mr = float(buf.min_tree.min())
                except (ArithmeticError, RecursionError, LookupError, TypeError, ValueError) as e:
                    rec["exc"] = f"sum()/min(): {type(e).__name__}: {e}"[:300]
                    rec["sum_root"], mr = float("nan"), float("nan")
                rec["min_root"] = None if mr == INF else mr
                trace.append(rec)
                if rec["exc"]:
                    break                 # the state after a failed operation is not meaningful
        finally:
            torch.rand = orig
        return {"trace": trace}

    # ------------------------------------------------------------------ model term
    @staticmethod
    def _floor(p):
        return FLOOR if FLOOR > p else p

    def coq_term(self, case, obs):
        if case["kind"] == "nstep" or case.get("no_k"):
            return None                       # paired n-step buffer: oracle + theorem paired_rows_aligned (no K); subsampled enumeration
        exact = case["kind"] == "exact"
        terms = [self._term(case, obs, False)]
        if exact:
            terms.append(self._term(case, obs, True))
        return "(" + " && ".join(terms) + ")%bool"

    def _term(self, case, obs, as_q):
        num, onum = (cq_q, cq_oq) if as_q else (cq_f, cq_of)
        pre = "Q" if as_q else "F"
        alpha, beta = case["alpha"], case["beta"]
        ops, obl = [], []
        tabA = {1.0: 1.0 ** alpha}
        tabB = {}
        every = case.get("every", 1)
        nmut = 0
        last = len(case["ops"]) - 1
        for oi, (op, rec) in enumerate(zip(case["ops"], obs["trace"])):
            if op[0] == "add":
                ops.append(f"{pre}Add {op[1]}")
            elif op[0] == "update":
                ps = []
                for i, p in zip(op[1], eff_prios(op)):
                    fp = self._floor(p)
                    tabA[fp] = fp ** alpha
                    ps.append(f"({i if i >= 0 else 4000}, {num(p)})")   # negative index: the same assertion fails
                ops.append(f"{pre}Upd [{'; '.join(ps)}]")
            elif op[0] == "sample":
                ops.append(f"{pre}Smp [{'; '.join(num(u) for u in op[1])}]")
                # arguments of x ** -beta, recomputed from the observed trees exactly as the code does
                c, total, n = rec["tcap"], rec["sum"][1], rec["len"]
                if total != 0 and not as_q:
                    xs = [(rec["min"][1] / total) * n] if rec["min"][1] is not None else []
                    for i in range(c):
                        xs.append((rec["sum"][c + i] / total) * n)
                    for x in xs:
                        if not (x > 0):
                            continue              # x ** -beta is only defined (and only used by the model) for positive masses
                        try:
                            tabB[x] = x ** -beta
                        except ZeroDivisionError:
                            pass
            else:
                ops.append(f"{pre}Clr")
            if op[0] != "sample":
                nmut += 1
            with_trees = (op[0] != "sample" and (nmut % every == 0) or oi == last) and rec["sum"] is not None
            trees = "None"
            if with_trees:
                trees = ("(Some ([" + "; ".join(num(x) for x in rec["sum"]) + "], ["
                         + "; ".join(onum(x) for x in rec["min"]) + "]))")
            if rec["sample"] is not None:
                smp = ("(Some ([" + "; ".join(str(i) for i in rec["sample"]["idx"]) + "], ["
                       + "; ".join(num(w) for w in (rec["sample"]["w"] if not as_q else [1.0] * len(rec["sample"]["idx"]))) + "]))")
            else:
                smp = "None"
            # the model's operate takes a natural end; a negative end e means capacity + e (operate: `if end <= 0: end += capacity`)
            rngs = "[" + "; ".join(f"({a}, {b if b >= 0 else rec['tcap'] + b}, {num(sv)}, {onum(mv)})" for a, b, sv, mv in rec.get("ranges", [])) + "]"
            obl.append(f"({rec['len']}, {rec['ptr']}, {num(rec['maxp'])}, {trees}, {vlib.coq_bool(rec['raised'])}, {smp}, {rngs})")
        if as_q:
            return f"check_exact {vlib.coq_bool(self.strict)} {case['cap']} [{'; '.join(ops)}] [{'; '.join(obl)}]"
        ta = "[" + "; ".join(f"({cq_f(k)}, {cq_f(v)})" for k, v in tabA.items()) + "]"
        tb = "[" + "; ".join(f"({cq_f(k)}, {cq_f(v)})" for k, v in tabB.items()) + "]"
        def rat(x):
            f = Fraction(x).limit_denominator(20)
            return f"(Some ({f.numerator}%Z, {f.denominator}%positive))" if abs(float(f) - x) < 1e-12 and f >= 0 else "None"
        return f"check_float {vlib.coq_bool(self.strict)} {case['cap']} {rat(alpha)} {rat(beta)} {ta} {tb} [{'; '.join(ops)}] [{'; '.join(obl)}]"

    # ------------------------------------------------------------------ oracle
    def oracle(self, case, obs):
        if case["kind"] == "nstep":
            return self.oracle_nstep(case, obs)
        m, alpha, beta = case["cap"], case["alpha"], case["beta"]
        out = []
        slots = {}                 # storage index -> tag (ReplayBuffer semantics recomputed here)
        cursor = 0
        n_added = 0                # additions since the last clear
        maxp = 1.0                 # highest priority seen so far
        leaf_want = {}             # index -> priority**alpha the leaf must hold
        cleared = False

        def V(clause, detail):
            sig = clause + (":after-clear" if cleared else "")
            out.append(Violation(clause, sig, f"op {oi} {op[:2]}: {detail}"))

        for oi, (op, rec) in enumerate(zip(case["ops"], obs["trace"])):
            c = rec["tcap"]
            if rec.get("exc"):
                V("raised", f"the operation failed with {rec['exc']}")
                break
            if op[0] == "update" and rec.get("args_modified"):
                V("arguments-modified", f"update_priorities changed the index / priority container it was handed ({op[1]}, {op[2]}, {op[3:]})")
                break
            if op[0] == "update":
                held = min(n_added, m)            # transitions stored before this op
                used = op[1][:min(len(op[1]), len(op[2]))]      # zip() stops at the shorter argument
                if any(held <= i < m for i in used) and not rec["raised"] and not any(not (0 <= i < m) for i in used):
                    # a slot that holds no transition was given a priority: from now on sample can return it
                    out.append(Violation("update-unstored-accepted", "update-unstored-accepted",
                                         f"op {oi}: update_priorities({op[1]}, ...) was accepted although only {held} of {m} slots hold a "
                                         f"transition; leaves with positive priority afterwards: "
                                         f"{[i for i, x in enumerate(rec['sum'][c:]) if x > 0]}"))
                    break
                if rec["raised"] != any(not (0 <= i < held) for i in used):
                    V("update-raised", f"update_priorities({op[1]}, ...) raised={rec['raised']} with len {held}, max_size {m}")
                    break
            if rec["sum"] is None:
                continue              # record already checked and slimmed
            st, mt = rec["sum"], [INF if x is None else x for x in rec["min"]]
            min_root = INF if rec["min_root"] is None else rec["min_root"]
            if op[0] == "add":
                for t in rec["tags"]:
                    slots[cursor] = t
                    leaf_want[n_added % m] = maxp ** alpha
                    cursor = (cursor + 1) % m
                    n_added += 1
            elif op[0] == "update":
                for i, p in zip(op[1], eff_prios(op)):
                    if not (0 <= i < min(n_added, m)):
                        break
                    fp = max(p, FLOOR)
                    leaf_want[i] = fp ** alpha
                    maxp = max(maxp, fp)
            elif op[0] == "clear":
                slots, cursor, n_added, maxp, leaf_want = {}, 0, 0, 1.0, {}
            n = min(n_added, m)
            # ---- running total / minimum agree with a direct computation; every internal node consistent
            if rec["len"] != n:
                V("len", f"len(buffer)={rec['len']}, expected {n}")
            if len(st) != 2 * c or len(mt) != 2 * c or c < m or c & (c - 1):
                V("tree-shape", f"capacity {c} for max_size {m}, tree lengths {len(st)}/{len(mt)}")
                break
            leaves, mleaves = st[c:], mt[c:]
            tot = math.fsum(leaves)
            if not math.isclose(rec["sum_root"], tot, rel_tol=1e-9, abs_tol=0.0):
                V("sum-root", f"sum_tree.sum()={rec['sum_root']!r} but the leaves add up to {tot!r} (leaves {leaves})")
            if min_root != min(mleaves):
                V("min-root", f"min_tree.min()={min_root!r} but the smallest leaf is {min(mleaves)!r} (leaves {mleaves})")
            for j in range(1, c):
                if not math.isclose(st[j], st[2 * j] + st[2 * j + 1], rel_tol=1e-12, abs_tol=0.0):
                    V("sum-node", f"sum_tree.tree[{j}]={st[j]!r} != tree[{2 * j}]+tree[{2 * j + 1}]={st[2 * j] + st[2 * j + 1]!r}")
                    break
                if mt[j] != min(mt[2 * j], mt[2 * j + 1]):
                    V("min-node", f"min_tree.tree[{j}]={mt[j]!r} != min of its children {mt[2 * j]!r},{mt[2 * j + 1]!r}")
                    break
            for a, b, sv, mv in rec.get("ranges", []):
                hi = b if b > 0 else c + b
                want_s, want_m = math.fsum(leaves[a:hi]), min(mleaves[a:hi])
                if not math.isclose(sv, want_s, rel_tol=1e-9, abs_tol=0.0):
                    V("range-sum", f"sum_tree.sum({a},{b})={sv!r} but leaves[{a}:{hi}] add up to {want_s!r} (leaves {leaves})")
                if (INF if mv is None else mv) != want_m:
                    V("range-min", f"min_tree.min({a},{b})={mv!r} but the smallest of leaves[{a}:{hi}] is {want_m!r} (leaves {mleaves})")
            # ---- stored <-> positive priority; both trees hold the same priorities
            bad = [i for i in range(c) if (leaves[i] > 0) != (i < rec["len"])]
            if bad:
                V("leaf-support", f"leaves with positive priority {[i for i in range(c) if leaves[i] > 0]} but len(buffer)={rec['len']}")
            bad = [i for i in range(c) if mleaves[i] != (leaves[i] if i < rec["len"] else INF)]
            if bad and not any(v.clause == "leaf-support" for v in out):
                V("min-leaf", f"min-tree leaves {mleaves} vs sum-tree leaves {leaves} (len {rec['len']})")
            # ---- new transitions get the highest priority seen so far; updated leaves hold priority**alpha
            if not rec["raised"]:
                for i, w in leaf_want.items():
                    if i < c and not math.isclose(leaves[i], w, rel_tol=1e-12):
                        V("new-gets-max" if op[0] == "add" else "leaf-value",
                          f"leaf {i} holds {leaves[i]!r}, expected {w!r} (highest priority so far {maxp!r}, alpha {alpha})")
                        break
                if rec["maxp"] != maxp:
                    V("max-priority", f"max_priority={rec['maxp']!r}, expected {maxp!r}")
            if rec["ptr"] != n_added % m:
                V("tree-ptr", f"tree_ptr={rec['ptr']}, expected {n_added % m}")
            # ---- sampling
            if op[0] == "sample":
                if rec["sample"] is None:
                    V("sample-raised", "sample raised an AssertionError on a non-empty buffer")
                else:
                    self._oracle_sample(V, op, rec, slots, leaves, n, beta, case["kind"] == "exact")
            if out:
                break
        if not out:
            self._slim(case, obs)
        return out

    @staticmethod
    def _slim(case, obs):
        """after the oracle has checked every op, keep the tree arrays only where the Coq term embeds them
        (memory: thorough runs hold > 10^5 op records)"""
        every, nmut, last = case.get("every", 1), 0, len(case["ops"]) - 1
        for oi, (op, rec) in enumerate(zip(case["ops"], obs["trace"])):
            if op[0] != "sample":
                nmut += 1
            keep = op[0] == "sample" or nmut % every == 0 or oi == last or oi == len(obs["trace"]) - 1
            if not keep:
                rec["sum"] = rec["min"] = None

    def _oracle_sample(self, V, op, rec, slots, leaves, n, beta, exact_kind):
        idx, w, rows = rec["sample"]["idx"], rec["sample"]["w"], rec["sample"]["rows"]
        us = op[1]
        B = len(us)
        if len(idx) != B or len(w) != B:
            V("batch-size", f"asked for {B} samples, got {len(idx)} indices / {len(w)} weights"); return
        if any(not (0 <= i < n) for i in idx):
            V("index-stored", f"sampled indices {idx} but only {n} transitions are stored (draws {us})"); return
        if any(rows[k] != slots.get(i) for k, i in enumerate(idx)):
            V("row-stored", f"rows {rows} returned for indices {idx}; stored tags {slots}"); return
        # proportional: the query mass of stratum k must fall into the prefix-sum interval of the returned index
        fl = [Fraction(x) for x in leaves]
        tot_x = sum(fl)
        total = rec["sum_root"]
        # the strict (boundary-sensitive) test is used only where binary64 arithmetic is exact by construction
        # (kind=exact: small integer priorities, dyadic draws, batch a power of two) and verified to be so here
        exact = exact_kind and Fraction(total) == tot_x
        seg = total / B
        exact = exact and Fraction(seg) * B == tot_x
        for k, (u, i) in enumerate(zip(us, idx)):
            a, b = seg * k, seg * (k + 1)
            ub = u * (b - a) + a
            ub_x = Fraction(u) * (tot_x / B) + (tot_x / B) * k
            lo = sum(fl[:i]); hi = lo + fl[i]
            if exact and Fraction(ub) == ub_x:
                ok = lo <= ub_x < hi
            else:
                tol = Fraction(abs(total)) * Fraction(1, 10 ** 9)
                ok = lo - tol <= ub_x <= hi + tol
            if not ok:
                V("proportional", f"stratum {k} of {B}, draw {u!r}: query mass {ub!r} is outside the interval "
                                  f"[{float(lo)!r}, {float(hi)!r}) of returned index {i} (leaves {leaves[:n]})")
                return
        # weights = (N P(i))^-beta / max_j (N P(j))^-beta, in (0, 1]
        tot = math.fsum(leaves)
        if not (tot > 0) or any(not (leaves[j] > 0) for j in range(n)):
            V("leaf-support", f"non-positive priority among the stored leaves {leaves[:n]} (total {tot!r})")
            return
        raw = [(n * leaves[j] / tot) ** -beta for j in range(n)]
        mx = max(raw)
        for k, i in enumerate(idx):
            want = raw[i] / mx
            if not (0.0 < w[k] <= 1.0) or not math.isclose(w[k], want, rel_tol=1e-5, abs_tol=1e-30):
                V("weights", f"weight of index {i} is {w[k]!r}, expected {want!r} (leaves {leaves[:n]}, beta {beta})")
                return

    # ------------------------------------------------------------------ n-step buffer paired with the prioritised buffer
    def _nstep_cases(self, tier, rng):
        """train_off_policy's pairing: n_step_memory.add(t) returns the 1-step transition once its window is full, that one goes
        into the prioritised memory; batches are drawn with Sampler(memory).sample(B, beta) and the n-step rows with
        Sampler(n_step_memory).sample(idxs) (sample_n_step -> sample_from_indices)."""
        out = []
        for _ in range(12 if tier == "quick" else 120):
            m = rng.choice([2, 3, 4, 5, 8, 9])
            E = rng.choice([1, 1, 2, 3])
            E = min(E, m)
            out.append({"kind": "nstep", "cap": m, "alpha": rng.choice([0.6, 1.0]), "beta": 0.4, "n": rng.choice([1, 2, 3]), "envs": E,
                        "gamma": 0.5, "steps": rng.randint(3, 3 * m + 4),
                        "sample_at": sorted(rng.sample(range(2, 3 * m + 4), 3)),
                        "draws": [[self._draw(rng) for _ in range(rng.choice([1, 2, 4, 5]))] for _ in range(3)],
                        "prios": [self._prio(rng, "f32") for _ in range(8)]})
        return out

    def run_nstep(self, case):
        m, E = case["cap"], case["envs"]
        memory = PrioritizedReplayBuffer(max_size=m, alpha=case["alpha"])
        nmem = MultiStepReplayBuffer(max_size=m, n_step=case["n"], gamma=case["gamma"])
        sampler, nsampler = Sampler(memory=memory), Sampler(memory=nmem)
        trace, nxt, k = [], 1, 0
        orig = torch.rand
        try:
            for step in range(case["steps"]):
                tags = list(range(nxt, nxt + E)); nxt += E
                t = make_transition(tags)
                t["done"] = torch.zeros_like(t["done"])         # one long episode: windows are never cut
                one = nmem.add(t)
                if one is not None:
                    memory.add(one)
                rec = {"step": step, "len": len(memory), "nlen": len(nmem), "sample": None}
                if step in case["sample_at"] and len(memory) > 0:
                    us = case["draws"][k % len(case["draws"])]; k += 1
                    torch.rand = ScriptedRand(us)
                    try:
                        b = sampler.sample(len(us), case["beta"])
                    finally:
                        torch.rand = orig
                    nb = nsampler.sample(b["idxs"])
                    idx = [int(i) for i in b["idxs"].reshape(-1)]
                    rec["sample"] = {"idx": idx, "rows": row_tags(b), "nshape": [int(x) for x in nb.batch_size],
                                     "nobs": [int(x) for x in np.asarray(nb["obs"], dtype=np.float64).reshape(len(idx), -1)[:, 0]],
                                     "nact": [int(x) for x in np.asarray(nb["action"], dtype=np.float64).reshape(-1)],
                                     "nreward": [float(x) for x in np.asarray(nb["reward"], dtype=np.float64).reshape(-1)],
                                     "idxs_shape": [int(x) for x in b["idxs"].shape]}
                    # priorities go back with the (B, 1) index column, as the training loop does
                    pr = torch.tensor([case["prios"][(i + step) % len(case["prios"])] for i in range(len(idx))], dtype=torch.float32)
                    memory.update_priorities(b["idxs"], pr)
                trace.append(rec)
        finally:
            torch.rand = orig
        return {"trace": trace}

    def oracle_nstep(self, case, obs):
        m, E, n, g = case["cap"], case["envs"], case["n"], case["gamma"]
        out = []
        for rec in obs["trace"]:
            stored_steps = max(0, rec["step"] + 1 - (n - 1))             # windows completed so far
            want_len = min(m, stored_steps * E)
            if rec["len"] != want_len or rec["nlen"] != want_len:
                out.append(Violation("nstep-len", "nstep-len", f"step {rec['step']}: len(memory)={rec['len']}, len(n_step_memory)={rec['nlen']}, expected {want_len}"))
                break
            smp = rec["sample"]
            if smp is None:
                continue
            # slot -> tag of the window's first transition (both buffers are written in lockstep)
            slots, cur = {}, 0
            for w in range(stored_steps):
                for e in range(E):
                    slots[cur] = 1 + w * E + e
                    cur = (cur + 1) % m
            B = len(smp["idx"])
            if any(not (0 <= i < want_len) for i in smp["idx"]):
                out.append(Violation("index-stored", "nstep:index-stored", f"step {rec['step']}: sampled {smp['idx']} with {want_len} stored")); break
            if smp["nshape"] != [B]:
                out.append(Violation("nstep-shape", "nstep-shape", f"step {rec['step']}: n-step batch has batch_size {smp['nshape']} for {B} indices of shape {smp['idxs_shape']}")); break
            want = [slots[i] for i in smp["idx"]]
            if smp["rows"] != want or smp["nobs"] != want or smp["nact"] != want:
                out.append(Violation("nstep-aligned", "nstep-aligned", f"step {rec['step']}: indices {smp['idx']}: 1-step rows {smp['rows']}, n-step rows obs {smp['nobs']} action {smp['nact']}, stored windows start at {want}")); break
            wr = [sum((g ** j) * (t + j * E) for j in range(n)) for t in want]      # reward of transition tag t is t
            if any(abs(a - b) > 1e-3 * max(1.0, abs(b)) for a, b in zip(smp["nreward"], wr)):
                out.append(Violation("nstep-reward", "nstep-reward", f"step {rec['step']}: n-step rewards {smp['nreward']} expected {wr}")); break
        return out

    # ------------------------------------------------------------------ bookkeeping
    def _flags(self, case):
        if case["kind"] == "nstep":
            return case["steps"] * case["envs"] > case["cap"], True
        m = case["cap"]
        ptr, size, adds, wrapped, sampled = 0, 0, 0, False, False
        for op in case["ops"]:
            if op[0] == "add":
                if ptr + op[1] > m or size == m:
                    wrapped = True
                ptr = (ptr + op[1]) % m; size = min(m, size + op[1]); adds += 1
            elif op[0] == "sample" and adds >= 2:
                sampled = True
            elif op[0] == "clear":
                ptr = size = 0
        return wrapped, sampled

    def nontrivial(self, case, obs):
        w, s = self._flags(case)
        return w or s

    def classify(self, case, obs):
        if case["kind"] == "nstep":
            labs = ["kind=nstep", f"n_step={case['n']}", f"envs={case['envs']}", "sample-via=Sampler.sample_per+sample_n_step"]
            labs += ["op=nstep-sample" for r in obs["trace"] if r["sample"]]
            if case["steps"] * case["envs"] > case["cap"]:
                labs.append("wrap-around")
            return labs
        m = case["cap"]
        if case.get("decoy"):
            pass
        labs = [f"kind={case['kind']}", "defaults=" + ("alpha/beta-not-passed" if case.get("defaults") else "explicit"), "decoy-buffer=" + ("yes" if case.get("decoy") else "no"), "sample-via=" + ("Sampler.sample_per" if case.get("via_sampler") else "buffer.sample"), f"max_size={m if m <= 9 else '>9'}", f"alpha={case['alpha']}", f"beta={case['beta']}",
                "capacity=" + ("pow2" if m & (m - 1) == 0 else "non-pow2")]
        w, s = self._flags(case)
        if w:
            labs.append("wrap-around")
        if s:
            labs.append("sample-after-2-adds")
        for op, rec in zip(case["ops"], obs["trace"]):
            labs.append(f"op={op[0]}")
            for a, b, _, _ in rec.get("ranges", []):
                labs.append("range-query:" + ("negative-end" if b < 0 else "full" if (a == 0 and b in (0, rec["tcap"])) else "single-leaf" if b == a + 1 else "partial"))
            if op[0] == "update":
                if len(op) > 4:
                    labs.append(f"update-args={op[4]}")
                labs.append(f"priority-dtype={op[3]}")
                if any(p >= 1e16 for p in op[2]):
                    labs.append("branch:priority>=1e16")
                if any(i != m and i >= rec["len"] for i in op[1]):
                    labs.append("branch:update-unstored-index")
                if any(i < 0 for i in op[1]):
                    labs.append("branch:update-negative-index")
                if len(op[1]) != len(op[2]):
                    labs.append("branch:update-unequal-lengths")
                if any(p < FLOOR for p in eff_prios(op)):
                    labs.append("branch:priority-floored")
                if len(set(op[1])) < len(op[1]):
                    labs.append("branch:repeated-index")
                if rec["raised"]:
                    labs.append("branch:update-assert")
                if any(p > 1e3 for p in op[2]):
                    labs.append("branch:huge-priority")
            if op[0] == "sample":
                if 0.0 in op[1]:
                    labs.append("draw=0")
                if U_MAX in op[1]:
                    labs.append("draw=1-2^-24")
                if rec["sample"] and any(i > 0 for i in rec["sample"]["idx"]):
                    labs.append("branch:retrieve-right")
                if rec["sample"] and any(i == 0 for i in rec["sample"]["idx"]):
                    labs.append("branch:retrieve-left-only")
        return labs

    def neighbours(self, case, rng):
        if case["kind"] == "nstep":
            return
        for i in range(len(case["ops"])):
            ops = case["ops"][:i] + case["ops"][i + 1:]
            size, keep = 0, []
            for o in ops:
                if o[0] == "add":
                    size = min(case["cap"], size + o[1]); keep.append(o)
                elif o[0] == "clear":
                    size = 0; keep.append(o)
                elif size == 0:
                    continue
                elif o[0] == "update":
                    if all(j < size for j in o[1]):
                        keep.append(o)
                else:
                    keep.append(o)
            c = dict(case); c["ops"] = keep
            if keep:
                yield c


if __name__ == "__main__":
    sys.exit(vlib.run_check(C11()))
