"""Scripted PettingZoo ParallelEnv family used by the C12 check (trusted Python mirror of the Gallina
family in coq/theories/C12/Model.v).  Top-level module so that worker processes can import it.

Every observable is an integer tag:
  features of agent a   = [eid, base + ord, 16*t + a, echo]       (echo = code of the action a received)
  reward of agent a     = 100*t + 10*a + echo
  info of agent a       = {"tag": 1000*ord + 16*t + a}  (+ {"first": 1} in the info returned by reset, + {"opt": o} when
                        reset was called with options={"opt": o}; rich_info adds values of every kind _add_info handles)
Episode number `ord` (1, 2, ...) lasts lens[ord % len(lens)] steps; at its last step every live agent is
terminated (mode "term"), truncated (mode "trunc") or one of the two by parity of a + ord (mode "mixed").
Agent a with leave[a] = k is terminated at step k of every episode and is absent from then on.
Agent a with join[a] = k is absent after reset and appears (in the dicts of that step and in env.agents) at step k.
reset(seed=s) sets base = s (observable in feature 1), reset() keeps it.
With unaligned=True the truncation dict lists the agents in the reverse order of the other dicts (dicts are
maps: a consumer must pair them by key). With reversed_out=True every dict returned by reset/step lists the agents in
reverse order (consistently); everything a consumer obtains by key is unchanged, so the Gallina family needs no twin of
this flag (used for vector-environment runs only, whose observables are all keyed by agent).
"""
from __future__ import annotations

import numpy as np
from gymnasium import spaces
from pettingzoo import ParallelEnv

OBS_KINDS = ("vector", "image", "discrete", "dict", "tuple")
ACT_KINDS = ("discrete", "box1", "box2", "md2", "dlist")   # dlist: Discrete, handed over as a Python list

# An observation space is described by {"str": "plain"|"dict"|"tuple", "members": [{"leaf": "box"|"discrete"|
# "multidiscrete", "shape": [...], "dtype": numpy dtype name}]}; the five names above are presets.
PRESETS = {
    "vector": {"str": "plain", "members": [{"leaf": "box", "shape": [4], "dtype": "float32"}]},
    "image": {"str": "plain", "members": [{"leaf": "box", "shape": [2, 2, 2], "dtype": "uint8"}]},
    "discrete": {"str": "plain", "members": [{"leaf": "discrete", "shape": [], "dtype": "int64"}]},
    "dict": {"str": "dict", "members": [{"leaf": "box", "shape": [2], "dtype": "float32"},
                                        {"leaf": "discrete", "shape": [], "dtype": "int64"}]},
    "tuple": {"str": "tuple", "members": [{"leaf": "box", "shape": [2], "dtype": "float32"},
                                          {"leaf": "box", "shape": [1, 2], "dtype": "int64"},
                                          {"leaf": "discrete", "shape": [], "dtype": "int64"}]},
}
DICT_KEYS = ("p", "q", "r")     # sorted, so gymnasium keeps this order


def describe(kind):
    return PRESETS[kind] if isinstance(kind, str) else kind


def kind_name(kind):
    if isinstance(kind, str):
        return kind
    return kind["str"] + "(" + ",".join(f"{m['leaf']}{tuple(m['shape'])}:{m['dtype']}" for m in kind["members"]) + ")"


def is_unsigned(m):
    return np.dtype(m["dtype"]).kind == "u"


def member_size(m):
    return int(np.prod(m["shape"])) if m["shape"] else 1


def enc_member(u, mi, size, f):
    if size == 1 and not u:
        return [((f[0] * 40 + f[1]) * 256 + f[2]) * 8 + f[3]]
    return [f[(j + mi) % 4] + j // 4 for j in range(size)]


def encode(kind, f):
    """features [f0,f1,f2,f3] -> list of flat integer members (twin of Model.encode)"""
    d = describe(kind)
    return [enc_member(is_unsigned(m), mi, member_size(m), f) for mi, m in enumerate(d["members"])]


def leaf_space(m):
    shape, dt = tuple(m["shape"]), np.dtype(m["dtype"])
    if m["leaf"] == "discrete":
        return spaces.Discrete(1 << 24)
    if m["leaf"] == "multidiscrete":
        return spaces.MultiDiscrete(np.full(shape, 1 << 24, dtype=np.int64))
    if dt.kind == "u":
        return spaces.Box(0, 255, shape, dt)
    if dt.kind == "f":
        return spaces.Box(-1.0, float(1 << 24), shape, dt)
    return spaces.Box(-1, np.iinfo(dt).max, shape, dt)


def obs_space(kind):
    d = describe(kind)
    ms = [leaf_space(m) for m in d["members"]]
    if d["str"] == "plain":
        return ms[0]
    if d["str"] == "dict":
        return spaces.Dict({DICT_KEYS[i]: sp for i, sp in enumerate(ms)})
    return spaces.Tuple(tuple(ms))


def relayout(arr, layout):
    """the same array (same shape, same elements) with another memory layout: "F" = Fortran-ordered,
    "S" = a strided, non-contiguous view into a larger buffer"""
    if layout == "F" and arr.ndim >= 2:
        return np.asfortranarray(arr)
    if layout == "S" and arr.ndim >= 1:
        big = np.zeros(arr.shape + (3,), dtype=arr.dtype)
        big[..., 1] = arr
        return big[..., 1]
    return arr


def pack_leaf(m, vals, layout="C"):
    if m["leaf"] == "discrete":
        return int(vals[0])
    dt = np.int64 if m["leaf"] == "multidiscrete" else np.dtype(m["dtype"])
    return relayout(np.array(vals, dtype=dt).reshape(tuple(m["shape"])), layout)


def pack(kind, members, layout="C"):
    """flat integer members -> a value of obs_space(kind)"""
    d = describe(kind)
    vs = [pack_leaf(m, vals, layout) for m, vals in zip(d["members"], members)]
    if d["str"] == "plain":
        return vs[0]
    if d["str"] == "dict":
        return {DICT_KEYS[i]: v for i, v in enumerate(vs)}
    return tuple(vs)


def act_space(akind):
    if akind in ("discrete", "dlist"):
        return spaces.Discrete(5)
    if akind == "md2":
        return spaces.MultiDiscrete([2, 3])
    if akind == "box1":
        return spaces.Box(0, 4, (1,), np.float32)
    if akind == "box2":
        return spaces.Box(0, 2, (2,), np.float32)
    raise ValueError(akind)


def act_value(akind, code):
    """action code (0..4) -> an element of act_space(akind)"""
    if akind in ("discrete", "dlist"):
        return int(code)
    if akind == "md2":
        return np.array([code % 2, code // 2], dtype=np.int64)
    if akind == "box1":
        return np.array([code], dtype=np.float32)
    return np.array([code % 2, code // 2], dtype=np.float32)


def act_code(akind, a):
    """what the environment echoes: inverse of act_value (on whatever object the worker hands over)"""
    if akind in ("discrete", "dlist"):
        return int(a)
    if akind == "box1":
        return int(round(float(np.asarray(a).reshape(-1)[0])))
    v = np.asarray(a).reshape(-1)
    return int(round(float(v[0]))) + 2 * int(round(float(v[1])))


class ScriptedEnv(ParallelEnv):
    metadata = {"name": "c12_scripted", "render_modes": []}
    render_mode = None

    def __init__(self, eid=0, nagents=2, lens=(3,), mode="term", leave=None, kind="vector", akind="discrete",
                 unaligned=False, reversed_out=False, rich_info=False, join=None, layout="C", mixed_types=False):
        self.eid = int(eid)
        self.nagents = int(nagents)
        self.lens = [int(x) for x in lens]
        self.mode = mode
        self.leave = {int(k): int(v) for k, v in (leave or {}).items()}
        self.kind = kind
        self.akind = akind
        self.unaligned = bool(unaligned)
        self.reversed_out = bool(reversed_out)   # every returned dict lists the agents in reverse order
        self.join = {int(k): int(v) for k, v in (join or {}).items()}   # agent -> step at which it joins the episode
        self.layout = layout                     # memory layout of the observation arrays handed out ("C", "F", "S")
        self.mixed_types = bool(mixed_types)     # Python / numpy types of rewards, flags and info tags vary over steps and agents
        self.rich_info = bool(rich_info)         # infos also carry float / bool / None / array / str / nested values
        self.marker = 0                          # plain attribute for get_attr / set_attr
        self.possible_agents = [f"agent_{i}" for i in range(self.nagents)]
        self.agents = []
        self.base = 0
        self.ord = 0
        self.t = 0
        self.n_resets = 0     # bookkeeping for the check only (read through vec_env.call)

    def observation_space(self, agent):
        return obs_space(self.kind)

    def action_space(self, agent):
        return act_space(self.akind)

    # ------------------------------------------------------------------
    def _idx(self, agent):
        return int(agent.split("_")[1])

    def _obs(self, a, echo):
        return pack(self.kind, encode(self.kind, [self.eid, self.base + self.ord, 16 * self.t + a, echo]), self.layout)

    def _info(self, a, first, options=None):
        d = {"tag": 1000 * self.ord + 16 * self.t + a}
        if self.mixed_types and (self.t + a) % 2:
            d["tag"] = np.int64(d["tag"])
        if first:
            d["first"] = 1
            if options is not None and "opt" in options:
                d["opt"] = int(options["opt"])          # reset(options=...) is echoed
        if self.rich_info:
            d["f"] = self.t + 0.5 + a
            d["b"] = bool((self.t + a) % 2)
            d["np"] = np.float32(self.ord + 0.25)
            d["none"] = None
            d["arr"] = np.array([self.ord, self.t, a], dtype=np.int32)
            d["s"] = f"e{self.eid}-t{self.t}"
            d["nest"] = {"k": 7 * self.ord + a, "deep": {"z": self.t}}
            if (self.t + self.eid) % 2 == 0:
                d["sometimes"] = self.eid * 100 + self.t    # present in some environments / steps only
        return d

    def render(self):
        return ("frame", self.eid, self.ord, self.t)

    def echo(self, x, k=0):
        return (self.eid, x, k)

    def reset(self, seed=None, options=None):
        if seed is not None:
            self.base = int(seed)
        self.ord += 1
        self.n_resets += 1
        self.t = 0
        self.agents = [ag for ag in self.possible_agents if self._idx(ag) not in self.join]
        obs = {ag: self._obs(self._idx(ag), 0) for ag in self.agents}
        info = {ag: self._info(self._idx(ag), True, options) for ag in self.agents}
        if self.reversed_out:
            obs, info = (dict(reversed(list(d.items()))) for d in (obs, info))
        return obs, info

    def step(self, actions):
        self.t += 1
        cur_len = self.lens[self.ord % len(self.lens)]
        end = cur_len <= self.t
        obs, rew, term, trunc, info = {}, {}, {}, {}, {}
        # agents that join at this step get an observation at once and are listed from now on
        self.agents = self.agents + [ag for ag in self.possible_agents
                                     if self.join.get(self._idx(ag)) == self.t and ag not in self.agents]
        for ag in self.agents:
            a = self._idx(ag)
            echo = act_code(self.akind, actions[ag])
            if self.mode == "term":
                et, eu = end, False
            elif self.mode == "trunc":
                et, eu = False, end
            else:
                par = (a + self.ord) % 2 == 0
                et, eu = end and par, end and not par
            obs[ag] = self._obs(a, echo)
            rew[ag] = 100 * self.t + 10 * a + echo
            term[ag] = bool(et or self.leave.get(a) == self.t)
            trunc[ag] = bool(eu)
            if self.mixed_types:        # same values, other types
                rew[ag] = [int, float, np.float32, np.int64][(self.t + a) % 4](rew[ag])
                term[ag] = [bool, np.bool_][(self.t + a) % 2](term[ag])
                trunc[ag] = [np.bool_, bool][(self.t + a) % 2](trunc[ag])
            info[ag] = self._info(a, False)
        self.agents = [ag for ag in self.agents if not (term[ag] or trunc[ag])]
        if self.unaligned:
            trunc = dict(reversed(list(trunc.items())))
        if self.reversed_out:
            obs, rew, term, trunc, info = (dict(reversed(list(d.items()))) for d in (obs, rew, term, trunc, info))
        return obs, rew, term, trunc, info

    def get_counters(self):
        return (self.ord, self.t, self.n_resets)

    def close(self):
        pass


def make_env(params):
    """params: dict of constructor arguments (JSON-serialisable)"""
    def fn():
        return ScriptedEnv(**params)
    return fn
