"""C03 — architecture mutations keep every network valid, bounded and rebuildable."""
from __future__ import annotations

import sys

import vlib

from c03_blocks import BLOCKS, coq_case, run_case, oracle_case, classify_case, nontrivial_case, key_case
import c03_blocks
import c03_gen
import c03_multi
from c03_gen import generate_cases

c03_blocks.register(c03_multi.Multi())
c03_blocks.register(c03_multi.NetMulti())
c03_blocks.register(c03_multi.CNN3d())
c03_gen.GENERATORS.append(c03_multi.gen_multi)
c03_gen.GENERATORS.append(c03_multi.gen_cnn3d)
c03_blocks.register(c03_multi.NetAny())
c03_gen.GENERATORS.append(c03_multi.gen_netany)


class C03(vlib.Driver):
    pid = "C03"
    preamble = ("From Coq Require Import List ZArith String. Import ListNotations.\n"
                "From AgileV Require Import C03.Model C03.ModelCnn C03.ModelNet C03.ModelMulti C03.ModelMulti2 C03.ModelCnn3d C03.Check C03.CheckMulti C03.CheckMulti2 C03.CheckCnn3d.\n"
                "Open Scope Z_scope. Open Scope string_scope.\nDefinition length {A} := @List.length A.")
    rule = ("one case = one building block / network, a start architecture, a chain of advertised mutation calls "
            "(explicit arguments or scripted numpy draws). Exhaustive BFS over the architectures reachable for small "
            "bounds (one case per edge: every advertised method x every argument / draw choice) + seeded long walks at "
            "the default bounds. Distinct = (block, static fields, bounds, start architecture, method/argument/draw "
            "sequence). Non-trivial = some step changed the architecture, or its guard outcome differs from the previous "
            "call of that method in the chain.")
    trusted_base = ["hand-written models coq/theories/C03/Model*.v",
                    "correspondence harness harness/c03*.py (scripted np.random.randint / np.random.choice, canonical "
                    "parameter names, descriptor extraction from init_dict)"]
    assumptions = ["torch layer numerics (finite outputs) are checked by the oracle only, not modelled",
                   "torch parameter layouts of nn.Linear/LayerNorm/Conv/LSTM/BatchNorm are modelled, validated by K",
                   "mutation arguments are non-negative and, for CNN change_kernel, inside the range the method itself draws from"]
    shard = 120

    def generate(self, tier, rng):
        cases, self.exhaustive = generate_cases(tier, rng)
        return cases

    def run_impl(self, case):
        return run_case(case)

    def coq_term(self, case, obs):
        return coq_case(case, obs)

    def oracle(self, case, obs):
        return oracle_case(case, obs)

    def key(self, case):
        return key_case(case)

    def nontrivial(self, case, obs):
        return nontrivial_case(case, obs)

    def classify(self, case, obs):
        return classify_case(case, obs)

    def signature_of_case(self, case):
        return f"{case['block']}:{case.get('net', '')}:{case.get('obs', '')}:{'/'.join(s['m'] for s in case['steps'][:3])}"

    def neighbours(self, case, rng):
        # same start, each single step on its own; then prefixes
        for s in case["steps"][:8]:
            c = dict(case); c["steps"] = [s]; c["every"] = 1
            yield c
        for n in range(2, min(len(case["steps"]), 6)):
            c = dict(case); c["steps"] = case["steps"][:n]; c["every"] = 1
            yield c


if __name__ == "__main__":
    sys.exit(vlib.run_check(C03()))
